from verif.pyvc.verifier import REG
from verif.bounded import fuzz_job
import verif.contracts  # noqa

CONTRACTS = [n for n, c in REG.contracts.items() if "C12" in c.props]
TABLES = []

_HEAVY = [n for n in CONTRACTS if ".tree" in n or "keypath_sign" in n or "cb_external" in n]
_LIGHT = [n for n in CONTRACTS if n not in _HEAVY]


def _keys(rng, count):
    """internal keys of both parities (the first two are forced to differ in parity)"""
    from buidl.ecc import PrivateKey
    from verif.contracts.ecc import N
    out, want = [], 0
    while len(out) < count:
        p = PrivateKey(rng.randrange(1, N))
        if len(out) < 2 and p.point.parity != want:
            continue
        want = 1
        out.append(p)
    return out


def _rand_script(rng, i):
    from verif.contracts.common import rand_bytes
    kind = (i + rng.randrange(3)) % 4
    if kind == 0:
        return b"\x20" + rand_bytes(rng, 32) + b"\xac"
    if kind == 1:
        return bytes([0x51 + rng.randrange(16)])
    if kind == 2:
        return b"\x4c" + bytes([80]) + rand_bytes(rng, 80) + b"\x75\x51"        # PUSHDATA1
    return b"\x4d" + (0x102).to_bytes(2, "little") + rand_bytes(rng, 0x102) + b"\x75\x51"   # PUSHDATA2, compact size 0xfd..


def _check_tree(shape, n, rng, fails, samples, tamper=False):
    """one tree of the given shape with fresh random leaves and a fresh internal key: every claim of C12
    on every leaf.  -> number of evaluations"""
    import io
    import verif.specs as s
    from buidl.script import Script
    from buidl.taproot import ControlBlock, TapLeaf
    from verif.harness import taproot as h
    T = s.taproot
    ev = 0
    versions = [0xC0 if rng.random() < 0.7 else rng.choice([0xC2, 0x00, 0xFE, 0x66]) for _ in range(n)]
    raws = [_rand_script(rng, i) for i in range(n)]
    leaves = [TapLeaf(Script.parse(raw=r), v) for r, v in zip(raws, versions)]
    specs = [(v, r) for v, r in zip(versions, raws)]
    priv = _keys(rng, 2)[rng.randrange(2)]
    pub = priv.point
    root = h.build_tree(shape, leaves)
    st = h.spec_tree(shape, specs)
    ident = {"shape": repr(shape), "secret": str(priv.secret), "leaves": [[v, r.hex()] for v, r in specs]}

    def bad(what, **kw):
        fails.append({"what": what, "inputs": dict(ident, **{k: (v.hex() if isinstance(v, bytes) else v) for k, v in kw.items()}),
                      "violated": [what]})
    mr = root.hash()
    ev += 1
    if mr != T.tree_hash(st):
        bad("Merkle root differs from BIP341 tree hash")
    if h.build_tree(h.mirror(shape), leaves).hash() != mr:
        bad("Merkle root depends on left/right order of siblings")
    q_spec = T.output_key(s.curve.pt(pub), mr)
    q = root.external_pubkey(pub)
    if s.curve.pt(q) != q_spec:
        bad("output key != even(P) + H_TapTweak(P || root) * G")
    tw = priv.tweaked_key(mr)
    ev += 1
    if s.curve.pt(tw.point) != q_spec or tw.secret != T.tweaked_secret(priv.secret, mr):
        bad("tweaked private key is not the discrete log of the output key")
    qx = T.x32(q_spec)
    paths = T.leaf_paths(st)
    for i, leaf in enumerate(leaves):
        ev += 1
        cb = root.control_block(pub, leaf) if n > 1 else leaf.control_block(pub)
        if cb is None:
            bad("no control block for a leaf of the tree", leaf=i)
            continue
        ser = cb.serialize()
        # a leaf that occurs more than once (same version and script bytes, hence the same leaf hash) is found by equality:
        # the library hands out the block of its FIRST occurrence, which is a correct block for that leaf (checked below:
        # it parses back, recomputes the output key and satisfies the BIP341 rule); the byte-exact expectation is
        # therefore the path of the first equal leaf
        first = specs.index(specs[i])
        if ser != T.control_block_ser(versions[i], T.parity(q_spec), T.x32(s.curve.pt(pub)), paths[first][2]):
            bad("control block bytes differ from BIP341", leaf=i, got=ser)
        back = ControlBlock.parse(ser)
        if not (back == cb and back.serialize() == ser and back.tapleaf_version == cb.tapleaf_version and back.parity == cb.parity
                and back.hashes == cb.hashes and back.internal_pubkey.xonly() == pub.xonly()):
            bad("control block does not parse back identically", leaf=i, got=ser)
        ext = back.external_pubkey(leaf.tap_script)
        if s.curve.pt(ext) != q_spec or back.parity != ext.parity:
            bad("control block does not recompute the output key and parity", leaf=i, got=ser)
        if T.script_path_commits(qx, ser, raws[i]) is not True:
            bad("control block fails the BIP341 script path rule (spec on bytes)", leaf=i, got=ser)
        if len(samples) < 2:
            samples.append({"shape": repr(shape), "leaf": i, "control_block": ser.hex(), "output_key": qx.hex()})
        if tamper:
            ev += _tamper(T, ControlBlock, Script, qx, T.parity(q_spec), ser, raws[i], rng, bad, i, quick=(tamper == "quick"))
    return ev


def _tamper(T, ControlBlock, Script, qx, qpar, ser, raw, rng, bad, leaf_i, quick=False):
    """every byte position of the control block and of the leaf script altered (a few values per position):
    the real code must reject it (exception) or recompute a different key / parity; the spec rule must be False"""
    ev = 0

    def accepted(cb_bytes, script_bytes):
        try:
            cb = ControlBlock.parse(cb_bytes)
            ext = cb.external_pubkey(Script.parse(raw=script_bytes))
            return ext.xonly() == qx and cb.parity == ext.parity == qpar
        except Exception:
            return False
    for pos in range(len(ser)):
        deltas = (1 << rng.randrange(8),) if quick else (1, 0x80, rng.randrange(1, 256))
        for dlt in set(deltas):
            alt = ser[:pos] + bytes([ser[pos] ^ dlt]) + ser[pos + 1:]
            ev += 1
            # the spec is consulted on a sample only (it costs a scalar multiplication like the code)
            if (pos % 4 == 0 or not quick) and T.script_path_commits(qx, alt, raw) is not False:
                bad("SPEC accepts an altered control block (spec problem or hash collision)", leaf=leaf_i, pos=pos, alt=alt)
            if accepted(alt, raw):
                bad("altered control block still reproduces key and parity", leaf=leaf_i, pos=pos, alt=alt)
    for pos in range(min(len(raw), 12 if quick else 40)):
        alt = raw[:pos] + bytes([raw[pos] ^ (1 << rng.randrange(8))]) + raw[pos + 1:]
        ev += 1
        if accepted(ser, alt) or T.script_path_commits(qx, ser, alt) is not False:
            bad("altered leaf script still reproduces key and parity", leaf=leaf_i, pos=pos, alt=alt)
    return ev


def _shapes_job(sizes_quick, sizes_thorough, per_shape_quick=1, per_shape_thorough=1, tamper=False):
    def run(seed, tier):
        import random
        from verif.harness import taproot as h
        rng = random.Random(seed * 7919 + 12 + sum(sizes_thorough))
        fails, samples, ev, distinct = [], [], 0, 0
        sizes = sizes_quick if tier == "quick" else sizes_thorough
        reps = per_shape_quick if tier == "quick" else per_shape_thorough
        for n in sizes:
            shapes = h.all_shapes(n)
            if tamper:
                shapes = [shapes[0], shapes[-1]] if len(shapes) > 1 else shapes
            for shape in shapes:
                for _ in range(reps):
                    ev += _check_tree(shape, n, rng, fails, samples, tamper=(tier if tamper else False))
                    distinct += 1
        return {"evaluations": ev, "distinct": distinct, "failures": fails[:20], "samples": samples,
                "bound": "every binary tree shape with %s leaves (%s), fresh random leaf scripts of four kinds, leaf versions, internal keys of "
                         "both parities; every leaf of every tree%s" % (list(sizes), "tamper: left and right comb only" if tamper else "all Catalan(n-1) shapes",
                                                                          "; every byte position of the control block x 3 xor values (quick: 1), first 40 (quick: 12) script bytes x 1 bit" if tamper else "")}
    return run


def tamper_byte0(seed, tier):
    """all 255 alterations of the first control-block byte and of one key byte / one path byte"""
    import random
    import verif.specs as s
    from buidl.script import Script
    from buidl.taproot import ControlBlock, TapLeaf, TapBranch
    rng = random.Random(seed + 99)
    T = s.taproot
    fails, ev = [], 0
    for rep in range(1 if tier == "quick" else 6):
        priv = _keys(rng, 2)[rep % 2]
        raws = [_rand_script(rng, i) for i in range(2)]
        leaves = [TapLeaf(Script.parse(raw=r)) for r in raws]
        root = TapBranch(*leaves)
        q = root.external_pubkey(priv.point)
        ser = root.control_block(priv.point, leaves[0]).serialize()

        def bad(what, **kw):
            fails.append({"what": what, "inputs": {"secret": str(priv.secret), "scripts": [r.hex() for r in raws],
                                                    **{k: (v.hex() if isinstance(v, bytes) else v) for k, v in kw.items()}}, "violated": [what]})
        for pos in (0, 1 + rng.randrange(32), 33 + rng.randrange(32)):
            for v in (range(256) if (pos == 0 or tier != "quick") else rng.sample(range(256), 24)):
                if v == ser[pos]:
                    continue
                alt = ser[:pos] + bytes([v]) + ser[pos + 1:]
                ev += 1
                ok_spec = T.script_path_commits(q.xonly(), alt, raws[0]) if (v % 4 == 0 or tier != "quick") else False
                try:
                    cb = ControlBlock.parse(alt)
                    ext = cb.external_pubkey(leaves[0].tap_script)
                    ok_code = ext.xonly() == q.xonly() and cb.parity == ext.parity == q.parity
                except Exception:
                    ok_code = False
                if ok_spec is not False:
                    bad("SPEC accepts an altered control block", pos=pos, alt=alt)
                if ok_code:
                    bad("altered control block still reproduces key and parity", pos=pos, alt=alt)
    return {"evaluations": ev, "distinct": ev, "failures": fails[:10], "samples": [],
            "bound": "2-leaf trees: all 255 other values of control-block byte 0, of one internal-key byte and of one path byte (quick: 24 values for the latter two)"}


def notes_probe(seed, tier):
    """directed probes that are STRICTER than the property statement (reported as notes, never as violations
    unless they contradict the statement): see notes/C12_C13.md"""
    from buidl.ecc import PrivateKey
    from buidl.script import Script
    from buidl.taproot import TapLeaf, TapBranch
    fails = []
    # a leaf whose script object equals an earlier leaf's (same commands) but serializes differently
    a = TapLeaf(Script.parse(raw=bytes.fromhex("4c0101ac")))
    b = TapLeaf(Script([b"\x01", 0xAC]))
    x = TapLeaf(Script([b"\x02" * 32, 0xAC]))
    pub = PrivateKey(1001).point
    tree = TapBranch(TapBranch(a, x), b)
    q = tree.external_pubkey(pub)
    cb = tree.control_block(pub, b)
    ext = cb.external_pubkey(b.tap_script)
    if not (ext.xonly() == q.xonly() and ext.parity == cb.parity == q.parity):
        fails.append({"what": "control block of a leaf whose Script compares equal to an earlier leaf (same commands, different bytes) does not reproduce the output key",
                      "inputs": {"internal_secret": 1001, "tree": "((4c0101ac, 20 02*32 ac), 0101ac)", "leaf": "0101ac"},
                      "violated": ["control block recomputes the same output key and parity (for every leaf of every tree)"]})
    return {"evaluations": 1, "distinct": 1, "failures": fails, "samples": [],
            "bound": "one directed tree with two leaves that are == as Script objects but have different serializations"}


BOUNDED = [("rt-contracts-light", fuzz_job(_LIGHT)), ("rt-contracts-heavy", fuzz_job(_HEAVY)),
           ("trees-1-4", _shapes_job((1, 2, 3, 4), (1, 2, 3, 4), 2, 6)),
           ("trees-5", _shapes_job((5,), (5,), 1, 3)),
           ("trees-6", _shapes_job((), (6,))),
           ("trees-7", _shapes_job((), (7,))),
           ("trees-8a", _shapes_job((), (8,))),
           ("tamper-every-position", _shapes_job((1, 3), (1, 2, 3, 4, 5), 1, 1, tamper=True)),
           ("tamper-all-values", tamper_byte0),
           ("equal-scripts-different-bytes", notes_probe)]
JOB_TIMEOUT = {"quick": 240, "thorough": 1500}
CATEGORY = "other"
TECHNIQUE = ("contract-based deductive verification: pyvc VCs from the real taproot.py / pecc.py source, z3 + zn_ring in the discrete-log theory of "
             "secp256k1, tagged hashes uninterpreted; case split over tree shapes of 1..4 leaves; bounded companion over all shapes with 1..8 leaves "
             "and single-byte alterations")
TRUSTED_BASE = ["pyvc symbolic executor (A-ENGINE)", "z3 5.1", "zn_ring normaliser",
                "discrete-log theory of secp256k1 (A-PRIME; group law is C03)",
                "spec verif/specs/taproot.py (BIP341 formulas), curve.py, schnorr.py (A-SPEC)",
                "SHA256 uninterpreted deterministic function (tagged hashes with concrete tags)",
                "harness verif/harness/taproot.py (straight-line compositions of TapLeaf/TapBranch/ControlBlock/tweaked_key)",
                "lemma supplied as a precondition that is true for all inputs: int.from_bytes(.., 'big') is injective on 32-byte strings "
                "(contracts branch_hash_swapped, branch3_hashes)"]
ASSUMPTIONS = ["A-ENGINE", "A-SPEC", "A-BUILTIN", "A-PRIME (discrete-log model of the curve)",
               "A-NEGL: tweak t >= n and output key at infinity excluded (spec.taproot.tweak_defined), signing nonce 0 excluded (spec.schnorr.sign_defined)",
               "A-CR: tree contracts assume that two DIFFERENT sibling subtrees have different hashes (identical siblings are separate *_dup contracts); "
               "'any altered byte is rejected or changes key/parity' is proved only as injectivity of the control-block codec and independence of the key "
               "from the recorded parity bit -- that a different path/script/key gives a different output key is collision resistance of the tagged hashes, "
               "not claimed; exercised by the bounded tamper jobs",
               "leaf scripts in the whole-tree contracts are `<32 symbolic bytes> OP_CHECKSIG`; arbitrary script bytes (1..300) in the leaf/branch/control-block contracts",
               "TapBranch._leaves memo: trees are not mutated after construction (public fields; not in the property)",
               "trees of more than 4 leaves: bounded companion only", "cecc.py back end not verified", "termination not verified"]
EXPLANATION = ("TapLeaf.hash / TapBranch.hash / ControlBlock.merkle_root equal the BIP341 formulas for all leaf versions and script bytes, and the branch hash is "
               "symmetric in its children; S256Point.tweaked_key is even(P) + H_TapTweak(x(P) || root) G with the BIP's parity, PrivateKey.tweaked_key is its "
               "discrete logarithm, a key-path signature made with it verifies under BIP340 for the output key; for every tree shape with 1..4 leaves (and all "
               "duplicate-leaf patterns up to 3 leaves) the control block of every leaf is the BIP341 control block, recomputes the output key and parity; "
               "ControlBlock.parse(serialize(cb)) returns the same block; lengths other than 33 + 32m (m <= 128) are rejected.")
LEVEL_TEXT = ("Mixed, claimed as 'other'.  Unbounded deductive proof (all internal keys of both parities, all 32-byte roots / path hashes, all leaf versions, script bytes up to 300) of the "
              "BIP341 hash, tweak, private-tweak and control-block formulas, of left/right independence, of the key-path signature, and for every tree shape "
              "with at most 4 leaves that each leaf's control block reproduces the output key and parity; trees up to 8 leaves and single-byte tampering bounded.")
LEVEL_NOTE = ("assumes the discrete-log model (group law is C03), uninterpreted hashes, A-NEGL, distinct sibling hashes (A-CR) in the tree contracts; "
              "tamper direction beyond codec injectivity is A-CR and only bounded; cecc unverified")
