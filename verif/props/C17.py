"""C17: Merkle roots, BIP37 partial merkle trees, header hash / PoW / compact bits / retarget, header chains"""
import ast
import inspect
import io
import math
import random
import time

from verif.pyvc.verifier import REG, jsonable
from verif.bounded import fuzz_job
import verif.contracts  # noqa
import verif.specs as spec

S = spec.spv
ALL = [n for n, c in REG.contracts.items() if "C17" in c.props]
CONTRACTS = [n for n in ALL if REG.contracts[n].tiers]          # tiers=() : concrete (bounded companion) only


# ------------------------------------------------------------------------------------------ helpers
def _hdr(root_internal, rng):
    return spec.header80(1, bytes(32), root_internal[::-1], rng.getrandbits(32), bytes.fromhex("ffff7f20"), bytes(4))


def _run_real(raw):
    """feed a serialised merkleblock to the real code -> ('ok', valid, proved) | ('exc', name)"""
    from buidl.merkleblock import MerkleBlock
    try:
        mb = MerkleBlock.parse(io.BytesIO(raw))
        ok = mb.is_valid()
        return ("ok", bool(ok), list(mb.proved_txs()))
    except Exception as e:                      # any exception counts as "validation failed"
        return ("exc", type(e).__name__)


def _proof_bytes(hdr, total, bits, hashes, flag_bytes=None):
    fb = S.flag_bytes(bits) if flag_bytes is None else flag_bytes
    return (hdr + (total % 2**32).to_bytes(4, "little") + S._cs(len(hashes)) + b"".join(hashes) + S._cs(len(fb)) + fb)


def _honest(txids, match, rng):
    total, bits, hashes = S.pmt_build(txids, match)
    root = S.merkle_root(txids)
    hdr = _hdr(root, rng)
    return hdr, total, bits, hashes, root


# ------------------------------------------------------------------------------------------ bounded jobs
def pmt_exhaustive(seed, tier):
    """all trees with 1..N leaves x all 2^n match subsets: spec-built proof validates on the real code and
    yields exactly the matched ids in order"""
    rng = random.Random(seed + 11)
    nmax = 8 if tier == "quick" else 10
    ev = 0
    fails, samples = [], []
    for n in range(1, nmax + 1):
        txids = [rng.randbytes(32) for _ in range(n)]
        for mask in range(1 << n):
            match = [(mask >> i) & 1 for i in range(n)]
            hdr, total, bits, hashes, root = _honest(txids, match, rng)
            ev += 1
            want = [txids[i][::-1] for i in range(n) if match[i]]          # real code reports display order
            sx = S.pmt_extract(total, S.flag_bits(S.flag_bytes(bits)), hashes)
            got = _run_real(_proof_bytes(hdr, total, bits, hashes))
            if sx is None or sx[0] != root or [h for _, h in sx[1]] != [txids[i] for i in range(n) if match[i]]:
                fails.append({"what": "spec self-check: build/extract disagree", "inputs": jsonable({"n": n, "mask": mask}), "violated": ["spec"]})
            if got != ("ok", True, want) and len(fails) < 10:
                fails.append({"what": "honest BIP37 proof not validated / wrong ids (n=%d mask=%s): %r" % (n, bin(mask), got[:2]),
                              "inputs": jsonable({"txids": txids, "match": match}), "violated": ["is_valid() and proved_txs() == matched ids in order"]})
            if mask == (1 << n) // 3 and len(samples) < 3:
                samples.append({"n": n, "mask": mask, "hashes": len(hashes), "bits": len(bits), "outcome": got[0]})
    return {"evaluations": ev, "distinct": ev, "failures": fails, "samples": samples,
            "bound": "every tree with 1..%d leaves x every match subset (2^n each), random 32-byte ids" % nmax}


def pmt_sampled(seed, tier):
    """sampled trees up to 5000 leaves"""
    rng = random.Random(seed + 12)
    sizes = [11, 12, 13, 15, 16, 17, 31, 32, 33, 63, 64, 65, 100, 127, 128, 129, 255, 256, 257, 1000, 2047, 2049, 4096, 5000]
    reps = 2 if tier == "quick" else 12
    if tier != "quick":
        sizes += [rng.randrange(11, 5001) for _ in range(60)]
    ev, fails, samples = 0, [], []
    for n in sizes:
        txids = [rng.randbytes(32) for _ in range(n)]
        for r in range(reps):
            dens = [0.0, 1.0 / n, 0.01, 0.3, 1.0][(r + n) % 5]
            match = [1 if rng.random() < dens else 0 for _ in range(n)]
            if r % 2 == 1:
                match[-1] = 1                      # the right-most (possibly duplicated) leaf
            hdr, total, bits, hashes, root = _honest(txids, match, rng)
            got = _run_real(_proof_bytes(hdr, total, bits, hashes))
            ev += 1
            want = [txids[i][::-1] for i in range(n) if match[i]]
            if got != ("ok", True, want) and len(fails) < 10:
                fails.append({"what": "honest BIP37 proof not validated / wrong ids (n=%d, %d matched): %r" % (n, sum(match), got[:2]),
                              "inputs": jsonable({"n": n, "match_indices": [i for i in range(n) if match[i]][:50]}),
                              "violated": ["is_valid() and proved_txs() == matched ids in order"]})
            if len(samples) < 3 and r == 0:
                samples.append({"n": n, "matched": sum(match), "hashes": len(hashes), "outcome": got[0]})
    return {"evaluations": ev, "distinct": ev, "failures": fails, "samples": samples,
            "bound": "%d tree sizes in 11..5000 (powers of two +-1, 5000) x %d match densities" % (len(sizes), reps)}


def pmt_tamper(seed, tier):
    """every single-bit alteration of every hash, every flag bit, every bit of the tx count and of the header
    root, every dropped hash, extra hashes: validation fails (False or exception) or all yielded ids are block txids"""
    rng = random.Random(seed + 13)
    sizes = [1, 2, 3, 4, 5, 6, 7, 8, 9, 12, 16, 17, 33] if tier == "quick" else list(range(1, 41)) + [64, 65, 100, 257, 1000, 5000]
    t0 = time.time()
    budget = 120 if tier == "quick" else 900
    ev, fails, samples = 0, [], []
    accepted_altered = 0
    diverge = {"core_rejects_repo_accepts": 0, "core_accepts_repo_rejects": 0}
    for n in sizes:
        txids = [rng.randbytes(32) for _ in range(n)]
        allowed = set(t[::-1] for t in txids)
        masks = [[rng.random() < 0.4 for _ in range(n)], [i == n - 1 for i in range(n)], [i == 0 for i in range(n)]]
        for match in masks[:2 if n > 40 else 3]:
            if time.time() - t0 > budget:
                break
            hdr, total, bits, hashes, root = _honest(txids, match, rng)
            fb = S.flag_bytes(bits)
            cases = []
            hash_bits = range(256) if n <= 40 else [0, 7, 128, 255]
            for hi in range(len(hashes)):
                for b in hash_bits:
                    hs = list(hashes)
                    x = bytearray(hs[hi]); x[b // 8] ^= 1 << (b % 8); hs[hi] = bytes(x)
                    cases.append(("hash[%d] bit %d" % (hi, b), hdr, total, hs, fb))
            for b in range(8 * len(fb)):
                y = bytearray(fb); y[b // 8] ^= 1 << (b % 8)
                cases.append(("flag bit %d" % b, hdr, total, hashes, bytes(y)))
            for b in range(32):
                t2 = total ^ (1 << b)
                if t2 <= 70000:                    # MerkleTree allocates `total` nodes: keep allocations sane
                    cases.append(("tx count bit %d -> %d" % (b, t2), hdr, t2, hashes, fb))
            for b in range(256):
                h2 = bytearray(hdr); h2[36 + b // 8] ^= 1 << (b % 8)
                cases.append(("root bit %d" % b, bytes(h2), total, hashes, fb))
            for hi in range(len(hashes)):
                cases.append(("drop hash %d" % hi, hdr, total, hashes[:hi] + hashes[hi + 1:], fb))
                cases.append(("duplicate hash %d" % hi, hdr, total, hashes[:hi] + [hashes[hi]] + hashes[hi:], fb))
            cases.append(("extra hash appended", hdr, total, hashes + [rng.randbytes(32)], fb))
            cases.append(("extra zero flag byte", hdr, total, hashes, fb + b"\x00"))
            cases.append(("extra flag byte 01", hdr, total, hashes, fb + b"\x01"))
            if n % 2 == 1 and n > 1:               # CVE-2012-2459 shape: claim total+1 with the last id repeated
                t2, b2, h2 = S.pmt_build(txids + [txids[-1]], list(match) + [match[-1]])
                cases.append(("total+1 with duplicated last id", hdr, t2, h2, S.flag_bytes(b2)))
            for what, hd, tot, hs, fbytes in cases:
                ev += 1
                got = _run_real(_proof_bytes(hd, tot, None, hs, fbytes))
                core = S.pmt_extract(tot, S.flag_bits(fbytes), hs) if 0 < tot <= 70000 else None
                core_ok = core is not None and core[0] == hd[36:68]
                if got[0] == "ok" and got[1]:
                    accepted_altered += 1
                    if not core_ok:
                        diverge["core_rejects_repo_accepts"] += 1
                        if len(samples) < 6:
                            samples.append({"divergence": "repo validates, Core ExtractMatches rejects", "alteration": what, "n": n})
                    bad = [p for p in got[2] if p not in allowed]
                    if bad and len(fails) < 10:
                        fails.append({"what": "altered proof (%s, n=%d) validates and yields an id that is not a block txid" % (what, n),
                                      "inputs": jsonable({"txids": txids, "match": match, "alteration": what, "yielded": bad[:3]}),
                                      "violated": ["validates => every yielded id is a block txid"]})
                elif core_ok:
                    diverge["core_accepts_repo_rejects"] += 1
    samples.append({"altered_proofs_still_valid_with_block_ids_only": accepted_altered, "divergence_from_core_extract": diverge})
    return {"evaluations": ev, "distinct": ev, "failures": fails, "samples": samples,
            "bound": "trees of sizes %s x up to 3 match sets; per proof: 256 bit flips per hash, every flag bit, 32 count bits, 256 root bits, "
                     "every dropped/duplicated hash, extra hash, extra flag bytes, CVE-2012-2459 duplicate-tail claim" % sizes}


def _init_exprs():
    """the two sizing expressions of MerkleTree.__init__, taken from the real source"""
    from buidl.merkleblock import MerkleTree
    src = inspect.getsource(MerkleTree.__init__)
    tree = ast.parse("class _X:\n" + src)
    depth_e = width_e = None
    for node in ast.walk(tree):
        if isinstance(node, ast.Assign) and isinstance(node.targets[0], ast.Attribute) and node.targets[0].attr == "max_depth":
            depth_e = node.value
        if isinstance(node, ast.Assign) and isinstance(node.targets[0], ast.Name) and node.targets[0].id == "num_items":
            width_e = node.value
    comp = lambda e: compile(ast.fix_missing_locations(ast.Expression(body=e)), "<merkleblock.py>", "eval")
    return comp(depth_e), (comp(width_e) if width_e is not None else None)


class _Self:
    pass


def tree_sizing(seed, tier):
    """MerkleTree sizing: max_depth == ceil(log2 total) and level widths == CalcTreeWidth for all totals"""
    from buidl.merkleblock import MerkleTree
    import buidl.merkleblock as mbmod
    depth_c, width_c = _init_exprs()
    top = 2**16 if tier == "quick" else 2**22
    ev, fails = 0, []
    s = _Self()
    g = dict(vars(mbmod))
    for total in range(1, top + 1):
        s.total = total
        d = eval(depth_c, g, {"self": s})
        ev += 1
        if d != S.ceil_log2(total) and len(fails) < 5:
            fails.append({"what": "MerkleTree max_depth for total=%d is %r, exact ceil(log2) is %d" % (total, d, S.ceil_log2(total)),
                          "inputs": jsonable({"total": total}), "violated": ["max_depth == ceil(log2(total))"]})
    # the real constructor itself (allocates the node lists) on every total up to 2**11 and around powers of two
    totals = list(range(1, 2049)) + [2**k + d for k in range(12, 17) for d in (-1, 0, 1)]
    for total in totals:
        t = MerkleTree(total)
        ev += 1
        want = [S.tree_width(total, h) for h in range(S.tree_height(total), -1, -1)]
        if (t.max_depth != S.tree_height(total) or [len(l) for l in t.nodes] != want) and len(fails) < 10:
            fails.append({"what": "MerkleTree(%d) level sizes %r, spec %r" % (total, [len(l) for l in t.nodes][:8], want[:8]),
                          "inputs": jsonable({"total": total}), "violated": ["level widths == CalcTreeWidth"]})
    beyond = [t for t in (2**29, 2**31, 2**39, 2**47, 2**29 + 1, 2**31 - 1) if _depth(depth_c, g, t) != S.ceil_log2(t)]
    return {"evaluations": ev, "distinct": ev, "failures": fails,
            "samples": [{"first_wrong_totals_beyond_any_block (information only)": [str(b) for b in beyond]}],
            "bound": "the max_depth expression of MerkleTree.__init__ (read from the source) for every total in 1..%d; the constructor itself for totals 1..2048 and 2^k-1,2^k,2^k+1 up to 2^16" % top}


def _depth(c, g, total):
    s = _Self()
    s.total = total
    return eval(c, g, {"self": s})


def header_chains(seed, tier):
    """HeadersMessage.parse + is_valid on mined regtest-difficulty chains with broken linkage / PoW / nBits"""
    from buidl.network import HeadersMessage
    rng = random.Random(seed + 14)
    ev, fails, samples = 0, [], []
    LIM = S.POW_LIMIT_REGTEST
    n_chains = 60 if tier == "quick" else 600
    for k in range(n_chains):
        n = rng.choice([1, 2, 3, 5, 8])
        prev = rng.randbytes(32)
        raws = []
        mode = k % 7
        bad = rng.randrange(n)
        for i in range(n):
            bits = bytes.fromhex("ffff7f20")
            if i == bad and mode == 4:
                bits = bytes.fromhex("01008020")        # sign bit: negative in Core
            if i == bad and mode == 5:
                bits = bytes.fromhex("ffff0023")        # overflow in Core
            if i == bad and mode == 6:
                bits = bytes.fromhex("00008020")        # mantissa 0x800000: Core reads 0
            p = prev
            if i == bad and i > 0 and mode == 2:
                p = bytes([prev[0] ^ 1]) + prev[1:]
            while True:
                raw = spec.header80(0x20000000, p[::-1][::-1], rng.randbytes(32), rng.getrandbits(32), bits, rng.randbytes(4))
                raw = raw[:4] + p + raw[36:]                       # prev hash in internal order
                ok = S.header_pow_ok(raw, LIM)
                if mode == 3 and i == bad:
                    if not ok:
                        break
                elif mode in (4, 5, 6) and i == bad:
                    if int.from_bytes(S.dsha256(raw), "little") < 2**254:      # would pass the repo's comparison
                        break
                elif ok:
                    break
            raws.append(raw)
            prev = S.dsha256(raw)
        want = S.chain_valid(raws, LIM)
        payload = S._cs(n) + b"".join(r + b"\x00" for r in raws)
        try:
            got = HeadersMessage.parse(io.BytesIO(payload)).is_valid()
        except Exception as e:
            got = "exc:" + type(e).__name__
        ev += 1
        if got != want and len(fails) < 10:
            fails.append({"what": "HeadersMessage.is_valid() == %r, consensus (regtest limit) says %r; chain of %d, mode %d (4: sign-bit nBits, 5: overflow nBits, 6: mantissa 0x800000)" % (got, want, n, mode),
                          "inputs": jsonable({"headers": raws}), "violated": ["is_valid() == linked and CheckProofOfWork for every header"]})
        if len(samples) < 3:
            samples.append({"n": n, "mode": mode, "want": want, "got": got})
    return {"evaluations": ev, "distinct": ev, "failures": fails, "samples": samples,
            "bound": "%d mined chains of 1..8 headers: honest, one broken link, one header failing PoW, nBits with sign bit / overflow / mantissa 0x800000" % n_chains}


# ------------------------------------------------------------------------------------------ tables
def bits_table(tier):
    """all exponents 0..34 (and 35, 0x7f, 0xff) x boundary mantissas incl. the 0x800000 sign bit, real vs SetCompact/GetCompact"""
    from buidl.helper import bits_to_target, target_to_bits
    out = []
    mants = [0, 1, 0x7f, 0x80, 0xff, 0x100, 0x7fff, 0x8000, 0xffff, 0x10000, 0x7fffff, 0x800000, 0x800001, 0xffffff]
    for e in list(range(0, 36)) + [0x7f, 0xff]:
        bad = []
        for mnt in mants:
            n = mnt | (e << 24)
            bits = n.to_bytes(4, "little")
            if S.compact_negative(n) or S.compact_overflow(n):
                continue
            want = S.compact_to_target(n)
            try:
                got = bits_to_target(bits)
            except Exception as ex:
                got = "exc:" + type(ex).__name__
            if not (isinstance(got, int) and got == want):
                bad.append((bits.hex(), repr(got)[:40], want))
        out.append({"name": "C17/table/bits_to_target/exp%d" % e, "status": "fail" if bad else "ok",
                    "clause": "bits_to_target(mantissa||exp) is the int SetCompact value for every boundary mantissa (non-negative, non-overflowing)",
                    "backend": "exhaustive", "inputs": jsonable({"first_bad": bad[:3]}) if bad else None})
    for nb in range(0, 33):
        bad = []
        lo, hi = (0, 1) if nb == 0 else (256 ** (nb - 1), 256 ** nb)
        for t in {lo, lo + 1, hi - 1, hi // 2, hi // 2 - 1, (hi >> 1) | 1, (lo * 0x7f) % hi, (lo * 0x80) % hi}:
            if lo <= t < hi:
                want = S.target_to_compact_bytes(t)
                try:
                    got = target_to_bits(t)
                except Exception as ex:
                    got = "exc:" + type(ex).__name__
                if got != want:
                    bad.append((hex(t), got.hex() if isinstance(got, bytes) else got, want.hex()))
        out.append({"name": "C17/table/target_to_bits/bytes%d" % nb, "status": "fail" if bad else "ok",
                    "clause": "target_to_bits(t) == GetCompact(t) as 4 LE bytes at the boundaries of the %d-byte class" % nb,
                    "backend": "exhaustive", "inputs": jsonable({"first_bad": bad[:3]}) if bad else None})
    return out


def vectors_table(tier):
    """known-answer vectors: Core pow_tests retargets, the real merkleblock of the repo's test, genesis headers"""
    from buidl.helper import calculate_new_bits, merkle_root
    out = []
    for prev, span, want in ((0x1d00ffff, 1262152739 - 1261130161, 0x1d00d86a), (0x1d00ffff, 1233061996 - 1231006505, 0x1d00ffff),
                             (0x1c05a3f4, 1279297671 - 1279008237, 0x1c0168fd), (0x1c387f6f, 1269211443 - 1263163443, 0x1d00e1fd)):
        sp = S.retarget(prev, span, S.POW_LIMIT_MAINNET)
        got = calculate_new_bits(prev.to_bytes(4, "little"), span)
        out.append({"name": "C17/table/retarget/%08x" % prev, "status": "ok" if sp == want and got == want.to_bytes(4, "little") else "fail",
                    "clause": "Core pow_tests get_next_work vector: spec and calculate_new_bits give %08x" % want, "backend": "exhaustive",
                    "inputs": jsonable({"prev": prev, "span": span, "spec": sp, "real": got})})
    import re
    src = open(inspect.getsourcefile(__import__("buidl.merkleblock", fromlist=["x"])).replace("merkleblock.py", "test/test_merkleblock.py")).read()
    m = re.search(r'hex_merkle_block = "([0-9a-f]+)"', src)
    if m:
        raw = bytes.fromhex(m.group(1))
        total = int.from_bytes(raw[80:84], "little")
        nh = raw[84]
        hashes = [raw[85 + 32 * i:85 + 32 * i + 32] for i in range(nh)]
        fl = raw[85 + 32 * nh]
        fb = raw[86 + 32 * nh:86 + 32 * nh + fl]
        ex = S.pmt_extract(total, S.flag_bits(fb), hashes)
        real = _run_real(raw)
        ok = ex is not None and ex[0] == raw[36:68] and real[0] == "ok" and real[1] and real[2] == [h[::-1] for _, h in ex[1]]
        out.append({"name": "C17/table/bip37-real-merkleblock", "status": "ok" if ok else "fail",
                    "clause": "testnet merkleblock of the repo's test: spec ExtractMatches root == header root, real code validates and yields the same ids",
                    "backend": "exhaustive", "inputs": jsonable({"total": total, "hashes": nh, "matched": len(ex[1]) if ex else None})})
    from buidl.block import GENESIS_BLOCK_HEADERS
    for net, h in GENESIS_BLOCK_HEADERS.items():
        raw = h.serialize()
        want = S.header_pow_ok(raw, S.POW_LIMIT[net])
        out.append({"name": "C17/table/genesis/" + net, "status": "ok" if (h.check_pow() == want and want and h.hash() == S.header_hash(raw)) else "fail",
                    "clause": "genesis header: check_pow() == CheckProofOfWork == True, hash() == SHA256d reversed", "backend": "exhaustive",
                    "inputs": jsonable({"net": net})})
    return out


TABLES = [("bits-target-table", bits_table), ("known-vectors", vectors_table)]
BOUNDED = [("rt-contracts", fuzz_job(ALL)), ("pmt-exhaustive", pmt_exhaustive), ("pmt-sampled", pmt_sampled),
           ("pmt-tamper", pmt_tamper), ("merkletree-sizing", tree_sizing), ("header-chains", header_chains)]
TRUSTED_BASE = ["pyvc symbolic executor (A-ENGINE)", "z3 5.1", "spec functions verif/specs/spv.py, wire.py (A-SPEC)",
                "harness functions verif/harness/spv.py", "CPython built-ins per verif/pyvc/calls.py (A-BUILTIN)",
                "hashlib digests uninterpreted (deterministic functions of their input)"]
ASSUMPTIONS = ["A-ENGINE", "A-SPEC", "A-BUILTIN",
               "A-CR: SHA256d collision/second-preimage resistance -- 'altering any hash or the root makes validation fail' is checked on "
               "enumerated alterations, not proved",
               "BIP37 depth ambiguity: 'yielded ids are block txids' is relative to the claimed transaction count (a 64-byte "
               "transaction / interior-node confusion is outside what a merkleblock can exclude)",
               "Block carries no network: check_pow is compared with the powLimit sandwich mainnet => accepted => regtest",
               "termination not verified"]
EXPLANATION = ("Merkle root (lists of 1..5 symbolic ids), compact bits <-> target (every exponent, symbolic mantissa; all 33 byte-length "
               "classes of [0, 2^256)), retarget with clamps, check_pow and header-chain validity against Core's formulas, deductively; "
               "BIP37 partial merkle trees against the recursive merkleblock.cpp spec by exhaustive enumeration (1..10 leaves x all subsets), "
               "sampling (<= 5000 leaves) and a tamper catalogue; MerkleTree sizing for all totals up to 2^22.")
CATEGORY = "other"
LEVEL_TEXT = ("Mixed: deductive (pyvc + z3) for merkle_parent / merkle_parent_level / merkle_root on 1..5 symbolic hashes, bits_to_target per "
              "exponent, target_to_bits per byte-length class, calculate_new_bits per exponent, Block.target / check_pow / HeadersMessage.is_valid "
              "on 1..3 symbolic headers, flag-bit packing; exhaustive + sampled + tamper-catalogue evidence for the BIP37 tree walker and "
              "float-based tree sizing, which are not proved. Claimed as 'other' because the BIP37 walker and any-length Merkle levels are not proved.  "
              "The defects these checks found on the pinned tree are repaired by fix: commits in /repo (one `fixed:` line each in /verif/KNOWN_FINDINGS.jsonl).")
LEVEL_NOTE = ("trusted: pyvc translation (A-ENGINE), spec functions (A-SPEC), harnesses, CPython builtin contracts (A-BUILTIN), SHA256 "
              "uninterpreted; tamper resistance rests on A-CR; termination not verified")
JOB_TIMEOUT = {"quick": 240, "thorough": 1500}
