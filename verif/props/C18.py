"""C18: BIP158 compact filters / BIP37 bloom filters: no false negatives, exact encodings; SipHash-2-4; MurmurHash3"""
import ast
import inspect
import io
import random
import re
import time

from verif.pyvc.verifier import REG, jsonable
from verif.bounded import fuzz_job
import verif.contracts  # noqa
import verif.specs as spec

F = spec.filters
ALL = [n for n, c in REG.contracts.items() if "C18" in c.props]
CONTRACTS = [n for n in ALL if REG.contracts[n].tiers]          # tiers=() : concrete (bounded companion) only


def _item(rng):
    k = rng.random()
    if k < 0.5:
        return rng.randbytes(rng.choice([22, 23, 25, 34, 35]))
    return rng.randbytes(rng.randrange(0, 601))


def _distinct(rng, n):
    out, seen = [], set()
    while len(out) < n:
        it = _item(rng)
        if it not in seen:
            seen.add(it)
            out.append(it)
    return out


def _collide(rng, key, n):
    """n distinct items of which the first two have equal hash_to_range values for F = n * M (found with the spec)"""
    rest = [rng.randbytes(26) for _ in range(n - 2)]
    seen = {}
    while True:
        it = rng.randbytes(22)
        h = F.hash_to_range(key, it, n * F.GCS_M)
        if h in seen and seen[h] != it:
            return [seen[h], it] + rest
        seen[h] = it


def compact_filter_members(seed, tier):
    """no false negatives + exact bytes, through CompactFilter.parse and through CFilterMessage.parse"""
    from verif.harness.filters import cf_members, cfilter_msg_members
    from buidl.compactfilter import encode_gcs
    rng = random.Random(seed + 21)
    sizes = [0, 1, 2, 3, 4, 5, 7, 10, 50, 252, 253, 254, 500, 1000, 2000]
    if tier != "quick":
        sizes += list(range(6, 60)) + [rng.randrange(60, 2001) for _ in range(40)]
    cases = []
    for n in sizes:
        cases.append(("set of %d distinct items" % n, _distinct(rng, n)))
    for n in ([2, 2, 2, 3, 5] if tier == "quick" else [2] * 10 + [3, 3, 5, 8, 20]):
        key = rng.randbytes(16)
        cases.append(("%d distinct items, two colliding after hash_to_range" % n, _collide(rng, key, n), key))
    for n in (1, 2, 5, 100):
        its = _distinct(rng, n)
        cases.append(("list of %d items with one raw duplicate" % (n + 1), its + [its[0]]))
    ev, fails, samples = 0, [], []
    seen_what = set()
    for case in cases:
        what, items = case[0], case[1]
        key = case[2] if len(case) > 2 else rng.randbytes(16)
        block_hash = key[::-1] + rng.randbytes(16)          # display-order hash whose first 16 LE bytes are the key
        block_hash = (key + rng.randbytes(16))[::-1]
        probes = [rng.randbytes(25) for _ in range(5)]
        ev += 1
        try:
            data = encode_gcs(key, list(items))
            got = cf_members(key, items, list(items) + probes)
            got_msg, fbytes, fhash = cfilter_msg_members(block_hash, items, list(items))
        except Exception as e:
            got, got_msg, data, fbytes, fhash = "exc:" + repr(e), None, None, None, None
        want_bytes = F.gcs_build_list(key, items)
        want = F.gcs_match_all(key, want_bytes, list(items) + probes)
        v = []
        if data != want_bytes:
            v.append("encode_gcs bytes == BIP158 encoding")
        if not isinstance(got, list) or not all(got[:len(items)]):
            v.append("x in items => x in CompactFilter.parse(key, encode_gcs(key, items))")
        if got_msg is None or not all(got_msg):
            v.append("x in items => x in CFilterMessage.parse(...)")
        if isinstance(got, list) and got != want:
            v.append("membership answers == BIP158 match (F = N * M with the N of the filter)")
        if fhash is not None and fhash != F.filter_hash(want_bytes):
            v.append("CFilterMessage.hash() == SHA256d(filter bytes)")
        kind = what.split(",")[-1] if "colliding" in what else ("dup" if "duplicate" in what else "set")
        if v and (kind not in seen_what or len(fails) < 4):
            seen_what.add(kind)
            fails.append({"what": "compact filter: %s -> %s" % (what, "; ".join(v)),
                          "inputs": jsonable({"key": key, "items": items[:8], "n_items": len(items),
                                              "reported_present": got[:len(items)][:8] if isinstance(got, list) else got}),
                          "violated": v})
        if len(samples) < 3:
            samples.append({"case": what, "filter_bytes": len(want_bytes), "all_present": isinstance(got, list) and all(got[:len(items)])})
    return {"evaluations": ev, "distinct": ev, "failures": fails, "samples": samples,
            "bound": "element sets of sizes %s (scripts of 0..600 bytes), sets whose first two elements collide after hash_to_range "
                     "(found by search with the spec), lists with a raw duplicate; 5 non-member probes each" % sizes[:15]}


def gcs_codec(seed, tier):
    """Golomb-Rice codec: all x in [0, 2^20) exhaustively in thorough (sampled in quick) + boundaries up to 2^26; decode inverts
    encode; serialize_gcs/decode_gcs on random ascending lists with repeated values"""
    from buidl.compactfilter import encode_golomb, decode_golomb, pack_bits, unpack_bits, serialize_gcs, decode_gcs
    rng = random.Random(seed + 22)
    xs = list(range(0, 5000)) + [2**19 - 1, 2**19, 2**19 + 1, 2**20 - 1, 2**20, 2**26 - 1, 2**26 - 2**19, 2**25 + 1]
    xs += [rng.getrandbits(rng.choice([19, 20, 22, 24, 26])) for _ in range(3000 if tier == "quick" else 200000)]
    ev, fails = 0, []
    for x in xs:
        ev += 1
        bits = encode_golomb(x, 19)
        want = F.golomb_bits(x, 19)
        packed = pack_bits(list(bits))
        back = decode_golomb(unpack_bits(packed), 19)
        if ([1 if b else 0 for b in bits] != want or packed != F.bits_to_bytes_msb(want) or back != x) and len(fails) < 5:
            fails.append({"what": "Golomb-Rice P=19 on x=%d: bits/bytes differ from BIP158 or decode(encode(x)) = %r" % (x, back),
                          "inputs": jsonable({"x": x}), "violated": ["encode_golomb == BIP158 golomb_encode", "decode inverts encode"]})
    for k in range(300 if tier == "quick" else 5000):
        n = rng.choice([0, 1, 2, 3, 10, 252, 253, 300])
        vals = sorted(rng.randrange(0, max(1, n) * F.GCS_M) for _ in range(n))
        if n > 2 and k % 3 == 0:
            vals[1] = vals[0]
        ev += 1
        data = serialize_gcs(list(vals))
        want = F.gcs_encode_values(vals)
        back = decode_gcs(b"", data)
        if (data != want or back != vals or F.gcs_decode(data) != (n, vals)) and len(fails) < 10:
            fails.append({"what": "serialize_gcs/decode_gcs on %d ascending values" % n, "inputs": jsonable({"values": vals[:10]}),
                          "violated": ["serialize_gcs == BIP158 bytes", "decode_gcs inverts"]})
    return {"evaluations": ev, "distinct": ev, "failures": fails, "samples": [{"x": 2**19 + 1, "bits": F.golomb_bits(2**19 + 1, 19)}],
            "bound": "x in 0..4999, boundaries of quotient changes up to 2^26 - 1, %d random x below 2^26; random ascending lists of 0..300 values with repeats" % (len(xs) - 5008)}


def hashes_job(seed, tier):
    """SipHash-2-4 and MurmurHash3: every length 0..70, random keys/seeds incl. seeds >= 2^32"""
    from buidl.siphash import SipHash_2_4
    from buidl.helper import murmur3
    rng = random.Random(seed + 23)
    reps = 8 if tier == "quick" else 200
    ev, fails = 0, []
    for n in range(0, 71):
        for r in range(reps):
            key, data = rng.randbytes(16), rng.randbytes(n)
            ev += 1
            got = SipHash_2_4(key, data).hash()
            cut = rng.randrange(0, n + 1)
            got2 = SipHash_2_4(key).update(data[:cut]).update(data[cut:]).hash()
            if (got != F.siphash24(key, data) or got2 != got) and len(fails) < 5:
                fails.append({"what": "SipHash-2-4 differs from the paper's algorithm (len %d)" % n, "inputs": jsonable({"key": key, "data": data}),
                              "violated": ["SipHash_2_4(key, data).hash() == siphash24(key, data)"]})
            seed_ = rng.getrandbits(rng.choice([32, 32, 33, 38, 64]))
            ev += 1
            g = murmur3(data, seed=seed_)
            if g != F.murmur3_32(data, seed_) and len(fails) < 10:
                fails.append({"what": "murmur3 differs from MurmurHash3_x86_32 (len %d, seed %d)" % (n, seed_),
                              "inputs": jsonable({"data": data, "seed": seed_}), "violated": ["murmur3(data, seed) == MurmurHash3_x86_32(data, seed mod 2^32)"]})
    return {"evaluations": ev, "distinct": ev, "failures": fails, "samples": [{"lengths": "0..70", "reps": reps}],
            "bound": "every message length 0..70 x %d random keys / seeds (32, 33, 38 and 64-bit seeds), one random split of the incremental interface each" % reps}


def bloom_job(seed, tier):
    """bloom: no false negatives, exact filter bytes and filterload payload, sizes 1..36000, 1..50 functions"""
    from buidl.bloomfilter import BloomFilter
    rng = random.Random(seed + 24)
    ev, fails = 0, []
    combos = [(1, 1), (1, 50), (2, 3), (3, 5), (3, 8), (7, 11), (252, 7), (253, 7), (1000, 20), (36000, 50)]
    for _ in range(20 if tier == "quick" else 400):
        combos.append((rng.choice([1, 2, 5, 33, 100, 999, 36000]), rng.randrange(1, 51)))
    for size, fc in combos:
        tweak = rng.choice([0, 1, 0x80000001, 0xFFFFFFFF, rng.getrandbits(32)])
        items = [rng.randbytes(rng.choice([0, 1, 20, 32, 33, 65, 70])) for _ in range(rng.choice([0, 1, 3, 20]))]
        bf = BloomFilter(size, fc, tweak)
        for it in items:
            bf.add(it)
        ev += 1
        want = F.bloom_bytes(items, size, fc, tweak)
        v = []
        if bf.filter_bytes() != want:
            v.append("filter_bytes == BIP37 vData")
        if bf.filterload().serialize() != F.filterload_payload(want, fc, tweak, 1) or bf.filterload().command != b"filterload":
            v.append("filterload payload layout")
        if not F.bloom_contains_all(bf.filter_bytes(), items, fc, tweak):
            v.append("no false negatives")
        if v and len(fails) < 8:
            fails.append({"what": "bloom filter size=%d funcs=%d tweak=%d: %s" % (size, fc, tweak, "; ".join(v)),
                          "inputs": jsonable({"size": size, "function_count": fc, "tweak": tweak, "items": items[:5]}), "violated": v})
    return {"evaluations": ev, "distinct": ev, "failures": fails, "samples": [{"combos": combos[:6]}],
            "bound": "%d (size, function count) combinations incl. 1, 36000 bytes and 1, 50 functions, tweaks 0/1/0x80000001/0xffffffff/random, 0..20 items of 0..70 bytes" % len(combos)}


# ------------------------------------------------------------------------------------------ tables
def vectors(tier):
    from buidl.siphash import SipHash_2_4
    from buidl.helper import murmur3
    from buidl.bloomfilter import BloomFilter
    from buidl.compactfilter import encode_gcs, GOLOMB_M, GOLOMB_P
    import buidl.siphash as sh
    out = []
    vecs = re.findall(r'"([0-9a-f]{16})"', inspect.getsource(sh))
    key, pt = bytes(range(16)), bytes(range(64))
    ok_s = len(vecs) == 64 and all(F.siphash24_digest(key, pt[:i]).hex() == vecs[i] for i in range(64)) \
        and F.siphash24(key, bytes(range(15))) == 0xa129ca6149be45e5
    ok_r = len(vecs) == 64 and all(SipHash_2_4(key, pt[:i]).digest().hex() == vecs[i] for i in range(64))
    out.append({"name": "C18/table/siphash-reference-64", "status": "ok" if ok_s and ok_r else "fail", "backend": "exhaustive",
                "clause": "the 64 reference vectors of SipHash-2-4 (key 00..0f, messages 00..3e prefixes) and the paper's example: spec and real",
                "inputs": jsonable({"spec": ok_s, "real": ok_r})})
    mv = [(b"", 0, 0), (b"", 1, 0x514E28B7), (b"", 0xffffffff, 0x81F16F39), (bytes(4), 0, 0x2362F9DE), (b"aaaa", 0x9747b28c, 0x5A97808A),
          (b"abc", 0, 0xB3DD93FA), (b"Hello, world!", 0x9747b28c, 0x24884CBA), (b"The quick brown fox jumps over the lazy dog", 0x9747b28c, 0x2FA826CD),
          (b"", 0xFBA4C795, 0x6a396f08), (b"\x00", 0, 0x514e28b7), (b"\x00", 0xFBA4C795, 0xea3f0b17), (b"\xff", 0, 0xfd6cf10d),
          (bytes.fromhex("0011"), 0, 0x16c6b7ab), (bytes.fromhex("001122"), 0, 0x8eb51c3d), (bytes.fromhex("00112233"), 0, 0xb4471bf8),
          (bytes.fromhex("0011223344"), 0, 0xe2301fa8)]
    bad = [(d.hex(), s) for d, s, w in mv if F.murmur3_32(d, s) != w or murmur3(d, seed=s) != w]
    out.append({"name": "C18/table/murmur3-vectors", "status": "fail" if bad else "ok", "backend": "exhaustive",
                "clause": "16 published MurmurHash3_x86_32 vectors (SMHasher / Bitcoin Core hash_tests): spec and real", "inputs": jsonable({"bad": bad})})
    try:
        from buidl.ecc import PrivateKey
        from buidl.helper import hash160
        sec = PrivateKey.parse("5Kg1gnAjaLfKiwhhPpGS3QfRg2m6awQvaj98JCZBZQ5SuS2F15C").point.sec(compressed=False)
        items = [sec, hash160(sec)]
        bf = BloomFilter(3, 8, 0)
        for it in items:
            bf.add(it)
        want = "038fc16b080000000000000001"
        ok = F.filterload_payload(F.bloom_bytes(items, 3, 8, 0), 8, 0, 1).hex() == want and bf.filterload().serialize().hex() == want
        out.append({"name": "C18/table/bloom-core-key-vector", "status": "ok" if ok else "fail", "backend": "exhaustive",
                    "clause": "Bitcoin Core bloom_tests bloom_create_insert_key: serialised filter 038fc16b08...01 (spec and real)", "inputs": None})
    except Exception as e:
        out.append({"name": "C18/table/bloom-core-key-vector", "status": "fail", "backend": "exhaustive", "clause": "vector could not be built", "inputs": jsonable({"error": repr(e)})})
    out.append({"name": "C18/table/golomb-constants", "status": "ok" if (GOLOMB_M, GOLOMB_P) == (784931, 19) else "fail", "backend": "exhaustive",
                "clause": "GOLOMB_M == 784931 and GOLOMB_P == 19 (the source computes M with a float expression)", "inputs": jsonable({"M": GOLOMB_M, "P": GOLOMB_P})})
    # BIP158 test vectors shipped in the repo's test file
    try:
        import buidl.compactfilter as cfm
        src = open(inspect.getsourcefile(cfm).replace("compactfilter.py", "test/test_compactfilter.py")).read()
        tests = None
        for n in ast.walk(ast.parse(src)):
            if isinstance(n, ast.Assign) and getattr(n.targets[0], "id", None) == "tests" and isinstance(n.value, ast.List) and len(n.value.elts) > 3 \
                    and isinstance(n.value.elts[0], ast.List):
                tests = ast.literal_eval(n.value)
        from buidl.block import Block
        for t in tests or []:
            height, bh, blk, scripts, prev, cf, fhdr, notes = t
            k = F.basic_filter_key(bytes.fromhex(bh))
            b = Block.parse(io.BytesIO(bytes.fromhex(blk)))
            items = [x for x in [bytes.fromhex(s) for s in scripts] + list(b.get_outpoints()) if len(x) > 0]
            sp = F.gcs_build(k, items)
            hd = F.filter_header(F.filter_hash(sp), bytes.fromhex(prev)[::-1])[::-1].hex()
            real = encode_gcs(k, list(items))
            ok = sp.hex() == cf and hd == fhdr and real.hex() == cf and all(F.gcs_match(k, sp, i) for i in items)
            out.append({"name": "C18/table/bip158-vector/%d" % height, "status": "ok" if ok else "fail", "backend": "exhaustive",
                        "clause": "BIP158 testnet vector (block %d): spec filter bytes, filter header and real encode_gcs equal the published values" % height,
                        "inputs": jsonable({"items": len(items)})})
    except Exception as e:
        out.append({"name": "C18/table/bip158-vector", "status": "fail", "backend": "exhaustive", "clause": "vectors could not be read", "inputs": jsonable({"error": repr(e)})})
    return out


TABLES = [("known-vectors", vectors)]
BOUNDED = [("rt-contracts", fuzz_job(ALL)), ("compact-filter-members", compact_filter_members), ("gcs-codec", gcs_codec),
           ("hashes-len-0-70", hashes_job), ("bloom", bloom_job)]
TRUSTED_BASE = ["pyvc symbolic executor incl. 64-bit bit-vector mode with exactness tracking (A-ENGINE)", "z3 5.1",
                "spec functions verif/specs/filters.py, wire.py (A-SPEC; validated against the 64 SipHash reference vectors, 16 MurmurHash3 "
                "vectors, a Core bloom vector and the BIP158 test vectors)", "harness functions verif/harness/filters.py",
                "CPython built-ins per verif/pyvc/calls.py (A-BUILTIN)", "hashlib digests uninterpreted"]
ASSUMPTIONS = ["A-ENGINE", "A-SPEC", "A-BUILTIN",
               "whole-filter properties (lists of elements, sorted()) are bounded evidence, not proved",
               "SipHash/Murmur3 equality is proved per fixed message length (lengths listed in contracts/filters.py); other lengths 0..70 are tested",
               "termination not verified"]
EXPLANATION = ("SipHash double round == 2 SipRounds and MurmurHash3 for fixed lengths in 64-bit bit-vector mode; Golomb-Rice codec, bit packing, "
               "serialize_gcs, filter-header chaining against BIP158/157 spec functions deductively for bounded quotients; no-false-negative and "
               "byte-exactness of whole filters (0..2000 elements, colliding elements, duplicates) and of bloom filters by bounded runs.")
CATEGORY = "other"
LEVEL_TEXT = ("Mixed: deductive (pyvc + z3, 64-bit bit-vector mode) for _doublesipround, SipHash-2-4 and murmur3 at fixed lengths, Golomb-Rice "
              "encode/decode for x < 2^22, pack/unpack, serialize_gcs on three values, CFHeaders chaining, bloom bit positions on a small "
              "instance; whole-filter no-false-negative / exact-encoding claims are bounded (sizes 0..2000, colliding pairs found by search). "
              "Claimed as 'other' because the whole-filter clauses are bounded.  The defects these checks found on the pinned tree are repaired by fix: commits in /repo (one `fixed:` line each in /verif/KNOWN_FINDINGS.jsonl).")
LEVEL_NOTE = ("trusted: pyvc translation (A-ENGINE), spec functions (A-SPEC), harnesses, CPython builtin contracts (A-BUILTIN); whole-filter "
              "claims bounded; termination not verified")
JOB_TIMEOUT = {"quick": 240, "thorough": 1500}
