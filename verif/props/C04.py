"""C04: transaction wire codec is lossless, txid = reversed hash256 of the witness-stripped serialisation,
the fetcher only returns a transaction that hashes to the requested id."""
import contextlib
import io
import json
import os
import random
import time

from verif.pyvc.verifier import REG, jsonable
from verif.bounded import fuzz_job
import verif.contracts  # noqa
import verif.specs as spec
from verif.contracts import txcodec as G
from verif.harness import txcodec as HX

T = spec.txwire
ALL = [n for n, c in REG.contracts.items() if "C04" in c.props]
# symbolic jobs: every contract the engine can explore (TxFetcher.fetch needs symbolic strings/monkeypatching:
# it is listed too and comes back `undecided`; it is decided by the bounded companion only)
CONTRACTS = list(ALL)
TABLES = []

REPO = os.environ.get("VERIF_REPO", "/repo")


def _fail(what, inputs, violated):
    return {"what": what, "inputs": jsonable(inputs), "violated": violated}


def _quiet():
    return contextlib.redirect_stdout(io.StringIO())


def _check_tx(tx, segwit, fails, what, cap=3):
    """one neutral transaction through the API both ways; returns 1 (evaluation count)"""
    viol = []
    try:
        obj = HX.build_tx(tx, segwit)
        want = T.segwit_ser(tx) if segwit else T.legacy_ser(tx)
        got = obj.serialize()
        if got != want:
            viol.append("Tx.serialize() != spec serialisation")
        if obj.hash() != T.txid_bytes(tx) or obj.id() != T.txid(tx):
            viol.append("Tx.hash()/id() != reversed hash256 of the witness-stripped serialisation")
        if not T.same_tx(T.of_tx(obj), tx):
            viol.append("adapter view of the API-built object differs from the neutral transaction")
        if tx[1]:
            back = HX.Tx.parse(io.BytesIO(want + b"\x99"))
            exp = tx if segwit else T.strip_witness(tx)
            if HX.tx_view(back) != T.tx_fields(exp, segwit):
                viol.append("Tx.parse(spec bytes) does not reproduce every field")
            if back.serialize() != want:
                viol.append("Tx.parse(spec bytes).serialize() != input bytes")
            if back.hash() != T.txid_bytes(tx):
                viol.append("id of the parsed transaction != BIP141 txid")
    except Exception as e:            # noqa: the code under test raised
        viol.append("raised %s: %s" % (type(e).__name__, str(e)[:80]))
    if viol and len([f for f in fails if f["what"].startswith(what)]) < cap:
        fails.append(_fail("%s: %s" % (what, "; ".join(viol)), {"tx": tx, "segwit": segwit}, viol))
    return 1


def job_push_lengths(seed, tier):
    """every push length 0..520, as scriptSig push and as scriptPubKey push, through Tx serialise/parse"""
    rng = random.Random(seed * 7919 + 1)
    fails, n = [], 0
    for ln in range(0, 521):
        tx = (1, [(G.rand_bytes(rng, 32), ln, [G.rand_bytes(rng, ln)], 0xFFFFFFFE, [])],
              [(ln, [0x6A, G.rand_bytes(rng, ln)]), (1, [G.rand_bytes(rng, 520 - ln), 0x75, 0x51])], ln)
        n += _check_tx(tx, False, fails, "push length %d" % ln if ln in (75,) else "push lengths")
    return {"evaluations": n, "distinct": n, "failures": fails, "samples": [],
            "bound": "all push lengths 0..520 in scriptSig and scriptPubKey (exhaustive over the length), one random content each"}


def job_counts(seed, tier):
    """input counts 0..300 and output counts 0..300 (compact-size boundary 0xfd), witness stack sizes 0..300"""
    rng = random.Random(seed * 7919 + 2)
    fails, n = [], 0
    for k in range(0, 301):
        ins = [G.small_in(rng, j, witness=True) for j in range(k)]
        n += _check_tx((2, ins, [(5, [0x51])], 0), True, fails, "input count")
        n += _check_tx((2, [G.small_in(rng, j) for j in range(k)], [(5, [0x51])], 0), False, fails, "input count (legacy)")
        n += _check_tx((1, [G.small_in(rng, 0)], [(j, [0x51, bytes([j % 256])]) for j in range(k)], 7), False, fails, "output count")
        n += _check_tx((2, [(G.rand_bytes(rng, 32), 1, [], 0, [bytes([j % 256]) * (j % 3) for j in range(k)])], [(1, [0x51])], 0),
                       True, fails, "witness stack size")
    return {"evaluations": n, "distinct": n, "failures": fails, "samples": [],
            "bound": "input counts 0..300, output counts 0..300, witness stack sizes 0..300 (all values)"}


def job_witness_items(seed, tier):
    """witness items of length 0..70000: all boundary lengths, a stride over the whole range, random ones"""
    rng = random.Random(seed * 7919 + 3)
    fails, n = [], 0
    sizes = list(G.WIT_SIZES) + list(range(0, 70001, 997 if tier == "quick" else 101)) + [rng.randrange(0, 70001) for _ in range(50)]
    for ln in sizes:
        tx = (2, [(G.rand_bytes(rng, 32), 0, [], 0xFFFFFFFF, [b"", G.rand_bytes(rng, ln), G.rand_bytes(rng, 33)]),
                  (G.rand_bytes(rng, 32), 1, [], 0, [])], [(1000, [0, G.rand_bytes(rng, 20)])], 0)
        n += _check_tx(tx, True, fails, "witness item length")
    return {"evaluations": n, "distinct": len(set(sizes)), "failures": fails, "samples": [],
            "bound": "witness item lengths: boundaries %s, every %d-th length in 0..70000, 50 random" % (G.WIT_SIZES, 997 if tier == "quick" else 101)}


def job_fields(seed, tier):
    """amounts across [0, 2^64), versions, sequences, locktimes, outpoints at their boundaries + random transactions"""
    rng = random.Random(seed * 7919 + 4)
    fails, n = [], 0
    for a in G.U64B + [rng.getrandbits(64) for _ in range(200)]:
        n += _check_tx((1, [G.rand_ntxin(rng, False)], [(a, G.std_script(rng))], 0), False, fails, "amount")
    for v in G.U32B:
        for w in G.U32B:
            n += _check_tx((v, [(G.rand_bytes(rng, 32), w, [], v, [b"\x01"])], [(1, [0x51])], w), True, fails, "u32 fields")
    t0 = time.time()
    budget = 10 if tier == "quick" else 120
    while time.time() - t0 < budget:
        tx = G.rand_ntx(rng, witness=True)
        seg = rng.random() < 0.6
        n += _check_tx(tx, seg, fails, "random transaction")
    return {"evaluations": n, "distinct": n, "failures": fails, "samples": [],
            "bound": "amount/version/sequence/locktime/index boundary values (all pairs for the u32 fields) and seeded random transactions with 1..6 inputs, 0..6 outputs for %ds" % budget}


def job_txid_sensitivity(seed, tier):
    """txid unchanged by witness edits (and by the segwit flag), changed by every single non-witness edit,
    on objects edited in place"""
    rng = random.Random(seed * 7919 + 5)
    fails, n, distinct = [], 0, set()
    rounds = 150 if tier == "quick" else 2000
    for _ in range(rounds):
        tx = G.rand_ntx(rng, n_in=rng.randrange(1, 5), n_out=rng.randrange(1, 5), witness=True)
        if any(isinstance(c, bytes) and len(c) == 75 for i in tx[1] for c in i[2]) or any(isinstance(c, bytes) and len(c) == 75 for o in tx[2] for c in o[1]):
            continue                       # the 75-byte push defect is reported by the codec jobs
        obj = HX.build_tx(tx, True)
        base = obj.id()
        viol = []
        if base != T.txid(tx):
            viol.append("id != spec txid")
        # witness edits
        k = rng.randrange(len(tx[1]))
        obj.tx_ins[k].witness = HX.Witness(G.rand_witness(rng, big=False) + [b"\x07"])
        if obj.id() != base:
            viol.append("id changed by a witness change")
        obj.segwit = False
        if obj.id() != base:
            viol.append("id changed by the segwit flag")
        obj.segwit = True
        # non-witness edits, one at a time, each must change the id and agree with the spec on the edited tx
        edits = ["version", "locktime", "prev_tx", "prev_index", "sequence", "script_sig", "amount", "script_pubkey", "add_out", "del_in"]
        for e in edits:
            o2 = HX.build_tx(tx, True)
            t2 = [tx[0], [list(i) for i in tx[1]], [list(o) for o in tx[2]], tx[3]]
            j, m = rng.randrange(len(tx[1])), rng.randrange(len(tx[2]))
            if e == "version":
                t2[0] = (tx[0] + 1) % 2**32
                o2.version = t2[0]
            elif e == "locktime":
                t2[3] = (tx[3] + 1) % 2**32
                o2.locktime = HX.Locktime(t2[3])
            elif e == "prev_tx":
                t2[1][j][0] = bytes([tx[1][j][0][0] ^ 1]) + tx[1][j][0][1:]
                o2.tx_ins[j].prev_tx = t2[1][j][0]
            elif e == "prev_index":
                t2[1][j][1] = tx[1][j][1] ^ 1
                o2.tx_ins[j].prev_index = t2[1][j][1]
            elif e == "sequence":
                t2[1][j][3] = tx[1][j][3] ^ 0x80000000
                o2.tx_ins[j].sequence = HX.Sequence(t2[1][j][3])
            elif e == "script_sig":
                t2[1][j][2] = list(tx[1][j][2]) + [0x51]
                o2.tx_ins[j].script_sig = HX.Script(list(t2[1][j][2]))
            elif e == "amount":
                t2[2][m][0] = tx[2][m][0] ^ 1
                o2.tx_outs[m].amount = t2[2][m][0]
            elif e == "script_pubkey":
                t2[2][m][1] = list(tx[2][m][1]) + [0x75]
                o2.tx_outs[m].script_pubkey = HX.Script(list(t2[2][m][1]))
            elif e == "add_out":
                t2[2].append([1, [0x51]])
                o2.tx_outs.append(HX.build_txout((1, [0x51])))
            elif e == "del_in":
                if len(tx[1]) < 2:
                    continue
                t2[1].pop()
                o2.tx_ins.pop()
            nt = (t2[0], [tuple(i) for i in t2[1]], [tuple(o) for o in t2[2]], t2[3])
            n += 1
            new = o2.id()
            if new == base:
                viol.append("id NOT changed by a change of %s" % e)
            if new != T.txid(nt):
                viol.append("id after editing %s != spec txid of the edited transaction" % e)
        n += 1
        distinct.add(base)
        if viol and len(fails) < 3:
            fails.append(_fail("txid sensitivity: " + "; ".join(viol), {"tx": tx}, viol))
    return {"evaluations": n, "distinct": len(distinct), "failures": fails, "samples": [],
            "bound": "%d random transactions x (witness edit, segwit flag, 10 kinds of single non-witness edit)" % rounds}


def job_real_transactions(seed, tier):
    """the mainnet/testnet transactions shipped in the repository's test cache: independent parse vs library parse,
    re-serialisation, txid == cache key"""
    path = os.path.join(REPO, "buidl", "test", "tx.cache")
    cache = json.load(open(path))
    fails, n = [], 0
    for key, hx in sorted(cache.items()):
        raw = bytes.fromhex(hx)
        viol = []
        try:
            ntx, used = T.tx_parse(raw)
            if used != len(raw):
                viol.append("spec parser left bytes over")
            if T.txid(ntx) != key:
                viol.append("spec txid != cache key (spec problem)")
            with _quiet():
                obj = HX.Tx.parse(io.BytesIO(raw))
            if obj.id() != key:
                viol.append("Tx.id() of the parsed transaction != its real txid")
            if obj.serialize() != raw:
                viol.append("Tx.parse(raw).serialize() != raw")
            if not T.same_tx(T.of_tx(obj), ntx) and obj.serialize() == raw:
                viol.append("adapter view differs from the independent parse")
        except Exception as e:       # noqa
            viol.append("raised %s: %s" % (type(e).__name__, str(e)[:80]))
        n += 1
        if viol and len(fails) < 5:
            fails.append(_fail("real transaction %s: %s" % (key, "; ".join(viol)), {"txid": key, "raw": raw}, viol))
    return {"evaluations": n, "distinct": n, "failures": fails, "samples": [],
            "bound": "all %d transactions of buidl/test/tx.cache" % len(cache)}


def job_fetcher_text(seed, tier):
    """TxFetcher.fetch with non-hex / odd response bodies: it must raise or return a transaction with the id"""
    rng = random.Random(seed * 7919 + 6)
    fails, n = [], 0
    tx = G.rand_ntx(rng, n_in=2, n_out=2, witness=False)
    raw = T.legacy_ser(tx)
    tid = T.txid(tx)
    bodies = [b"", b"\n", b"not found", raw.hex().encode(), raw.hex().upper().encode(), (" " + raw.hex() + " \n").encode(),
              (raw.hex()[:10] + " " + raw.hex()[10:]).encode(), raw.hex().encode() + b"00", raw.hex().encode()[:-2],
              b"\xff\xfe", raw, ("0x" + raw.hex()).encode()]
    for body in bodies:
        for want in (tid, tid.upper(), T.txid((tx[0], tx[1], tx[2], tx[3] ^ 1))):
            n += 1
            try:
                got = HX.fetch_text(want, body)
            except Exception:        # noqa: refusing is always allowed
                continue
            if got != want and len(fails) < 3:
                fails.append(_fail("fetch returned a transaction with id %s for requested id %s" % (got, want),
                                   {"tx_id": want, "body": body}, ["result.id() == tx_id"]))
    return {"evaluations": n, "distinct": n, "failures": fails, "samples": [],
            "bound": "%d response bodies (empty, text, upper-case hex, embedded whitespace, trailing/missing byte, binary) x 3 requested ids" % len(bodies)}


_GEN = [n for n in ALL if REG.contracts[n].gen is not None]
BOUNDED = [("rt-contracts-%d" % _k, fuzz_job(_GEN[_k::4])) for _k in range(4)] + [
           ("push-lengths", job_push_lengths), ("counts", job_counts), ("witness-items", job_witness_items),
           ("fields", job_fields), ("txid-sensitivity", job_txid_sensitivity), ("real-transactions", job_real_transactions),
           ("fetcher-bodies", job_fetcher_text)]
TRUSTED_BASE = ["pyvc symbolic executor (A-ENGINE)", "z3", "spec functions verif/specs/txwire.py + wire.py (A-SPEC)",
                "API harnesses verif/harness/txcodec.py", "CPython built-ins per verif/pyvc/calls.py (A-BUILTIN)",
                "hashlib digests uninterpreted (deterministic functions of their input)"]
ASSUMPTIONS = ["A-ENGINE", "A-SPEC", "A-BUILTIN",
               "A-CR: 'the txid is changed by any change to non-witness data' is injectivity of the witness-stripped serialisation "
               "(proved: parse inverts serialise field by field) plus collision resistance of double SHA-256 (assumed)",
               "input/output/witness counts are symbolic-length only in the bounded companion (0..300 concretely); the deductive "
               "contracts fix the list shapes (0..3 inputs, 0..2 outputs, 0..3 witness items) with symbolic field values",
               "zero-input legacy encodings are excluded from the parse contracts (inherently ambiguous with the BIP144 marker)",
               "TxFetcher cache hits and load_cache are outside the 'all server responses' quantifier",
               "termination not verified"]
EXPLANATION = ("Every path of Script.raw_serialize/serialize/parse, Witness, Locktime, Sequence, TxIn, TxOut and Tx "
               "serialise/parse/hash on fixed list shapes with symbolic field values (push lengths 0..520, witness items of any "
               "length, all u32/u64 values) is compared with an independent wire-format spec; the txid term contains no witness "
               "value. TxFetcher.fetch and symbolic list lengths are covered by the bounded companion only.")
CATEGORY = "other"
LEVEL_TEXT = ("Deductive for fixed transaction shapes (symbolic field values, every push length and compact-size width is a path "
              "split) + bounded for list lengths 0..300 and for the fetcher. Tx.serialize_legacy / serialize_segwit / serialize_witness / hash and Tx.parse / parse_legacy / "
              "parse_segwit are additionally proved for EVERY number of inputs and outputs by loop invariants over lists of symbolic "
              "length (verif/contracts/listloops.py): serialisation == the BIP144 layout; parsing consumes exactly the layout and returns "
              "the elements in order, with the element parsers ASSUMED inverse to the element serialisers (proved for concrete element "
              "shapes) and, for segwit, without the clause that each parsed witness is attached to its input (blind spot of the abstract "
              "element model, see listloops.py; decided for 1-2 inputs symbolically and up to 300 inputs at run time).  "
              "Claimed 'other' for those reasons and because the fetcher history contract is decided at run time only.  "
              "The defects these checks found on the pinned tree are repaired by fix: commits in /repo (one `fixed:` line each in /verif/KNOWN_FINDINGS.jsonl).")
LEVEL_NOTE = ("trusted: pyvc translation (A-ENGINE), spec functions (A-SPEC), harness functions, CPython builtin contracts "
              "(A-BUILTIN), hash functions uninterpreted, A-CR for the 'any change changes the id' clause; termination not verified")
