from verif.pyvc.verifier import REG
from verif.bounded import fuzz_job
import verif.contracts  # noqa
import verif.harness.psbt as hp

CONTRACTS = [n for n, c in REG.contracts.items() if "C11" in c.props]
TABLES = []

BOUNDED = [("rt-contracts", fuzz_job(CONTRACTS))]
for _kind in ("p2sh", "p2wsh"):
    BOUNDED.append(("describe-%s-n1n2" % _kind, hp.job_describe(_kind, (1, 2))))
    for _m in (1, 2, 3):
        BOUNDED.append(("describe-%s-n3-m%d" % (_kind, _m), hp.job_describe(_kind, (3,), ms=(_m,))))
    for _m in (1, 2, 3, 4):
        BOUNDED.append(("describe-%s-n4-m%d" % (_kind, _m), hp.job_describe(_kind, (4,), ms=(_m,), quick_skip=True)))

BOUNDED.append(("helper-create-crosschecks", hp.job_helper_c11))

TRUSTED_BASE = ["pyvc symbolic executor (A-ENGINE)", "z3 5.1", "spec functions verif/specs/psbt.py (A-SPEC: BIP174 parser, commitment of a scriptPubKey "
                "to a script by hash, exact m-of-n script shape, BIP32 CKDpub over an own secp256k1 implementation, review summary)",
                "CPython built-ins per verif/pyvc/calls.py (A-BUILTIN)", "harness functions and PSBT builders of verif/harness/psbt.py"]
ASSUMPTIONS = ["A-ENGINE", "A-SPEC", "A-BUILTIN", "termination not verified", "hash functions collision resistant (commitment by hash)",
               "the hdpubkey_map passed to describe_basic_multisig is the reviewer's trusted wallet description"]
EXPLANATION = ("Review summary of multisig PSBTs.  Deductive part: Tx.fee on a 2-in/2-out transaction with symbolic amounts equals "
               "sum(inputs) - sum(outputs), hence spend + change + fee == inputs.  The labelling of change and the rejection clauses are "
               "decided by executable contracts: describe_basic_multisig is run on honest PSBTs of every m-of-n wallet (n <= 4, P2SH, "
               "P2WSH, 1..3 inputs/outputs, change in every position or absent) and on each entry of a tampering catalogue (about 45 single "
               "alterations of outputs, scripts, derivations, UTXOs and amounts); the result must equal, or be more conservative than, "
               "spec.review of the same bytes, where is_change is the predicate of the property statement.")
CATEGORY = "other"
LEVEL_TEXT = ("Mixed: one symbolic proof (fee arithmetic); the change-classification and rejection clauses are checked by bounded-exhaustive "
              "executable contracts over the property's catalogue quantifier against an independent spec predicate.  Tx.fee is proved "
              "equal to sum(input values) - sum(output amounts) for every number of inputs and outputs (loop invariants).  The defects these checks found on the pinned tree are repaired by fix: commits in /repo (one `fixed:` line each in /verif/KNOWN_FINDINGS.jsonl) (see notes/C10_C11.md).")
LEVEL_NOTE = ("trusted: pyvc translation (A-ENGINE), spec functions incl. own BIP32/secp256k1 (A-SPEC), CPython builtin contracts (A-BUILTIN), "
              "harness builders; termination not verified")
JOB_TIMEOUT = {"quick": 240, "thorough": 1500}
