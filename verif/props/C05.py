"""C05: signature hashes equal the Satoshi-legacy / BIP143 / BIP341 digests for every hash type, independent of
the query/edit history of the transaction object."""
import contextlib
import io as _io
import itertools
import random
import time

from verif.pyvc.verifier import REG, jsonable
from verif.bounded import fuzz_job
import verif.contracts  # noqa
import verif.specs as spec
from verif.contracts import sighash as G
from verif.contracts import txcodec as GT
from verif.harness import sighash as HS

T, S = spec.txwire, spec.sighash
ALL = [n for n, c in REG.contracts.items() if "C05" in c.props]
CONTRACTS = list(ALL)
TABLES = []
H = bytes.fromhex


def _fail(what, inputs, violated):
    return {"what": what, "inputs": jsonable(inputs), "violated": violated}


# ---------------------------------------------------------------------------- expected answers from the spec
def expected(tx, spent, q):
    """what a query must answer on the current transaction (library value), or ("raise",) when the spec says
    validation fails / the request is outside the algorithm's domain"""
    alg, i, ht, extra = q
    if alg == "legacy":
        return spec.int_be(S.legacy_digest(tx, i, spent[i][1] if i < len(spent) else [], ht))
    if alg == "legacy_redeem":
        return spec.int_be(S.legacy_digest(tx, i, list(extra), ht))
    if alg == "bip143":
        return spec.int_be(S.bip143_digest(tx, i, S.p2pkh_script(spent[i][1][1]), spent[i][0], ht))
    if alg == "bip143_wsh":
        return spec.int_be(S.bip143_digest(tx, i, list(extra), spent[i][0], ht))
    if alg == "bip341":
        d = S.bip341_digest_for_witness(tx, i, spent, ht, extra)
        return ("raise",) if d is None else d
    if alg == "sig_hash":
        d = S.spend_digest(tx, i, spent, ht)
        return ("raise",) if d is None else S.library_value(d, S.classify(spent[i][1]))
    raise ValueError(alg)


def same(answer, want):
    if isinstance(want, tuple) and want and want[0] == "raise":
        return isinstance(answer, tuple) and answer and answer[0] == "raise"
    return answer == want


def apply_edit(tx, spent, e):
    """the edit of verif/harness/sighash.edit on the neutral data"""
    v, ins, outs, lt = tx[0], list(tx[1]), list(tx[2]), tx[3]
    spent = list(spent)
    k = e[0]
    if k == "out_amount":
        outs[e[1]] = (e[2], outs[e[1]][1])
    elif k == "out_script":
        outs[e[1]] = (outs[e[1]][0], e[2])
    elif k == "out_replace":
        outs[e[1]] = e[2]
    elif k == "out_append":
        outs.append(e[1])
    elif k == "out_pop":
        outs.pop()
    elif k == "sequence":
        x = ins[e[1]]
        ins[e[1]] = (x[0], x[1], x[2], e[2], x[4])
    elif k == "locktime":
        lt = e[1]
    elif k == "version":
        v = e[1]
    elif k == "prev_index":
        x = ins[e[1]]
        ins[e[1]] = (x[0], e[2], x[2], x[3], x[4])
    elif k == "prev_tx":
        x = ins[e[1]]
        ins[e[1]] = (e[2], x[1], x[2], x[3], x[4])
    elif k == "in_append":
        ins.append(e[1])
        spent.append(e[2])
    elif k == "in_pop":
        ins.pop()
        spent.pop()
    elif k == "spent_value":
        spent[e[1]] = (e[2], spent[e[1]][1])
    elif k == "spent_script":
        spent[e[1]] = (spent[e[1]][0], e[2])
    elif k == "witness":
        x = ins[e[1]]
        ins[e[1]] = (x[0], x[1], x[2], x[3], list(e[2]))
    else:
        raise ValueError(k)
    return (v, ins, outs, lt), spent


# ---------------------------------------------------------------------------- histories
FAMILY = {"legacy": ("legacy", "p2pkh"), "bip143": ("bip143", "p2wpkh"), "bip341": ("bip341", "p2tr")}


def start_state(rng, fam, n_in=None, n_out=None):
    n_in = n_in or rng.randrange(1, 5)
    n_out = rng.randrange(1, 5) if n_out is None else n_out
    ins = [GT.rand_ntxin(rng, witness=False, script_sig=[]) for _ in range(n_in)]
    outs = [(rng.getrandbits(40), G.std5(rng)) for _ in range(n_out)]
    spent = [(rng.getrandbits(40), GT.std_script(rng, FAMILY[fam][1])) for _ in range(n_in)]
    return (rng.choice([1, 2]), ins, outs, rng.getrandbits(32)), spent


def make_step(rng, fam, tx, spent, kind, ht=None):
    n_in, n_out = len(tx[1]), len(tx[2])
    if kind == "q":
        i = rng.randrange(n_in)
        if ht is None:
            ht = rng.choice(G.TAPROOT_TYPES if fam == "bip341" else G.LEGACY_TYPES)
        return ("q", (FAMILY[fam][0], i, ht, 0 if fam == "bip341" else None))
    if kind == "out_amount" and n_out:
        return ("e", ("out_amount", rng.randrange(n_out), rng.getrandbits(41)))
    if kind == "out_script" and n_out:
        return ("e", ("out_script", rng.randrange(n_out), G.std5(rng)))
    if kind == "out_append":
        return ("e", ("out_append", (rng.getrandbits(40), G.std5(rng))))
    if kind == "out_pop" and n_out > 1:
        return ("e", ("out_pop",))
    if kind == "sequence":
        return ("e", ("sequence", rng.randrange(n_in), rng.getrandbits(32)))
    if kind == "locktime":
        return ("e", ("locktime", rng.getrandbits(32)))
    if kind == "version":
        return ("e", ("version", rng.choice([1, 2, 3])))
    if kind == "prev_index":
        return ("e", ("prev_index", rng.randrange(n_in), rng.getrandbits(32)))
    if kind == "prev_tx":
        return ("e", ("prev_tx", rng.randrange(n_in), GT.rand_bytes(rng, 32)))
    if kind == "in_append":
        return ("e", ("in_append", GT.rand_ntxin(rng, witness=False, script_sig=[]), (rng.getrandbits(40), GT.std_script(rng, FAMILY[fam][1]))))
    if kind == "in_pop" and n_in > 1:
        return ("e", ("in_pop",))
    if kind == "spent_value":
        return ("e", ("spent_value", rng.randrange(n_in), rng.getrandbits(41)))
    if kind == "spent_script":
        return ("e", ("spent_script", rng.randrange(n_in), GT.std_script(rng, FAMILY[fam][1])))
    if kind == "witness" and fam == "bip341":
        return ("e", ("witness", rng.randrange(n_in), G.taproot_witness(rng, rng.choice(["key", "key+annex"]))))
    return ("e", ("locktime", rng.getrandbits(32)))


EDIT_KINDS = ["out_amount", "out_script", "out_append", "out_pop", "sequence", "locktime", "version", "prev_index", "prev_tx",
              "in_append", "in_pop", "spent_value", "spent_script", "witness"]


def run_history(fam, tx, spent, kinds, rng, fails, counters, hts=None):
    """build the steps against the evolving state, run them on ONE object, compare every answer with
    (a) a FRESH object of the current state (history independence proper) and (b) the spec"""
    steps, cur_tx, cur_spent, wants, fresh = [], tx, spent, [], []
    for j, kind in enumerate(kinds):
        st = make_step(rng, fam, cur_tx, cur_spent, kind, hts[j] if hts else None)
        steps.append(st)
        if st[0] == "e":
            cur_tx, cur_spent = apply_edit(cur_tx, cur_spent, st[1])
        else:
            wants.append(expected(cur_tx, cur_spent, st[1]))
            fresh.append(HS.history(cur_tx, cur_spent, [st])[0])
    answers = HS.history(tx, spent, steps)
    qn = 0
    edited = False
    for st in steps:
        if st[0] == "e":
            edited = True
            continue
        a, w, f = answers[qn], wants[qn], fresh[qn]
        qn += 1
        counters["queries"] += 1
        if not same(a, f if not (isinstance(f, tuple)) else ("raise",)):
            counters["history"] += 1
            key = "history-dependence %s" % fam
            if sum(1 for x in fails if x["what"].startswith(key)) < 2:
                fails.append(_fail("%s: query %r after %s answers %s on the edited object but %s on a fresh object with the same fields"
                                   % (key, st[1][:3], "an edit" if edited else "earlier queries", _show(a), _show(f)),
                                   {"tx": tx, "spent": spent, "steps": steps}, ["digest depends only on the current transaction and spent outputs"]))
        elif not same(a, w):
            counters["spec"] += 1
            key = "spec mismatch %s ht=%#04x" % (fam, st[1][2])
            if sum(1 for x in fails if x["what"].startswith(key)) < 1:
                fails.append(_fail("%s: %s, spec %s" % (key, _show(a), _show(w)), {"tx": tx, "spent": spent, "steps": steps},
                                   ["digest == spec digest of the current transaction"]))
    return len(steps)


def _show(v):
    if isinstance(v, bytes):
        return v.hex()
    if isinstance(v, int):
        return "%064x" % v
    return repr(v)


def job_history_enumerated(seed, tier):
    """ALL interleavings of up to L steps over {query ALL, query non-ALL, edit output, edit sequence, edit outpoint,
    edit locktime} (L = 4 quick / 6 thorough), for each of the three algorithms, on one object"""
    rng = random.Random(seed * 104729 + 11)
    L = 4 if tier == "quick" else 6
    fails, counters, n, distinct = [], {"queries": 0, "history": 0, "spec": 0}, 0, 0
    alphabet = ["qA", "qN", "out_amount", "sequence", "prev_index", "locktime"]
    for fam in FAMILY:
        for ln in range(2, L + 1):
            for word in itertools.product(alphabet, repeat=ln):
                if not any(w.startswith("q") for w in word):
                    continue
                tx, spent = start_state(rng, fam, n_in=2, n_out=2)
                kinds = ["q" if w.startswith("q") else w for w in word]
                alln = 0 if fam == "bip341" else 1
                hts = [(alln if w == "qA" else rng.choice([2, 3, 0x81, 0x82, 0x83])) if w.startswith("q") else None for w in word]
                n += run_history(fam, tx, spent, kinds, rng, fails, counters, hts)
                distinct += 1
    return {"evaluations": n, "distinct": distinct, "failures": fails, "samples": [],
            "bound": "all words of length 2..%d over a 6-letter query/edit alphabet containing a query, x 3 algorithms; "
                     "%d queries, %d history-dependent answers, %d further spec mismatches" % (L, counters["queries"], counters["history"], counters["spec"])}


def job_history_random(seed, tier):
    """random histories of <= 6 steps over all 14 edit kinds, 1..4 inputs, 1..4 outputs, all hash types"""
    rng = random.Random(seed * 104729 + 12)
    budget = 15 if tier == "quick" else 150
    fails, counters, n, distinct = [], {"queries": 0, "history": 0, "spec": 0}, 0, 0
    t0 = time.time()
    while time.time() - t0 < budget:
        fam = rng.choice(list(FAMILY))
        tx, spent = start_state(rng, fam)
        ln = rng.randrange(2, 7)
        kinds = [rng.choice(["q", "q"] + EDIT_KINDS) for _ in range(ln - 1)] + ["q"]
        n += run_history(fam, tx, spent, kinds, rng, fails, counters)
        distinct += 1
    return {"evaluations": n, "distinct": distinct, "failures": fails, "samples": [],
            "bound": "seeded random histories for %ds: 2..6 steps, 14 edit kinds (outputs, inputs, sequences, locktime, version, "
                     "outpoints, spent outputs, witnesses); %d queries, %d history-dependent answers, %d further spec mismatches"
                     % (budget, counters["queries"], counters["history"], counters["spec"])}


def job_history_tapscript(seed, tier):
    """script-path histories through the library's own helper (seed C05-E): an input is initialised for leaf A of a k-of-n tree
    with Tx.initialize_p2tr_multisig (which also records the tap script on the TxIn), a digest may be taken, then the witness
    is replaced so that the input spends leaf B of the same output (with or without annex), and the script-path digest
    (ext_flag = 1) is asked for every hash type: it must equal the digest of a FRESH transaction object with the same fields
    (the fresh object's script-path digest itself is compared with the spec by the grid / rt-contract jobs)"""
    from buidl.pecc import PrivateKey
    from buidl.taproot import TapRootMultiSig
    from buidl.tx import Tx, TxIn, TxOut
    from buidl.witness import Witness
    from buidl.script import P2WPKHScriptPubKey
    rng = random.Random(seed * 104729 + 5)
    fails, n = [], 0
    rounds = 2 if tier == "quick" else 8
    for rnd in range(rounds):
        k, nn = ((1, 2), (2, 3), (2, 2), (1, 3))[rnd % 4]
        points = [PrivateKey(rng.randrange(1, 2**200)).point for _ in range(nn)]
        ms = TapRootMultiSig(points, k)
        internal = ms.default_internal_pubkey
        tree = ms.multi_leaf_tree() if (k, nn) != (2, 2) else ms.everything_tree()
        leaves = tree.leaves()
        if len(leaves) < 2:
            continue
        root = tree.hash()
        n_in = 1 + rnd % 2

        def build(witnesses):
            ins = []
            for j in range(n_in):
                ti = TxIn(bytes([j + 1 + rnd]) * 32, j, sequence=0xFFFFFFFE - j)
                ti._value = 50000 + j
                ti._script_pubkey = internal.p2tr_script(root)
                if witnesses[j] is not None:
                    ti.witness = Witness(list(witnesses[j]))
                ins.append(ti)
            outs = [TxOut(40000, P2WPKHScriptPubKey(bytes([7 + rnd]) * 20)), TxOut(9000 + rnd, P2WPKHScriptPubKey(bytes([9]) * 20))]
            return Tx(2, ins, outs, 0, network="signet", segwit=True)
        for i in range(n_in):
            for a, b in ((0, 1), (1, 0), (len(leaves) - 1, 0)):
                if a == b:
                    continue
                la, lb = leaves[a], leaves[b]
                wit_b = [lb.tap_script.raw_serialize(), tree.control_block(internal, lb).serialize()]
                for annex in (None, b"\x50" + bytes([rnd + 1]) * 3):
                    for query_first in (False, True):
                        wb = wit_b + ([annex] if annex else [])
                        t = build([None] * n_in)
                        t.initialize_p2tr_multisig(i, tree.control_block(internal, la), la.tap_script)
                        if query_first:
                            t.sig_hash_bip341(i, ext_flag=1, hash_type=0)
                        t.tx_ins[i].witness = Witness(list(wb))
                        fresh = build([wb if j == i else None for j in range(n_in)])
                        for ht in G.TAPROOT_TYPES:
                            n += 1
                            try:
                                got = t.sig_hash_bip341(i, ext_flag=1, hash_type=ht)
                            except Exception as ex:      # noqa
                                got = ("raise", type(ex).__name__)
                            try:
                                want = fresh.sig_hash_bip341(i, ext_flag=1, hash_type=ht)
                            except Exception as ex:      # noqa
                                want = ("raise", type(ex).__name__)
                            if got != want and len(fails) < 3:
                                fails.append(_fail("history-dependence bip341 script path: input initialised for leaf %d with initialize_p2tr_multisig, "
                                                   "witness then replaced by leaf %d%s: digest ht=%#04x is %s, a fresh object with the same fields gives %s"
                                                   % (a, b, " + annex" if annex else "", ht, _show(got), _show(want)),
                                                   {"k": k, "n": nn, "input": i, "leaf_a": a, "leaf_b": b, "annex": annex, "hash_type": ht,
                                                    "queried_before_replacement": query_first},
                                                   ["digest depends only on the current transaction and spent outputs"]))
    return {"evaluations": n, "distinct": n, "failures": fails, "samples": [],
            "bound": "%d k-of-n trees (library-built), every input, three (leaf A -> leaf B) replacements, with/without annex, with/without a "
                     "digest taken before the replacement, 7 hash types; compared with a fresh object" % rounds}


def job_mixed_algorithms(seed, tier):
    """one transaction with a P2PKH, a P2WPKH and a P2TR input: digests of different algorithms / inputs / hash
    types queried in every order on one object must equal the answers of fresh objects"""
    rng = random.Random(seed * 104729 + 13)
    fails, n, bad = [], 0, 0
    rounds = 40 if tier == "quick" else 400
    for _ in range(rounds):
        ins = [GT.rand_ntxin(rng, witness=False, script_sig=[]) for _ in range(3)]
        outs = [(rng.getrandbits(40), G.std5(rng)) for _ in range(rng.randrange(3, 5))]
        spent = [(rng.getrandbits(40), GT.std_script(rng, k)) for k in ("p2pkh", "p2wpkh", "p2tr")]
        tx = (2, ins, outs, rng.getrandbits(32))
        qs = [("legacy", 0, rng.choice(G.LEGACY_TYPES), None), ("bip143", 1, rng.choice(G.LEGACY_TYPES), None),
              ("bip341", 2, rng.choice(G.TAPROOT_TYPES), 0), ("sig_hash", rng.randrange(3), rng.choice([1, 2, 3]), None)]
        base = [HS.history(tx, spent, [("q", q)])[0] for q in qs]
        for perm in itertools.permutations(range(4)):
            steps = [("q", qs[j]) for j in perm]
            ans = HS.history(tx, spent, steps)
            n += 4
            for pos, j in enumerate(perm):
                if ans[pos] != base[j]:
                    bad += 1
                    if len(fails) < 2:
                        fails.append(_fail("query order dependence: %r answers differently after %r" % (qs[j][:3], [qs[x][:3] for x in perm[:pos]]),
                                           {"tx": tx, "spent": spent, "steps": steps}, ["digest independent of earlier digest computations"]))
    return {"evaluations": n, "distinct": rounds * 24, "failures": fails, "samples": [],
            "bound": "%d transactions x all 24 orders of four digest queries (legacy, BIP143, BIP341, dispatch); %d order-dependent answers" % (rounds, bad)}


def job_grid(seed, tier):
    """1..6 inputs x 0..6 outputs x every input index x every hash type x {legacy, BIP143, BIP341 key path with and
    without annex} on fresh objects vs the spec; one failure example per (algorithm, hash type)"""
    rng = random.Random(seed * 104729 + 14)
    fails, n, bad = [], 0, {}
    for n_in in range(1, 7):
        for n_out in range(0, 7):
            for i in range(n_in):
                for alg, types, wmodes in (("legacy", G.LEGACY_TYPES, ("empty",)), ("bip143", G.LEGACY_TYPES, ("empty",)),
                                           ("bip341", G.TAPROOT_TYPES, ("empty", "key", "key+annex"))):
                    for ht in types:
                        for wm in wmodes:
                            d = G.gen_case(rng, alg, n_in, n_out, i, ht, wm)
                            q = (alg, i, ht, 0 if alg == "bip341" else None)
                            a = HS.history(d["tx"], d["spent"], [("q", q)])[0]
                            w = expected(d["tx"], d["spent"], q)
                            n += 1
                            if not same(a, w):
                                key = "%s ht=%#04x%s" % (alg, ht, "" if wm == "empty" else " witness=" + wm)
                                bad[key] = bad.get(key, 0) + 1
                                if bad[key] == 1:
                                    fails.append(_fail("digest != spec: %s (first at %d inputs, %d outputs, index %d): library %s, spec %s"
                                                       % (key, n_in, n_out, i, _show(a), _show(w)),
                                                       {"tx": d["tx"], "spent": d["spent"], "steps": [("q", q)]}, ["digest == spec digest"]))
    return {"evaluations": n, "distinct": n, "failures": fails, "samples": [],
            "bound": "full grid 1..6 inputs x 0..6 outputs x all indexes x all hash types x 3 algorithms (BIP341: unsigned, key path, key path + annex); "
                     "mismatch counts: %s" % (sorted(bad.items()),)}


# ---------------------------------------------------------------------------- published vectors through the real code
BIP143_P2SH_P2WSH = {
    "tx": "010000000136641869ca081e70f394c6948e8af409e18b619df2ed74aa106c1ca29787b96e0100000000ffffffff0200e9a435000000001976a914389ffce9cd9ae88dcc0631e88a821ffdbe9bfe2688acc0832f05000000001976a9147480a33f950689af511e6e84c138dbbd3c3ee41588ac00000000",
    "script": "56210307b8ae49ac90a048e9b53357a2354b3334e9c8bee813ecb98e99a7e07e8c3ba32103b28f0c28bfab54554ae8c658ac5c3e0ce6e79ad336331f78c428dd43eea8449b21034b8113d703413d57761b8b9781957b8c0ac1dfe69f492580ca4195f50376ba4a21033400f6afecb833092a9a21cfdf1ed1376e58c5d1f47de74683123987e967a8f42103a6d48b1131e94ba04d9737d61acdaa1322008af9602b3b14862c07a1789aac162102d8b661b0b3302ee2f162b09e07a55ad5dfbe673a9f01d9f0c19617681024306b56ae",
    "amount": 987654321,
    "sighash": {1: "185c0be5263dce5b4bb50a047973c1b6272bfbd0103a89444597dc40b248ee7c", 2: "e9733bc60ea13c95c6527066bb975a2ff29a925e80aa14c213f686cbae5d2f36",
                3: "1e1f1c303dc025bd664acb72e583e933fae4cff9148bf78c157d1e8f78530aea", 0x81: "2a67f03e63a6a422125878b40b82da593be8d4efaafe88ee528af6e5a9955c6e",
                0x82: "781ba15f3779d5542ce8ecb5c18716733a5ee42a6f51488ec96154934e2c890a", 0x83: "511e8e52ed574121fc1b654970395502128263f62662e076dc6baf05c2e6a99b"}}
BIP143_P2WPKH = {
    "tx": "0100000002fff7f7881a8099afa6940d42d1e7f6362bec38171ea3edf433541db4e4ad969f0000000000eeffffffef51e1b804cc89d182d279655c3aa89e815b1b309fe287d9b2b55d57b90ec68a0100000000ffffffff02202cb206000000001976a9148280b37df378db99f66f85c95a783a76ac7a6d5988ac9093510d000000001976a9143bde42dbee7e4dbe6a21b2d50ce2f0167faa815988ac11000000",
    "h160": "1d0f172a0ecb48aee1be1f2687d2963ae33f71a1", "amount": 600000000, "index": 1,
    "sighash": "c37af31116d1b27caf68aae9e3ac82f1477929014d5b917657d0eb49478cb670"}
CORE_SIGHASH_JSON_1 = {      # first vector of Bitcoin Core's src/test/data/sighash.json (hash type 0x6f1ce81f... & 0x1f = 0x1f: ALL-like)
    "tx": "907c2bc503ade11cc3b04eb2918b6f547b0630ab569273824748c87ea14b0696526c66ba740200000004ab65ababfd1f9bdd4ef073c7afc4ae00da8a66f429c917a0081ad1e1dabce28d373eab81d8628de802000000096aab5253ab52000052ad042b5f25efb33beec9f3364e8a9139e8439d9d7e26529c3c30b6c3fd89f8684cfd68ea0200000009ab53526500636a52ab599ac2fe02a526ed040000000008535300516352515164370e010000000003006300ab2ec229",
    "script": "", "index": 2, "hash_type": 1864164639, "sighash_le": "31af167a6cf3f9d5f6875caa4d31704ceb0eba078d132b78dab52c3b8997317e"}


def job_vectors(seed, tier):
    with contextlib.redirect_stdout(_io.StringIO()):     # Script.parse prints a diagnostic for the vectors' odd output script
        return _job_vectors(seed, tier)


def _job_vectors(seed, tier):
    """BIP143 (P2WPKH example, P2SH-P2WSH 6-of-6 example with all six hash types), BIP341 wallet vectors (from the
    repository's own test file), Bitcoin Core sighash.json #1: spec == vector (validates the spec) and library == vector"""
    import io
    import os
    from buidl.tx import Tx
    from buidl.script import Script, WitnessScript
    fails, n = [], 0

    def check(name, lib, spc, want):
        nonlocal n
        n += 1
        viol = []
        if spc != want:
            viol.append("SPEC != published vector (spec error)")
        if lib != want:
            viol.append("library digest != published vector")
        if viol:
            fails.append(_fail("vector %s: library %s, spec %s, published %s" % (name, _show(lib), _show(spc), _show(want)), {"vector": name}, viol))

    v = BIP143_P2SH_P2WSH
    ntx, _ = T.tx_parse(H(v["tx"]))
    ws = H(v["script"])
    for ht, want in v["sighash"].items():
        t = Tx.parse(io.BytesIO(H(v["tx"])))
        t.tx_ins[0]._value = v["amount"]
        try:
            lib = t.sig_hash_bip143(0, witness_script=WitnessScript.convert(ws), hash_type=ht)
        except Exception as e:       # noqa
            lib = ("raise", type(e).__name__)
        check("BIP143 P2SH-P2WSH ht=%#04x" % ht, lib, spec.int_be(S.bip143_digest(ntx, 0, ws, v["amount"], ht)), int(want, 16))
    v = BIP143_P2WPKH
    ntx, _ = T.tx_parse(H(v["tx"]))
    t = Tx.parse(io.BytesIO(H(v["tx"])))
    t.tx_ins[1]._value = v["amount"]
    t.tx_ins[1]._script_pubkey = Script([0, H(v["h160"])])
    check("BIP143 P2WPKH", t.sig_hash_bip143(1), spec.int_be(S.bip143_digest(ntx, 1, S.p2pkh_script(H(v["h160"])), v["amount"], 1)), int(v["sighash"], 16))
    v = CORE_SIGHASH_JSON_1
    ntx, _ = T.tx_parse(H(v["tx"]))
    n += 1
    if S.legacy_digest(ntx, v["index"], b"", v["hash_type"])[::-1].hex() != v["sighash_le"]:
        fails.append(_fail("vector Core sighash.json #1: SPEC != published vector (spec error)", {"vector": "sighash.json#1"}, ["spec"]))
    # BIP341 wallet test vectors, read from the repository's test file
    src = open(os.path.join(os.environ.get("VERIF_REPO", "/repo"), "buidl", "test", "test_taproot.py")).read()
    a = src.index("test = {", src.index("def test_p2tr_spending"))
    b = src.index("hex_tx = test[")
    test = eval(src[a + len("test = "):b].strip(), {"__builtins__": {}}, {})
    raw = H(test["given"]["rawUnsignedTx"])
    ntx, _ = T.tx_parse(raw)
    spent = [(u["amountSats"], H(u["scriptPubKey"])) for u in test["given"]["utxosSpent"]]
    for d in test["inputSpending"]:
        i, ht = d["given"]["txinIndex"], d["given"]["hashType"]
        t = Tx.parse(io.BytesIO(raw))
        for ti, (amt, spk) in zip(t.tx_ins, spent):
            ti._value = amt
            ti._script_pubkey = Script.parse(raw=spk)
        n += 1
        if S.bip341_message(ntx, i, spent, ht, 0, None).hex() != d["intermediary"]["sigMsg"]:
            fails.append(_fail("vector BIP341 input %d: SPEC SigMsg != published" % i, {"vector": "bip341/%d" % i}, ["spec"]))
        check("BIP341 wallet vector input %d ht=%#04x" % (i, ht), t.sig_hash_bip341(i, hash_type=ht), S.bip341_digest(ntx, i, spent, ht, 0, None),
              H(d["intermediary"]["sigHash"]))
    return {"evaluations": n, "distinct": n, "failures": fails, "samples": [],
            "bound": "published vectors: BIP143 x7, BIP341 wallet vectors x7 (sigMsg and sigHash), Core sighash.json #1"}


_GEN = [n for n in ALL if REG.contracts[n].gen is not None]
BOUNDED = [("rt-contracts-%d" % _k, fuzz_job(_GEN[_k::4])) for _k in range(4)] + [ ("history-enumerated", job_history_enumerated), ("history-random", job_history_random),
           ("history-tapscript", job_history_tapscript), ("mixed-algorithms", job_mixed_algorithms), ("grid", job_grid), ("vectors", job_vectors)]
TRUSTED_BASE = ["pyvc symbolic executor (A-ENGINE)", "z3", "spec functions verif/specs/sighash.py + txwire.py + wire.py (A-SPEC; validated against "
                "the BIP143 and BIP341 published vectors and Core's sighash.json #1 in the `vectors` job)",
                "API harnesses verif/harness/sighash.py + txcodec.py", "CPython built-ins per verif/pyvc/calls.py (A-BUILTIN)",
                "hashlib digests uninterpreted (deterministic functions of their input)"]
ASSUMPTIONS = ["A-ENGINE", "A-SPEC", "A-BUILTIN",
               "deductive contracts fix the shape (2 inputs, 1..2 outputs, standard scripts) with symbolic field values and one concrete hash type per "
               "path; 1..6 inputs x 0..6 outputs only in the bounded companion",
               "history independence is proved for two-step histories (query, one edit, query) with symbolic values; longer interleavings (<= 6 steps, "
               "14 edit kinds) only in the bounded companion",
               "BIP341 script path (ext_flag 1): bounded only (ControlBlock.parse needs a field square root the engine does not finish); "
               "codeseparator position is always 0xffffffff (the library does not implement OP_CODESEPARATOR in tapscript)",
               "hash types outside {0,1,2,3,0x81,0x82,0x83} are outside the property",
               "termination not verified"]
EXPLANATION = ("Tx.sig_hash_legacy / sig_hash_bip143 / sig_hash_bip341 / sig_hash on a 2-input transaction with symbolic fields, for every "
               "standard hash type, compared with independent executable specs of the three algorithms (hashes uninterpreted: equality of "
               "digests is equality of preimages); two-step query/edit/query histories with symbolic edits for the memoised midstates.")
CATEGORY = "other"
LEVEL_TEXT = ("Deductive: (a) all three algorithms for EVERY transaction shape -- Tx.sig_hash_legacy (script code = redeem script, incl. the "
              "1<<248 results for out-of-range indices), Tx.hash_prevouts / hash_outputs / sig_hash_bip143 (P2WSH script code) and "
              "Tx.sha_prevouts / sha_outputs / sig_hash_bip341 (key path, no annex) are proved equal to SignatureHash / the BIP143 "
              "preimage / the BIP341 SigMsg for any number of inputs and outputs, any input index and each of the seven hash "
              "types by loop invariants over lists of symbolic length (verif/contracts/listloops.py, spec verif/specs/listser.py); "
              "(b) legacy, BIP143 (P2WPKH script code), BIP341 key path and the dispatcher for fixed 1-2 input / 1-2 output shapes with "
              "symbolic fields and every hash type; (c) two-step query/edit/query histories with symbolic edits.  Bounded companions: "
              "shape grid up to 6x6, histories up to 6 steps, BIP341 script path and annex.  Claimed 'other' because the history clause "
              "and the BIP341 script path are decided by bounded exploration only.  The defects these checks found on the pinned tree "
              "(hash types other than ALL, annex handling, never-invalidated midstate caches) are repaired by fix: commits, see "
              "KNOWN_FINDINGS.jsonl.")
LEVEL_NOTE = ("trusted: pyvc translation (A-ENGINE), spec functions (A-SPEC, checked against published vectors), harness functions, CPython builtin "
              "contracts (A-BUILTIN), hash functions uninterpreted; termination not verified")
