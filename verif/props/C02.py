from verif.pyvc.verifier import REG
from verif.bounded import fuzz_job
import verif.contracts  # noqa

CONTRACTS = [n for n, c in REG.contracts.items() if "C02" in c.props]
TABLES = []


def bip340_vectors(seed, tier):
    """the official BIP340 test vectors through the real API and the spec (bounded companion)"""
    import csv, os
    from buidl.pecc import S256Point, SchnorrSignature, PrivateKey
    import verif.specs as s
    path = "/repo/buidl/test/bip340-test-vectors.csv"
    rows = list(csv.DictReader(open(path))) if os.path.exists(path) else []
    ev, fails, samples = 0, [], []
    for r in rows:
        pk, msg, sig = bytes.fromhex(r["public key"]), bytes.fromhex(r["message"]), bytes.fromhex(r["signature"])
        want = r["verification result"].strip().upper() == "TRUE"
        if len(msg) != 32:
            continue
        ev += 1
        sp = s.schnorr.verify(pk, msg, sig)
        try:
            got = S256Point.parse(pk).verify_schnorr(msg, SchnorrSignature.parse(sig))
        except Exception:
            got = False
        if sp != want or got != want:
            fails.append({"what": "BIP340 vector %s: expected %s, spec %s, code %s" % (r["index"], want, sp, got),
                          "inputs": {"index": r["index"]}, "violated": ["vector"]})
        if r["secret key"]:
            ev += 1
            d = int(r["secret key"], 16)
            aux = bytes.fromhex(r["aux_rand"])
            mine = PrivateKey(d).sign_schnorr(msg, aux).serialize()
            if mine != sig or s.schnorr.sign(d, msg, aux) != sig:
                fails.append({"what": "BIP340 signing vector %s differs" % r["index"], "inputs": {"index": r["index"]}, "violated": ["sign"]})
        if len(samples) < 2:
            samples.append({"index": r["index"], "expected": want})
    return {"evaluations": ev, "distinct": ev, "failures": fails, "samples": samples,
            "bound": "the %d official BIP340 vectors shipped in /repo/buidl/test (32-byte messages)" % len(rows)}


BOUNDED = [("rt-contracts", fuzz_job(CONTRACTS, quick_budget_s=90, thorough_budget_s=600)), ("bip340-vectors", bip340_vectors)]
CATEGORY = "proof"
TECHNIQUE = ("contract-based deductive verification: pyvc VCs from the real pecc.py / phash.py source, z3 + zn_ring in the "
             "discrete-log theory of secp256k1 (polynomial normal forms mod N and mod P); bounded run-time contract companion + BIP340 vectors")
TRUSTED_BASE = ["pyvc symbolic executor (A-ENGINE)", "z3 5.1", "zn_ring normaliser",
                "discrete-log theory of secp256k1 incl. curve equation and 'x^3+7 is a square' for every point (A-PRIME; group law is C03)",
                "Euler criterion for the (P+1)/4 square root (Lean lemma, verif/lean)", "spec verif/specs/schnorr.py (BIP340 reference algorithms)",
                "SHA256 uninterpreted; byte-wise xor an uninterpreted deterministic function in these contracts",
                "harness verif/harness/ecc.py"]
ASSUMPTIONS = ["A-ENGINE", "A-SPEC", "A-BUILTIN", "A-PRIME",
               "A-NEGL: signing excludes nonce k' == 0 (spec.schnorr.sign_defined)",
               "'any altered message/key/signature is rejected' beyond 'accepted => the BIP340 equation holds' is collision resistance of the tagged hash (A-CR), not claimed",
               "tagged_hash cache: verified from the cache state of the running process for the ten tags the library uses; an arbitrary pre-populated cache is exercised only by the bounded companion",
               "cecc.py back end not verified", "termination not verified"]
EXPLANATION = ("BIP340: sign_schnorr == the BIP's signing algorithm byte for byte for every key, message, aux; verify_schnorr on 64 signature "
               "bytes == the BIP's verification algorithm for every public key, message and byte string (incl. r >= p, s >= n, r not on the curve, "
               "odd-y R, infinity); honest signatures verify; SchnorrSignature refuses s >= n; tagged hashes equal sha256(sha256(tag)*2 + m).")
LEVEL_TEXT = ("Unbounded deductive proof for all keys, messages, aux values and all 64-byte signature strings that signing and verification equal the "
              "BIP340 reference algorithms and that honest signatures verify, in the discrete-log model of the curve.")
LEVEL_NOTE = "assumes the discrete-log model (group law is C03), Euler/Fermat lemmas, uninterpreted hashes and xor, A-NEGL for signing; cecc unverified"
