"""C16: multisig descriptors: checksum, round trip and address derivation are exact."""
import itertools
import random
import time

from verif.pyvc.verifier import REG, jsonable
from verif.bounded import fuzz_job
import verif.contracts  # noqa
import verif.specs as _S
from verif.contracts.common import rand_bytes
from verif.contracts import descriptor as CD
from .C09 import run_cases, direct
from .C20 import _rank_gf2

T = _S.text
CONTRACTS = [n for n, c in REG.contracts.items() if "C16" in c.props]
HD = "verif.harness.descriptor."


# ------------------------------------------------------------------------------------------- all quorums
def all_quorums(seed, tier):
    """every 1 <= m <= n <= 6, plain and SLIP-132 keys: text + checksum, parse round trip, addresses on both branches,
    supply-order independence (all permutations for n <= 3, sampled above), receive != change"""
    from verif.harness import descriptor as HDm
    rng = random.Random(seed * 15485863 + 1)
    n_perm = 1 if tier == "quick" else 8
    extra_fail = []
    extra_evals = 0

    def cases():
        nonlocal extra_evals
        for slip in (False, True):
            for m, n in CD.all_quorums():
                if tier == "quick" and ((slip and n > 3 and (m, n) not in ((1, 6), (6, 6))) or (not slip and n >= 5 and m not in (1, 3, n))):
                    continue
                recs, net = CD.wallet(rng, n, slip132=slip)
                for sort in ((True, False) if n > 1 else (True,)):
                    d = {"m": m, "records": recs, "sort": sort}
                    yield HD + "build", d
                    yield HD + "parse_str", dict(d, with_checksum=True)
                    yield HD + "parse_state", dict(d, with_checksum=(m % 2 == 0))
                off = rng.choice(CD.OFFSETS)
                yield HD + "address", {"m": m, "records": recs, "offset": off, "is_change": False}
                yield HD + "address", {"m": m, "records": recs, "offset": off, "is_change": True}
                if tier != "quick" or n <= 3:
                    yield HD + "address_of_text", {"m": m, "records": recs, "sort": True, "with_checksum": True, "offset": off, "is_change": bool(m % 2)}
                # order independence and receive != change, directly on the real code
                try:
                    base_r = HDm.address(m, recs, off, False)
                    base_c = HDm.address(m, recs, off, True)
                    text = HDm.build(m, recs)
                    extra_evals += 2
                    if base_r == base_c:
                        extra_fail.append({"what": "receive and change address coincide", "inputs": {"m": m, "records": recs, "offset": off}, "violated": ["address(.., False) != address(.., True)"]})
                    perms = list(itertools.permutations(recs)) if n <= 3 else [tuple(rng.sample(recs, n)) for _ in range(n_perm)] + [tuple(reversed(recs))]
                    if slip and tier == "quick":
                        perms = perms[-1:]
                    for p in perms:
                        extra_evals += 1
                        if HDm.address(m, list(p), off, False) != base_r or HDm.build(m, list(p)) != text:
                            extra_fail.append({"what": "address or descriptor text depends on the order in which key records were supplied",
                                               "inputs": {"m": m, "records": list(p), "offset": off}, "violated": ["permutation invariance"]})
                        if tier != "quick" or n <= 3:
                            extra_evals += 1
                            if HDm.address(m, list(p), off, True) != base_c:
                                extra_fail.append({"what": "change address depends on the supply order", "inputs": {"m": m, "records": list(p), "offset": off},
                                                   "violated": ["permutation invariance"]})
                except Exception as e:
                    extra_fail.append({"what": "order-independence check raised %r" % (e,), "inputs": {"m": m, "records": recs}, "violated": ["returns()"]})
    r = run_cases(cases(), "every quorum 1 <= m <= n <= 6 x {BIP32, SLIP-132 version bytes} (quick tier thins this out: n >= 5 only m in {1, 3, n}; SLIP-132 only n <= 3 plus 1-of-6 and 6-of-6, one permutation): descriptor text and checksum == "
                  "Core's algorithm (spec), parse(str(d)) == d with and without checksum, parsed state, receive and change address at a sampled offset == P2WSH of the "
                  "m-of-n script over BIP67-sorted child keys; all permutations of the key records for n <= 3, %d random + reversed above; receive != change" % n_perm,
                  budget_s=110 if tier == "quick" else 1200)
    r["evaluations"] += extra_evals
    r["distinct"] += extra_evals
    r["failures"] = (r["failures"] + extra_fail)[:20]
    return r


# ------------------------------------------------------------------------------------------- substitutions seen by parse()
def parse_substitutions(seed, tier):
    """single-character substitutions of str(descriptor) -- body and checksum -- must make P2WSHSortedMulti.parse raise"""
    from verif.harness.descriptor import parse_accepts, build
    rng = random.Random(seed * 15485863 + 2)
    wallets = [(1, 1, False), (2, 2, True)] if tier == "quick" else [(1, 1, False), (2, 2, True), (2, 3, False), (3, 5, False)]
    per_pos = 2 if tier == "quick" else 10
    evals = 0
    failures, samples = [], []
    sep_accept = []
    t0 = time.time()
    budget = 100 if tier == "quick" else 900
    truncated = ""
    for m, n, slip in wallets:
        recs, net = CD.wallet(rng, n, slip132=slip)
        text = T.sortedmulti_descriptor(m, recs, True)
        assert parse_accepts(text) == text
        hashpos = text.index("#")
        for i in range(len(text)):
            if time.time() - t0 > budget:
                truncated = " [time budget reached at position %d of the %d-of-%d descriptor: enumeration truncated]" % (i, m, n)
                break
            orig = text[i]
            # substitutes: a few random ones from the 95-character input set plus the "nearest" ones (same low bits / same class neighbours, digits, case flip)
            cand = set(rng.sample(CD.ALPHABET, per_pos))
            pos = CD.ALPHABET.find(orig)
            cand.update([CD.ALPHABET[(pos + 32) % 95], CD.ALPHABET[(pos + 1) % 95], orig.swapcase(), "0", "/", ",", "h", ")"])
            if tier != "quick":
                cand.update(["*", "'", "q", "1", "[", "]", "#", " "])
            if i > hashpos:
                cand.update(rng.sample(T.CHARSET, 4))
            cand.discard(orig)
            for ch in sorted(cand):
                mtext = text[:i] + ch + text[i + 1:]
                evals += 1
                got = parse_accepts(mtext)
                if got is None:
                    continue
                failures.append({"what": "P2WSHSortedMulti.parse accepts a descriptor with one substituted character (position %d, %r -> %r)" % (i, orig, ch),
                                 "inputs": {"text": mtext, "original": text}, "violated": ["altering a single character of the body or checksum is detected; parse returned %r" % (got[:60],)]})
        samples.append({"descriptor": text[:80] + "...", "length": len(text)})
    return direct(evals, evals, failures, samples,
                  "%d wallet descriptors %s: every position of 'body#checksum' x (%d random characters of the 95-character set + neighbouring / structural characters): parse must raise "
                  "(the '#' separator position included: the property's quantifier says every position)"
                  % (len(wallets), [(m, n) for m, n, _ in wallets], per_pos) + truncated)


# ------------------------------------------------------------------------------------------- exhaustive table
def descriptor_single_subst(tier):
    """single-character substitution is always detected by the checksum, all lengths: local state differences are nonzero for every
    (group shape, position, old char, new char, class context) and the per-symbol state map is injective -- all with the real calc_poly_mod;
    plus direct brute force with the real calc_core_checksum"""
    from buidl.descriptor import calc_poly_mod, calc_core_checksum, DESCRIPTOR_INPUT_CHARSET
    rng = random.Random(4242)
    out = []
    A = DESCRIPTOR_INPUT_CHARSET
    if A != T.DESC_INPUT:
        out.append({"name": "descriptor_subst/charset", "status": "fail", "clause": "DESCRIPTOR_INPUT_CHARSET equals Bitcoin Core's INPUT_CHARSET", "backend": "exhaustive",
                    "inputs": {}, "confirmed": True})

    def feed(c, chars):
        """the library's grouping loop on top of the real calc_poly_mod (final partial group flushed)"""
        cls = 0
        k = 0
        for p in chars:
            c = calc_poly_mod(c, p & 31)
            cls = cls * 3 + (p >> 5)
            k += 1
            if k == 3:
                c = calc_poly_mod(c, cls)
                cls, k = 0, 0
        if k:
            c = calc_poly_mod(c, cls)
        return c
    # cross-check `feed` against the real calc_core_checksum (same grouping): checksum == chars of feed(1, text) after 8 zero steps ^ 1
    for _ in range(50):
        t = "".join(rng.choice(A) for _ in range(rng.randrange(0, 40)))
        c = feed(1, [A.find(ch) for ch in t])
        for _j in range(8):
            c = calc_poly_mod(c, 0)
        c ^= 1
        if "".join(T.CHARSET[(c >> (5 * (7 - j))) & 31] for j in range(8)) != calc_core_checksum(t):
            out.append({"name": "descriptor_subst/model", "status": "fail", "clause": "grouping model == calc_core_checksum", "backend": "exhaustive", "inputs": {"text": t}, "confirmed": False})
            break
    for shape in (3, 2, 1):
        bad = []
        count = 0
        for j in range(shape):
            others = [i for i in range(shape) if i != j]
            for ctx in itertools.product((0, 1, 2), repeat=len(others)):
                grp = [0] * shape
                for i, cl in zip(others, ctx):
                    grp[i] = cl * 32 + rng.randrange(31 if cl == 2 else 32)
                c0 = rng.getrandbits(40)
                for old in range(95):
                    grp[j] = old
                    a = feed(c0, grp)
                    for new in range(95):
                        if new == old:
                            continue
                        grp[j] = new
                        count += 1
                        if feed(c0, grp) == a:
                            bad.append((shape, j, ctx, old, new))
        out.append({"name": "descriptor_subst/local-delta/group%d" % shape, "status": "fail" if bad else "ok",
                    "clause": "exhaustive: in a %s of %d characters, for every position, every class context of the other characters and every ordered pair of distinct "
                              "characters of the 95-character set (%d cases), the real calc_poly_mod state after the group (character symbols + class symbol) differs"
                              % ("complete group" if shape == 3 else "trailing partial group", shape, count),
                    "backend": "exhaustive", "inputs": {"shape": shape, "bad": [repr(b) for b in bad[:5]]}, "confirmed": bool(bad)})
    # injective affine state map
    problems = []
    z = calc_poly_mod(0, 0)
    rows = [calc_poly_mod(1 << k, 0) ^ z for k in range(40)]
    rank = _rank_gf2(rows)
    if rank != 40:
        problems.append("rank %d" % rank)
    for _ in range(2000):
        s, d, v = rng.getrandbits(40), rng.getrandbits(40), rng.randrange(32)
        md = 0
        for k in range(40):
            if (d >> k) & 1:
                md ^= rows[k]
        if calc_poly_mod(s ^ d, v) != calc_poly_mod(s, v) ^ md:
            problems.append("not affine at %x %x %d" % (s, d, v))
            break
    out.append({"name": "descriptor_subst/state-map-injective", "status": "fail" if problems else "ok",
                "clause": "exhaustive over a basis: c -> calc_poly_mod(c, v) is affine (proved for all inputs by the calc_poly_mod contract; re-checked on 2000 samples) and its linear part, "
                          "computed with the real function on the 40 basis states, has full rank 40: a nonzero state difference stays nonzero through any number of further symbols and "
                          "the 8 final zero steps, and the 8 output characters are a bijective image of the 40-bit state -- so a single substituted character changes the checksum for "
                          "descriptors of ANY length (the property's bound 4096 included)",
                "backend": "exhaustive", "inputs": {"rank": rank, "problems": problems}, "confirmed": bool(problems)})
    # direct brute force with the real calc_core_checksum
    rngw = random.Random(99)
    texts = []
    recs, _ = CD.wallet(rngw, 1)
    texts.append(T.sortedmulti_text(1, recs))
    if tier != "quick":
        recs, _ = CD.wallet(rngw, 3, slip132=True)
        texts.append(T.sortedmulti_text(2, recs))
    for n in ((1, 2, 3, 4, 5, 7, 47) if tier == "quick" else (1, 2, 3, 4, 5, 6, 7, 8, 47, 200)):
        texts.append("".join(rng.choice(A) for _ in range(n)))
    for t in texts:
        chk = calc_core_checksum(t)
        bad = []
        count = 0
        for i in range(len(t)):
            for ch in A:
                if ch != t[i]:
                    count += 1
                    if calc_core_checksum(t[:i] + ch + t[i + 1:]) == chk:
                        bad.append((i, ch))
        out.append({"name": "descriptor_subst/direct/len%d" % len(t), "status": "fail" if bad else "ok",
                    "clause": "exhaustive: every position x every other character of the 95-character set (%d substitutions) of a %d-character descriptor body changes the real "
                              "calc_core_checksum" % (count, len(t)),
                    "backend": "exhaustive", "inputs": {"text": t[:120], "bad": [repr(b) for b in bad[:5]]}, "confirmed": bool(bad)})
    long_t = "".join(rng.choice(A) for _ in range(4096))
    chk = calc_core_checksum(long_t)
    positions = sorted(set([0, 1, 2, 3, 4093, 4094, 4095] + [rng.randrange(4096) for _ in range(3 if tier == "quick" else 60)]))
    bad = []
    count = 0
    for i in positions:
        for ch in (A if tier != "quick" else A[::4]):
            if ch != long_t[i]:
                count += 1
                if calc_core_checksum(long_t[:i] + ch + long_t[i + 1:]) == chk:
                    bad.append((i, ch))
    out.append({"name": "descriptor_subst/direct/len4096-sampled", "status": "fail" if bad else "ok",
                "clause": "4096-character body: %d substitutions at positions %s (first/last groups + random) all change the real calc_core_checksum [sampled, not exhaustive]" % (count, positions),
                "backend": "exhaustive", "inputs": {"bad": [repr(b) for b in bad[:5]]}, "confirmed": bool(bad)})
    return out


TABLES = [("descriptor_single_subst", descriptor_single_subst)]
BOUNDED = [("rt-contracts", fuzz_job(CONTRACTS)),
           ("all-quorums-n<=6", all_quorums),
           ("parse-single-substitutions", parse_substitutions)]
TRUSTED_BASE = ["pyvc symbolic executor (A-ENGINE)", "z3 5.1 (bit-vector mode)",
                "spec functions verif/specs/text.py (A-SPEC): GF(32) descriptor code checked against Core's PolyMod constants and doc/descriptors.md checksums; independent affine "
                "secp256k1 + BIP32 CKDpub checked against BIP32 test vector 2; SLIP-132 table",
                "harness functions verif/harness/descriptor.py", "CPython built-ins per verif/pyvc/calls.py (A-BUILTIN)",
                "HDPublicKey.parse/child and S256Point arithmetic of the library are exercised, not separately proved here (properties C03/C12 own them)"]
ASSUMPTIONS = ["A-ENGINE", "A-SPEC", "A-BUILTIN", "termination not verified",
               "receive != change relies on distinct derived keys hashing to distinct scripts (A-CR)"]
EXPLANATION = ("Descriptors: calc_poly_mod is proved (bit-vector, all 2^45 inputs) to be the GF(32) shift-register step of Bitcoin Core's descriptor checksum; an exhaustive table with the "
               "real functions shows every single-character substitution changes the checksum for descriptors of any length; text generation, parsing and address derivation are "
               "checked against an independent spec (own BIP32/secp256k1/P2WSH code) for every quorum m <= n <= 6, SLIP-132 keys and all/sampled permutations.")
CATEGORY = "other"
LEVEL_TEXT = ("Mixed. Deductive: calc_poly_mod == GF(32) LFSR step for all inputs (pyvc + z3 bit-vectors). Exhaustive tables: single-substitution detection by the checksum for every "
              "group shape / position / character pair / class context, plus injectivity of the state map (any length), plus direct enumeration on real descriptor bodies. NOT proved: "
              "calc_core_checksum's string loop, P2WSHSortedMulti.__init__/parse/get_address (text, regexes, EC keys) -- `undecided` symbolically, decided on enumerated inputs: all "
              "21 quorums x 2 key styles, sampled offsets up to 2^31-1, permutations, and per-position substitution of sampled descriptors through parse().")
LEVEL_NOTE = ("trusted: pyvc translation (A-ENGINE), spec functions incl. an independent BIP32/secp256k1 oracle (A-SPEC), harnesses, CPython builtin contracts (A-BUILTIN); "
              "string/regex/EC behaviour is bounded evidence, not proof; termination not verified")
