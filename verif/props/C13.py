from verif.pyvc.verifier import REG
from verif.bounded import fuzz_job
import verif.contracts  # noqa

CONTRACTS = [n for n, c in REG.contracts.items() if "C13" in c.props]


def _privs(rng, n, seed_parities=True):
    """n private keys with mixed public-key parities (at least one even and one odd when n >= 2)"""
    from buidl.ecc import PrivateKey
    from verif.contracts.ecc import N
    while True:
        ps = [PrivateKey(rng.randrange(1, N)) for _ in range(n)]
        if n < 2 or not seed_parities or len({p.point.parity for p in ps}) == 2:
            return ps


# ---------------------------------------------------------------------------- table: tree generators
def _tree_rows(n):
    def run(tier):
        """exhaustive over k = 1..n for a fixed key set of size n (the combinatorics do not depend on the key
        values): each k-subset owns exactly one leaf; leaf script == BIP342 CHECKSIGADD script of that subset"""
        import itertools
        import random
        import verif.specs as s
        from buidl.taproot import TapRootMultiSig
        rng = random.Random(1300 + n)
        privs = _privs(rng, n)
        points = [p.point for p in privs]
        xs = [p.xonly() for p in points]
        rows = []
        for k in range(1, n + 1):
            name = "kofn-tree/k=%d,n=%d" % (k, n)
            inputs = {"k": k, "n": n, "secrets": [str(p.secret) for p in privs]}
            try:
                trm = TapRootMultiSig(points, k)
            except Exception as e:
                rows.append({"name": name + "/constructor", "status": "fail", "backend": "exhaustive", "inputs": inputs, "confirmed": True,
                             "clause": "TapRootMultiSig(points, k) is defined for 1 <= k <= n: raised %s: %s" % (type(e).__name__, e)})
                continue
            subsets = s.taproot.k_subsets(n, k)
            want = [s.taproot.checksigadd_script([xs[i] for i in sub], k) for sub in subsets]
            tree = trm.multi_leaf_tree()
            got = [leaf.tap_script.raw_serialize() for leaf in tree.leaves()]
            ok = sorted(got) == sorted(want) and len(set(got)) == len(got) == len(subsets)
            rows.append({"name": name + "/multi_leaf_tree", "status": "ok" if ok else "fail", "backend": "exhaustive", "inputs": inputs,
                         "clause": "leaves of multi_leaf_tree == {k-of-k CHECKSIGADD script of S : S a k-subset}, one leaf each (%d leaves)" % len(subsets)})
            # no leaf for any smaller or larger subset
            other = set()
            for kk in range(1, n + 1):
                if kk != k:
                    for sub in s.taproot.k_subsets(n, kk):
                        other.add(s.taproot.checksigadd_script([xs[i] for i in sub], kk))
                        other.add(s.taproot.checksigadd_script([xs[i] for i in sub], k) if kk >= 1 else b"")
            rows.append({"name": name + "/no-leaf-for-other-subsets", "status": "ok" if not (set(got) & (other - set(want))) else "fail",
                         "backend": "exhaustive", "inputs": inputs, "clause": "no leaf of multi_leaf_tree is the script of a j-subset, j != k"})
            single = trm.single_leaf().tap_script.raw_serialize()
            rows.append({"name": name + "/single_leaf", "status": "ok" if single == s.taproot.checksigadd_script(xs, k) else "fail",
                         "backend": "exhaustive", "inputs": inputs, "clause": "single_leaf script == CHECKSIGADD script of all n keys with threshold k"})
            if k >= 2:
                mt = trm.musig_tree()
                gotm = [leaf.tap_script.raw_serialize() for leaf in mt.leaves()]
                wantm = []
                for sub in subsets:
                    agg = s.taproot.musig_agg_point(sorted(xs[i] for i in sub))
                    wantm.append(b"\x20" + s.taproot.x32(agg) + b"\xac")
                okm = sorted(gotm) == sorted(wantm) and len(set(gotm)) == len(subsets)
                rows.append({"name": name + "/musig_tree", "status": "ok" if okm else "fail", "backend": "exhaustive", "inputs": inputs,
                             "clause": "leaves of musig_tree == {<x(aggregate key of S)> CHECKSIG : S a k-subset}, one leaf each"})
        return rows
    return run


TABLES = [("kofn-trees-n%d" % n, _tree_rows(n)) for n in range(1, 6)]


# ---------------------------------------------------------------------------- bounded: signing sessions
def _musig_job(n, reps_quick, reps_thorough):
    def run(seed, tier):
        import itertools
        import random
        import verif.specs as s
        from verif.contracts.ecc import N
        from verif.contracts.common import rand_bytes
        from verif.harness import taproot as h
        rng = random.Random(seed * 31 + n)
        fails, samples, ev, distinct = [], [], 0, 0
        combos = set()
        for rep in range(reps_quick if tier == "quick" else reps_thorough):
            privs = _privs(rng, n)
            nonces = [(rng.randrange(1, N), rng.randrange(1, N)) for _ in range(n)]
            msg = rand_bytes(rng, 32)
            for root in (b"", rand_bytes(rng, 32)):
                ident = {"secrets": [str(p.secret) for p in privs], "nonces": [[str(a), str(b)] for a, b in nonces],
                         "msg": msg.hex(), "merkle_root": root.hex()}

                def bad(what, **kw):
                    fails.append({"what": what, "inputs": dict(ident, **kw), "violated": [what]})
                r = h.musig_session(privs, nonces, msg, root)
                ev += 1
                distinct += 1
                key32 = r["key"].xonly()
                combos.add((r["musig"].point.parity, r["r"].parity, r["key"].parity, tuple(p.point.parity for p in privs)))
                if r["sig"] is None:
                    bad("get_signature raised %r for an honest session" % (r["error"],))
                    continue
                sig = r["sig"].serialize()
                if s.schnorr.verify(key32, msg, sig) is not True:
                    bad("aggregate signature is not a valid BIP340 signature for the aggregate key", sig=sig.hex(), key=key32.hex())
                if sig != s.taproot.musig_sign([p.secret for p in privs], nonces, msg, root):
                    bad("aggregate signature differs from the described construction", sig=sig.hex())
                want_key = s.taproot.musig_session_key([p.secret for p in privs], root)
                if s.curve.pt(r["key"]) != want_key:
                    bad("session key differs from the described aggregate / output key")
                if len(samples) < 2:
                    samples.append({"n": n, "root": bool(root), "key": key32.hex(), "sig": sig.hex()})
                # order independence of key aggregation
                perms = list(itertools.permutations(range(n)))
                if len(perms) > 8:
                    perms = rng.sample(perms, 8)
                from buidl.taproot import MuSigTapScript
                for perm in perms:
                    ev += 1
                    agg = MuSigTapScript([privs[i].point for i in perm]).point
                    if s.curve.pt(agg) != s.curve.pt(r["musig"].point):
                        bad("aggregate key depends on the order of the participants", order=list(perm))
                # missing / altered partial signatures never give a valid aggregate
                trials = [("drop", i, None) for i in range(n)]
                for i in range(n):
                    trials.append(("alter+1", i, lambda x: (x + 1) % N))
                    trials.append(("negate", i, lambda x: (N - x) % N))
                if tier == "quick":
                    trials = trials[:n] + rng.sample(trials[n:], min(2, len(trials) - n))
                for kind, i, fn in trials:
                    ev += 1
                    t = h.musig_session(privs, nonces, msg, root, drop=i if kind == "drop" else None, alter=(i, fn) if fn else None)
                    cand = r["r"].xonly() + (t["s_sum"] % N).to_bytes(32, "big")
                    if t["sig"] is not None and s.schnorr.verify(key32, msg, t["sig"].serialize()):
                        bad("a session with a %s partial signature of signer %d yields a VALID aggregate" % (kind, i), sig=t["sig"].serialize().hex())
                    if t["sig"] is not None:
                        bad("get_signature returned a signature although the partial signature of signer %d was %s" % (i, kind))
                    if s.schnorr.verify(key32, msg, cand):
                        bad("plain sum with a %s partial signature verifies" % kind, sig=cand.hex())
        return {"evaluations": ev, "distinct": distinct, "failures": fails[:10], "samples": samples,
                "bound": "n = %d signers, random keys with mixed parities, random nonce pairs in [1, n-1], random 32-byte messages, with and without "
                         "merkle root; parity combinations seen (agg, R, key, keys): %d; every signer dropped, partial signatures +1 / negated" % (n, len(combos))}
    return run


def _spend_job(n):
    def run(seed, tier):
        """k-of-n trees, all k: every k-subset spends through its own leaf with the repository's
        initialize/get_sig_taproot/finalize API and Tx.verify_input; a (k-1)-subset cannot; k >= 2: the MuSig leaf
        of the subset is spent with an aggregate signature"""
        import random
        import verif.specs as s
        from verif.contracts.ecc import N
        from verif.harness import taproot as h
        from buidl.taproot import TapRootMultiSig, MuSigTapScript
        from buidl.witness import Witness
        rng = random.Random(seed * 17 + n)
        fails, samples, ev, distinct = [], [], 0, 0
        privs = _privs(rng, n)
        points = [p.point for p in privs]
        for k in range(1, n + 1):
            ident = {"k": k, "n": n, "secrets": [str(p.secret) for p in privs]}

            def bad(what, **kw):
                fails.append({"what": what, "inputs": dict(ident, **kw), "violated": [what]})
            try:
                trm = TapRootMultiSig(points, k)
            except Exception as e:
                bad("TapRootMultiSig(points, k) raised %s: %s" % (type(e).__name__, e))
                ev += 1
                continue
            internal = trm.default_internal_pubkey
            tree = trm.multi_leaf_tree()
            mr = tree.hash()
            spk = internal.p2tr_script(mr)
            leaves = tree.leaves()
            subsets = s.taproot.k_subsets(n, k)
            if tier == "quick" and len(subsets) > 4:
                subsets = [subsets[0], subsets[-1]] + rng.sample(subsets[1:-1], 2)
            for sub in subsets:
                want = s.taproot.checksigadd_script([points[i].xonly() for i in sub], k)
                mine = [leaf for leaf in leaves if leaf.tap_script.raw_serialize() == want]
                ev += 1
                distinct += 1
                if len(mine) != 1:
                    bad("subset %r owns %d leaves" % (sub, len(mine)))
                    continue
                leaf = mine[0]
                cb = tree.control_block(internal, leaf) if len(leaves) > 1 else leaf.control_block(internal)
                tx = h.p2tr_spend_tx(spk)
                tx.initialize_p2tr_multisig(0, cb, leaf.tap_script)
                sigs = [tx.get_sig_taproot(0, privs[i], ext_flag=1) for i in sub]
                ok = tx.finalize_p2tr_multisig(0, sigs)
                if not (ok and tx.verify_input(0)):
                    bad("the k-subset %r cannot spend through its leaf" % (sub,))
                elif len(samples) < 1:
                    samples.append({"k": k, "n": n, "subset": list(sub), "witness_items": len(tx.tx_ins[0].witness.items)})
                if k >= 2:
                    # one signature short
                    ev += 1
                    tx2 = h.p2tr_spend_tx(spk)
                    tx2.initialize_p2tr_multisig(0, cb, leaf.tap_script)
                    sigs2 = [tx2.get_sig_taproot(0, privs[i], ext_flag=1) for i in sub[:-1]]
                    if tx2.finalize_p2tr_multisig(0, sigs2) or tx2.verify_input(0):
                        bad("the (k-1)-subset %r spends the leaf of %r" % (sub[:-1], sub))
            if k >= 2:
                mtree = trm.musig_tree()
                mmr = mtree.hash()
                mspk = internal.p2tr_script(mmr)
                mleaves = mtree.leaves()
                msubs = s.taproot.k_subsets(n, k)
                if tier == "quick" and len(msubs) > 2:
                    msubs = rng.sample(msubs, 2)
                for sub in msubs:
                    ev += 1
                    sp = [privs[i] for i in sub]
                    ms = MuSigTapScript([p.point for p in sp])
                    mine = [leaf for leaf in mleaves if leaf.tap_script.raw_serialize() == ms.raw_serialize()]
                    if len(mine) != 1:
                        bad("subset %r owns %d MuSig leaves" % (sub, len(mine)))
                        continue
                    leaf = mine[0]
                    cb = mtree.control_block(internal, leaf) if len(mleaves) > 1 else leaf.control_block(internal)
                    tx = h.p2tr_spend_tx(mspk)
                    tx.tx_ins[0].witness = Witness([b"\x00" * 64, leaf.tap_script.raw_serialize(), cb.serialize()])
                    msg = tx.sig_hash(0, 0)
                    nonces = [(rng.randrange(1, N), rng.randrange(1, N)) for _ in sp]
                    r = h.musig_session(sp, nonces, msg)
                    if r["sig"] is None:
                        bad("MuSig leaf of %r: get_signature raised %r" % (sub, r["error"]))
                        continue
                    tx.tx_ins[0].witness = Witness([r["sig"].serialize(), leaf.tap_script.raw_serialize(), cb.serialize()])
                    if not tx.verify_input(0):
                        bad("the k-subset %r cannot spend through its MuSig leaf" % (sub,))
                    ev += 1
                    r2 = h.musig_session(sp, nonces, msg, drop=len(sp) - 1)
                    cand = r["r"].xonly() + (r2["s_sum"] % N).to_bytes(32, "big")
                    tx.tx_ins[0].witness = Witness([cand, leaf.tap_script.raw_serialize(), cb.serialize()])
                    if r2["sig"] is not None or tx.verify_input(0):
                        bad("MuSig leaf of %r spent without the partial signature of one member" % (sub,))
        return {"evaluations": ev, "distinct": distinct, "failures": fails[:10], "samples": samples,
                "bound": "n = %d random keys of mixed parity, every k in 1..n; %s k-subsets spend their CHECKSIGADD leaf (and one signature short "
                         "fails); k >= 2: MuSig leaves spent with an aggregate signature; prevouts preset, no network"
                         % (n, "every" if tier != "quick" else "up to 4 sampled")}
    return run


BOUNDED = ([("rt-contracts", fuzz_job(CONTRACTS))]
           + [("musig-sessions-n%d" % n, _musig_job(n, 2 if n <= 3 else 1, 12 if n <= 3 else 6)) for n in (2, 3, 4, 5)]
           + [("kofn-spends-n%d" % n, _spend_job(n)) for n in (1, 2, 3, 4, 5)])
JOB_TIMEOUT = {"quick": 240, "thorough": 3600}    # the 2-signer sessions with merkle root need ~8 min alone, 3-4x inside the pool
CATEGORY = "other"
TECHNIQUE = ("contract-based deductive verification: pyvc VCs from the real MuSigTapScript source (key aggregation, nonce aggregation, partial signing, "
             "get_signature incl. its self-verification) in the discrete-log theory; the signing identity is decided by zn_ring polynomial normal forms mod n, "
             "one path per combination of key / aggregate / nonce / output-key parities; exhaustive tables for the k-of-n tree generators; bounded sessions and spends")
TRUSTED_BASE = ["pyvc symbolic executor (A-ENGINE)", "z3 5.1", "zn_ring normaliser",
                "discrete-log theory of secp256k1 (A-PRIME; group law is C03)",
                "judge: spec.schnorr.verify (BIP340 verification, verif/specs/schnorr.py); description verif/specs/taproot.py part 2 (A-SPEC)",
                "tagged hashes uninterpreted deterministic functions",
                "inside the MuSig contracts S256Point.parse_xonly(x32(P)) for a point P already on the path is replaced by its proved contract "
                "(C12 contract parse_xonly_of: the even-y point with P's x) -- setup hook PARSE_XONLY_LEMMA in verif/contracts/taproot.py",
                "case split over the outcome of sorted() on the x-only keys (one contract per permutation; A-BUILTIN for sorted / itertools.combinations)",
                "harness verif/harness/taproot.py (musig_flow: the session as the repository's tests run it)"]
ASSUMPTIONS = ["A-ENGINE", "A-SPEC", "A-BUILTIN", "A-PRIME",
               "A-NEGL (spec.taproot.musig_defined_sorted): pairwise different x-only keys, aggregate key / both nonce sums / final nonce not at infinity, "
               "with a merkle root: tweak < n and output key not at infinity",
               "deductive part: n = 2 (quick tier) and n = 3 (thorough tier) signers; n = 4, 5 bounded only",
               "'leaving out or altering a partial signature never yields a valid aggregate': deductively only through get_signature returning ONLY "
               "signatures that pass verify_schnorr (C02: == BIP340 verification); exercised concretely by the bounded sessions",
               "duplicate participant keys are outside the property (sets of keys); MuSigTapScript with one key raises IndexError (property: k >= 2 for MuSig leaves)",
               "tree generators: exhaustive over k for ONE key set per n (the combinatorics do not depend on key values); spends bounded",
               "cecc.py back end not verified", "termination not verified"]
EXPLANATION = ("MuSig: for 2 (quick) and 3 (thorough) signers with symbolic secrets, nonce pairs, message and optional merkle root, the signature returned by "
               "the real key-aggregation / nonce / sign / get_signature code path is a valid BIP340 signature (spec.schnorr.verify) for the aggregate key, "
               "plain or taproot-tweaked, in every parity combination; the aggregate key equals the described coefficient sum and is independent of the order "
               "of the participants. k-of-n: exhaustive tables for all 1 <= k <= n <= 5 that combinations() yields exactly one CHECKSIGADD / MuSig leaf per "
               "k-subset; bounded spends of every leaf through initialize/finalize_p2tr_multisig and Tx.verify_input.")
LEVEL_TEXT = ("Mixed, claimed as 'other'.  Unbounded deductive proof over all secrets, nonces, messages and merkle roots for 2 and 3 signers that the aggregate signature verifies under "
              "BIP340 and that key aggregation is order independent; exhaustive table of the tree generators for (k, n) <= 5; MuSig n = 4, 5, tampering and "
              "leaf spends bounded.")
LEVEL_NOTE = ("assumes the discrete-log model, uninterpreted hashes, A-NEGL, parse_xonly replaced by its proved contract inside the MuSig contracts; "
              "n = 3 only in the thorough tier; the (1, 1) constructor defect found here is repaired (fix: caac338); the symbolic session contracts "
              "assume both nonce sums finite - sessions whose nonce secrets cancel in one slot (AttributeError on the pinned tree, repaired by "
              "fix: e6684ca) and sessions with repeated nonce pairs are decided by run-time contracts only")
