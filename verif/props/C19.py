from verif.pyvc.verifier import REG
from verif.bounded import fuzz_job
import verif.contracts  # noqa

CONTRACTS = [n for n, c in REG.contracts.items() if "C19" in c.props]
TABLES = []
BOUNDED = [("rt-contracts", fuzz_job(CONTRACTS))]
TRUSTED_BASE = ["pyvc symbolic executor (A-ENGINE)", "z3 5.1", "spec functions verif/specs/wire.py (A-SPEC)",
                "CPython built-ins per verif/pyvc/calls.py (A-BUILTIN)", "hashlib digests uninterpreted"]
ASSUMPTIONS = ["A-ENGINE", "A-SPEC", "A-BUILTIN", "termination not verified"]
EXPLANATION = "P2P envelope and fixed-layout message codecs: every path of the real functions against wire-format spec functions."
CATEGORY = "other"
LEVEL_TEXT = ("Deductive: every path of the real envelope/ping/pong/version/getheaders/getcf*/header codecs and of the compact-size, "
              "var-string and fixed-width helpers is checked against independent wire-format spec functions for all field values "
              "(symbolic inputs, z3). Claimed as 'other' rather than 'proof' because one recorded finding (VersionMessage port byte "
              "order) keeps an obligation failing.  List-valued messages: getdata.serialize is proved for every number of entries "
              "(loop invariant over a list of symbolic length, verif/contracts/listmsgs.py); cfcheckpt.parse and cfheaders.parse "
              "(incl. the filter-header chain of the constructor) are proved for every number of entries as well (parsing invariants: "
              "rest of the stream == suffix of the list, parsed items == prefix); headers.parse is proved for 0..3 headers with "
              "symbolic contents and only checked at run time (bounded) for more; "
              "cfilter.parse is proved for its message fields with the Golomb decoder (C18) stubbed out.")
LEVEL_NOTE = "trusted: pyvc translation (A-ENGINE), spec functions (A-SPEC), CPython builtin contracts (A-BUILTIN), hash functions uninterpreted; termination not verified"
