"""C08: BIP32 derivation (public/private consistency, composition), lossless extended keys incl. SLIP-132
versions, xpub blinding."""
import itertools
import random
import time

from verif.pyvc.verifier import REG, jsonable
from verif.bounded import fuzz_job
from verif import rt
import verif.contracts  # noqa
from verif.contracts import hd as CH
import verif.specs as _S

Hs = _S.hd
ALL = [n for n, c in REG.contracts.items() if "C08" in c.props]
# string-level contracts (paths, Base58Check text, blinding) cannot be executed symbolically by pyvc (no symbolic
# strings): they are decided by the bounded jobs below only and are NOT part of the deductive obligation count
STRING_LEVEL = list(CH.STRING_LEVEL)
# arbitrary public-key bytes: bounded only (see the note of the contract)
BOUNDED_ONLY = list(CH.BOUNDED_ONLY)
CONTRACTS = [n for n in ALL if n not in STRING_LEVEL and n not in BOUNDED_ONLY]
TABLES = []

# ---------------------------------------------------------------------------- published vectors (BIP32 test vectors 1-5)
TV = [
    ("000102030405060708090a0b0c0d0e0f", [
        ("m", "xpub661MyMwAqRbcFtXgS5sYJABqqG9YLmC4Q1Rdap9gSE8NqtwybGhePY2gZ29ESFjqJoCu1Rupje8YtGqsefD265TMg7usUDFdp6W1EGMcet8",
         "xprv9s21ZrQH143K3QTDL4LXw2F7HEK3wJUD2nW2nRk4stbPy6cq3jPPqjiChkVvvNKmPGJxWUtg6LnF5kejMRNNU3TGtRBeJgk33yuGBxrMPHi"),
        ("m/0'", "xpub68Gmy5EdvgibQVfPdqkBBCHxA5htiqg55crXYuXoQRKfDBFA1WEjWgP6LHhwBZeNK1VTsfTFUHCdrfp1bgwQ9xv5ski8PX9rL2dZXvgGDnw",
         "xprv9uHRZZhk6KAJC1avXpDAp4MDc3sQKNxDiPvvkX8Br5ngLNv1TxvUxt4cV1rGL5hj6KCesnDYUhd7oWgT11eZG7XnxHrnYeSvkzY7d2bhkJ7"),
        ("m/0'/1", "xpub6ASuArnXKPbfEwhqN6e3mwBcDTgzisQN1wXN9BJcM47sSikHjJf3UFHKkNAWbWMiGj7Wf5uMash7SyYq527Hqck2AxYysAA7xmALppuCkwQ",
         "xprv9wTYmMFdV23N2TdNG573QoEsfRrWKQgWeibmLntzniatZvR9BmLnvSxqu53Kw1UmYPxLgboyZQaXwTCg8MSY3H2EU4pWcQDnRnrVA1xe8fs"),
        ("m/0'/1/2'", "xpub6D4BDPcP2GT577Vvch3R8wDkScZWzQzMMUm3PWbmWvVJrZwQY4VUNgqFJPMM3No2dFDFGTsxxpG5uJh7n7epu4trkrX7x7DogT5Uv6fcLW5",
         "xprv9z4pot5VBttmtdRTWfWQmoH1taj2axGVzFqSb8C9xaxKymcFzXBDptWmT7FwuEzG3ryjH4ktypQSAewRiNMjANTtpgP4mLTj34bhnZX7UiM"),
        ("m/0'/1/2'/2", "xpub6FHa3pjLCk84BayeJxFW2SP4XRrFd1JYnxeLeU8EqN3vDfZmbqBqaGJAyiLjTAwm6ZLRQUMv1ZACTj37sR62cfN7fe5JnJ7dh8zL4fiyLHV",
         "xprvA2JDeKCSNNZky6uBCviVfJSKyQ1mDYahRjijr5idH2WwLsEd4Hsb2Tyh8RfQMuPh7f7RtyzTtdrbdqqsunu5Mm3wDvUAKRHSC34sJ7in334"),
        ("m/0'/1/2'/2/1000000000", "xpub6H1LXWLaKsWFhvm6RVpEL9P4KfRZSW7abD2ttkWP3SSQvnyA8FSVqNTEcYFgJS2UaFcxupHiYkro49S8yGasTvXEYBVPamhGW6cFJodrTHy",
         "xprvA41z7zogVVwxVSgdKUHDy1SKmdb533PjDz7J6N6mV6uS3ze1ai8FHa8kmHScGpWmj4WggLyQjgPie1rFSruoUihUZREPSL39UNdE3BBDu76")]),
    ("fffcf9f6f3f0edeae7e4e1dedbd8d5d2cfccc9c6c3c0bdbab7b4b1aeaba8a5a29f9c999693908d8a8784817e7b7875726f6c696663605d5a5754514e4b484542", [
        ("m", "xpub661MyMwAqRbcFW31YEwpkMuc5THy2PSt5bDMsktWQcFF8syAmRUapSCGu8ED9W6oDMSgv6Zz8idoc4a6mr8BDzTJY47LJhkJ8UB7WEGuduB",
         "xprv9s21ZrQH143K31xYSDQpPDxsXRTUcvj2iNHm5NUtrGiGG5e2DtALGdso3pGz6ssrdK4PFmM8NSpSBHNqPqm55Qn3LqFtT2emdEXVYsCzC2U"),
        ("m/0", "xpub69H7F5d8KSRgmmdJg2KhpAK8SR3DjMwAdkxj3ZuxV27CprR9LgpeyGmXUbC6wb7ERfvrnKZjXoUmmDznezpbZb7ap6r1D3tgFxHmwMkQTPH",
         "xprv9vHkqa6EV4sPZHYqZznhT2NPtPCjKuDKGY38FBWLvgaDx45zo9WQRUT3dKYnjwih2yJD9mkrocEZXo1ex8G81dwSM1fwqWpWkeS3v86pgKt"),
        ("m/0/2147483647'", "xpub6ASAVgeehLbnwdqV6UKMHVzgqAG8Gr6riv3Fxxpj8ksbH9ebxaEyBLZ85ySDhKiLDBrQSARLq1uNRts8RuJiHjaDMBU4Zn9h8LZNnBC5y4a",
         "xprv9wSp6B7kry3Vj9m1zSnLvN3xH8RdsPP1Mh7fAaR7aRLcQMKTR2vidYEeEg2mUCTAwCd6vnxVrcjfy2kRgVsFawNzmjuHc2YmYRmagcEPdU9"),
        ("m/0/2147483647'/1", "xpub6DF8uhdarytz3FWdA8TvFSvvAh8dP3283MY7p2V4SeE2wyWmG5mg5EwVvmdMVCQcoNJxGoWaU9DCWh89LojfZ537wTfunKau47EL2dhHKon",
         "xprv9zFnWC6h2cLgpmSA46vutJzBcfJ8yaJGg8cX1e5StJh45BBciYTRXSd25UEPVuesF9yog62tGAQtHjXajPPdbRCHuWS6T8XA2ECKADdw4Ef"),
        ("m/0/2147483647'/1/2147483646'", "xpub6ERApfZwUNrhLCkDtcHTcxd75RbzS1ed54G1LkBUHQVHQKqhMkhgbmJbZRkrgZw4koxb5JaHWkY4ALHY2grBGRjaDMzQLcgJvLJuZZvRcEL",
         "xprvA1RpRA33e1JQ7ifknakTFpgNXPmW2YvmhqLQYMmrj4xJXXWYpDPS3xz7iAxn8L39njGVyuoseXzU6rcxFLJ8HFsTjSyQbLYnMpCqE2VbFWc"),
        ("m/0/2147483647'/1/2147483646'/2", "xpub6FnCn6nSzZAw5Tw7cgR9bi15UV96gLZhjDstkXXxvCLsUXBGXPdSnLFbdpq8p9HmGsApME5hQTZ3emM2rnY5agb9rXpVGyy3bdW6EEgAtqt",
         "xprvA2nrNbFZABcdryreWet9Ea4LvTJcGsqrMzxHx98MMrotbir7yrKCEXw7nadnHM8Dq38EGfSh6dqA9QWTyefMLEcBYJUuekgW4BYPJcr9E7j")]),
    ("4b381541583be4423346c643850da4b320e46a87ae3d2a4e6da11eba819cd4acba45d239319ac14f863b8d5ab5a0d0c64d2e8a1e7d1457df2e5a3c51c73235be", [
        ("m", "xpub661MyMwAqRbcEZVB4dScxMAdx6d4nFc9nvyvH3v4gJL378CSRZiYmhRoP7mBy6gSPSCYk6SzXPTf3ND1cZAceL7SfJ1Z3GC8vBgp2epUt13",
         "xprv9s21ZrQH143K25QhxbucbDDuQ4naNntJRi4KUfWT7xo4EKsHt2QJDu7KXp1A3u7Bi1j8ph3EGsZ9Xvz9dGuVrtHHs7pXeTzjuxBrCmmhgC6"),
        ("m/0'", "xpub68NZiKmJWnxxS6aaHmn81bvJeTESw724CRDs6HbuccFQN9Ku14VQrADWgqbhhTHBaohPX4CjNLf9fq9MYo6oDaPPLPxSb7gwQN3ih19Zm4Y",
         "xprv9uPDJpEQgRQfDcW7BkF7eTya6RPxXeJCqCJGHuCJ4GiRVLzkTXBAJMu2qaMWPrS7AANYqdq6vcBcBUdJCVVFceUvJFjaPdGZ2y9WACViL4L")]),
    ("3ddd5602285899a946114506157c7997e5444528f3003f6134712147db19b678", [
        ("m", "xpub661MyMwAqRbcGczjuMoRm6dXaLDEhW1u34gKenbeYqAix21mdUKJyuyu5F1rzYGVxyL6tmgBUAEPrEz92mBXjByMRiJdba9wpnN37RLLAXa",
         "xprv9s21ZrQH143K48vGoLGRPxgo2JNkJ3J3fqkirQC2zVdk5Dgd5w14S7fRDyHH4dWNHUgkvsvNDCkvAwcSHNAQwhwgNMgZhLtQC63zxwhQmRv"),
        ("m/0'", "xpub69AUMk3qDBi3uW1sXgjCmVjJ2G6WQoYSnNHyzkmdCHEhSZ4tBok37xfFEqHd2AddP56Tqp4o56AePAgCjYdvpW2PU2jbUPFKsav5ut6Ch1m",
         "xprv9vB7xEWwNp9kh1wQRfCCQMnZUEG21LpbR9NPCNN1dwhiZkjjeGRnaALmPXCX7SgjFTiCTT6bXes17boXtjq3xLpcDjzEuGLQBM5ohqkao9G"),
        ("m/0'/1'", "xpub6BJA1jSqiukeaesWfxe6sNK9CCGaujFFSJLomWHprUL9DePQ4JDkM5d88n49sMGJxrhpjazuXYWdMf17C9T5XnxkopaeS7jGk1GyyVziaMt",
         "xprv9xJocDuwtYCMNAo3Zw76WENQeAS6WGXQ55RCy7tDJ8oALr4FWkuVoHJeHVAcAqiZLE7Je3vZJHxspZdFHfnBEjHqU5hG1Jaj32dVoS6XLT1")]),
]
TV_VALID = [s for _seed, rows in TV for (_p, xpub, xprv) in rows for s in (xpub, xprv)]
# test vector 5: extended keys every implementation must refuse
TV5 = [
    ("xpub661MyMwAqRbcEYS8w7XLSVeEsBXy79zSzH1J8vCdxAZningWLdN3zgtU6LBpB85b3D2yc8sfvZU521AAwdZafEz7mnzBBsz4wKY5fTtTQBm", "pubkey version / prvkey mismatch"),
    ("xprv9s21ZrQH143K24Mfq5zL5MhWK9hUhhGbd45hLXo2Pq2oqzMMo63oStZzFGTQQD3dC4H2D5GBj7vWvSQaaBv5cxi9gafk7NF3pnBju6dwKvH", "prvkey version / pubkey mismatch"),
    ("xpub661MyMwAqRbcEYS8w7XLSVeEsBXy79zSzH1J8vCdxAZningWLdN3zgtU6Txnt3siSujt9RCVYsx4qHZGc62TG4McvMGcAUjeuwZdduYEvFn", "invalid pubkey prefix 04"),
    ("xprv9s21ZrQH143K24Mfq5zL5MhWK9hUhhGbd45hLXo2Pq2oqzMMo63oStZzFGpWnsj83BHtEy5Zt8CcDr1UiRXuWCmTQLxEK9vbz5gPstX92JQ", "invalid prvkey prefix 04"),
    ("xpub661MyMwAqRbcEYS8w7XLSVeEsBXy79zSzH1J8vCdxAZningWLdN3zgtU6N8ZMMXctdiCjxTNq964yKkwrkBJJwpzZS4HS2fxvyYUA4q2Xe4", "invalid pubkey prefix 01"),
    ("xprv9s21ZrQH143K24Mfq5zL5MhWK9hUhhGbd45hLXo2Pq2oqzMMo63oStZzFAzHGBP2UuGCqWLTAPLcMtD9y5gkZ6Eq3Rjuahrv17fEQ3Qen6J", "invalid prvkey prefix 01"),
    ("xprv9s2SPatNQ9Vc6GTbVMFPFo7jsaZySyzk7L8n2uqKXJen3KUmvQNTuLh3fhZMBoG3G4ZW1N2kZuHEPY53qmbZzCHshoQnNf4GvELZfqTUrcv", "zero depth with non-zero parent fingerprint"),
    ("xpub661no6RGEX3uJkY4bNnPcw4URcQTrSibUZ4NqJEw5eBkv7ovTwgiT91XX27VbEXGENhYRCf7hyEbWrR3FewATdCEebj6znwMfQkhRYHRLpJ", "zero depth with non-zero parent fingerprint"),
    ("xprv9s21ZrQH4r4TsiLvyLXqM9P7k1K3EYhA1kkD6xuquB5i39AU8KF42acDyL3qsDbU9NmZn6MsGSUYZEsuoePmjzsB3eFKSUEh3Gu1N3cqVUN", "zero depth with non-zero index"),
    ("xpub661MyMwAuDcm6CRQ5N4qiHKrJ39Xe1R1NyfouMKTTWcguwVcfrZJaNvhpebzGerh7gucBvzEQWRugZDuDXjNDRmXzSZe4c7mnTK97pTvGS8", "zero depth with non-zero index"),
    ("DMwo58pR1QLEFihHiXPVykYB6fJmsTeHvyTp7hRThAtCX8CvYzgPcn8XnmdfHGMQzT7ayAmfo4z3gY5KfbrZWZ6St24UVf2Qgo6oujFktLHdHY4", "unknown extended key version"),
    ("DMwo58pR1QLEFihHiXPVykYB6fJmsTeHvyTp7hRThAtCX8CvYzgPcn8XnmdfHPmHJiEDXkTiJTVV9rHEBUem2mwVbbNfvT2MTcAqj3nesx8uBf9", "unknown extended key version"),
    ("xprv9s21ZrQH143K24Mfq5zL5MhWK9hUhhGbd45hLXo2Pq2oqzMMo63oStZzF93Y5wvzdUayhgkkFoicQZcP3y52uPPxFnfoLZB21Teqt1VvEHx", "private key 0 not in 1..n-1"),
    ("xprv9s21ZrQH143K24Mfq5zL5MhWK9hUhhGbd45hLXo2Pq2oqzMMo63oStZzFAzHGBP2UuGCqWLTAPLcMtD5SDKr24z3aiUvKr9bJpdrcLg1y3G", "private key n not in 1..n-1"),
    ("xpub661MyMwAqRbcEYS8w7XLSVeEsBXy79zSzH1J8vCdxAZningWLdN3zgtU6Q5JXayek4PRsn35jii4veMimro1xefsM58PgBMrvdYre8QyULY", "invalid pubkey 020000000000000000000000000000000000000000000000000000000000000007"),
    ("xprv9s21ZrQH143K3QTDL4LXw2F7HEK3wJUD2nW2nRk4stbPy6cq3jPPqjiChkVvvNKmPGJxWUtg6LnF5kejMRNNU3TGtRBeJgk33yuGBxrMPHL", "invalid checksum"),
]


def bip32_vectors(seed, tier):
    """BIP32 test vectors 1-4 through the real API and through the spec; test vector 5 must be refused by both"""
    from buidl.hd import HDPrivateKey, HDPublicKey
    ev, fails, samples, notes = 0, [], [], []
    for seedhex, rows in TV:
        sd = bytes.fromhex(seedhex)
        root = HDPrivateKey.from_seed(sd)
        for path, xpub, xprv in rows:
            ev += 1
            idx = Hs.path_indices(path)
            k, c, depth, fp, num = Hs.derive_priv(Hs.master(sd), idx)
            s_prv = Hs.b58_xkey(Hs.xprv_ser(Hs.version_prv("x"), depth, fp, num, c, k))
            s_pub = Hs.b58_xkey(Hs.xpub_ser(Hs.version_pub("x"), depth, fp, num, c, _S.curve.mul_G(k)))
            bad = []
            if (s_prv, s_pub) != (xprv, xpub):
                bad.append("spec differs from the published vector")
            try:
                node = root.traverse(path)
                if node.xprv() != xprv or node.xpub() != xpub:
                    bad.append("from_seed(seed).traverse(path) differs from the published vector")
                if HDPrivateKey.parse(xprv).xprv() != xprv or HDPublicKey.parse(xpub).xpub() != xpub or HDPrivateKey.parse(xprv).xpub() != xpub:
                    bad.append("parse/serialise of the published strings is not the identity")
                if Hs.path_is_public(path) and root.pub.traverse(path).xpub() != xpub:
                    bad.append("public traverse differs from the published vector")
            except Exception as e:
                bad.append("real code raised %r" % (e,))
            if bad:
                fails.append({"what": "BIP32 vector seed %s.. path %s: %s" % (seedhex[:8], path, "; ".join(bad)),
                              "inputs": {"seed": seedhex, "path": path}, "violated": bad})
            if len(samples) < 2:
                samples.append({"seed": seedhex[:16], "path": path, "xpub": xpub[:20]})
    for s_, why in TV5:
        ev += 1
        if Hs.xkey_text_decode(s_) is not None:       # tooling: the spec itself must follow the BIP
            fails.append({"what": "spec accepts the invalid key of BIP32 test vector 5 (%s)" % why, "inputs": {"xkey": s_}, "violated": ["spec"]})
        # refusing malformed extended keys is beyond the statement of C08 (its inputs are keys the library produced): reported as notes
        for cls in (HDPrivateKey, HDPublicKey):
            try:
                cls.parse(s_)
                notes.append({"accepted_invalid_xkey": s_, "by": cls.__name__ + ".parse", "bip32_test_vector_5": why})
            except Exception:
                pass
    return {"evaluations": ev, "distinct": ev, "failures": fails, "samples": samples, "notes": notes,
            "bound": "the %d derivations of BIP32 test vectors 1-4 (failures) and the %d invalid keys of test vector 5 (spec must refuse; real code: notes)" % (sum(len(r) for _, r in TV), len(TV5))}


# ---------------------------------------------------------------------------- generic runner with its own budget
def run_named(names, seed, tier, budget_s, per_contract, bound):
    rng = random.Random(seed * 9176 + 5)
    evals, distinct, failures, samples, per = 0, set(), [], [], {}
    t_share = budget_s / max(1, len(names))
    for nm in names:
        c = REG.contracts[nm]
        t1 = time.time()
        k = 0
        for inputs in c.gen(rng, tier):
            if k >= per_contract or time.time() - t1 > t_share:
                break
            k += 1
            try:
                r = rt.run_concrete(c, inputs)
            except Exception as e:      # harness problem, not a verdict
                r = {"status": "error", "why": repr(e)}
            if r["status"] == "pre-false":
                continue
            evals += 1
            distinct.add((nm, repr(sorted(inputs.items(), key=lambda kv: kv[0]))[:300]))
            if len(samples) < 3 and k % 9 == 1:
                samples.append({"contract": nm, "inputs": jsonable(inputs), "outcome": r.get("outcome")})
            if r["status"] == "violated":
                key = (nm, tuple(v.split("  [")[0] for v in r["violated"]))
                per[key] = per.get(key, 0) + 1
                if per[key] <= 2:       # two witnesses per (contract, violated clause set)
                    failures.append({"contract": nm, "inputs": jsonable(inputs), "violated": r["violated"],
                                     "what": "%s violates: %s" % (nm, "; ".join(r["violated"])[:300])})
    return {"evaluations": evals, "distinct": len(distinct), "failures": failures[:40], "samples": samples, "bound": bound}


def _job(names, quick_s, thorough_s, n_quick, n_thorough, bound):
    def run(seed, tier):
        q = tier == "quick"
        return run_named(names, seed, tier, quick_s if q else thorough_s, n_quick if q else n_thorough, bound)
    return run


H_ = "verif.harness.hd."
DERIVE = [n for n in CONTRACTS if any(t in n for t in ("child", "consistency", "from_seed", "fingerprint"))]
CODEC = [n for n in CONTRACTS if n not in DERIVE] + BOUNDED_ONLY


def path_algebra(seed, tier):
    """combine_bip32_paths is associative with identity 'm'; ltrim_path undoes it; is_valid_bip32_path agrees with
    what traverse accepts -- over all paths of depth <= 2 on the boundary alphabet and seeded deeper ones"""
    from buidl.blinding import combine_bip32_paths
    from buidl.hd import ltrim_path, is_valid_bip32_path, HDPrivateKey
    rng = random.Random(seed * 31 + 7)
    paths = [p for p in CH._enum_paths(False) if Hs.path_valid(p)]
    paths = paths[:: (4 if tier == "quick" else 1)] + [CH._valid_path(rng, rng.randrange(0, 9)) for _ in range(40 if tier == "quick" else 400)]
    ev, fails, notes = 0, [], []

    def note(what, inputs, clause):
        if sum(1 for f in fails if f["violated"] == [clause]) < 2:
            fails.append({"what": what, "inputs": inputs, "violated": [clause]})

    def beyond(what, inputs, clause):
        """behaviour on strings outside the property's quantifier: recorded, never a failure"""
        if sum(1 for f in notes if f["clause"] == clause) < 3:
            notes.append({"what": what, "inputs": inputs, "clause": clause})
    root = HDPrivateKey.from_seed(bytes(range(16)))
    for a in paths:
        ev += 1
        try:
            if Hs.path_indices(combine_bip32_paths(a, "m")) != Hs.path_indices(a) or Hs.path_indices(combine_bip32_paths("m", a)) != Hs.path_indices(a):
                note("'m' is not an identity of combine_bip32_paths for %r" % a, {"a": a}, "identity")
        except Exception as e:
            note("combine_bip32_paths(%r, 'm') raised %r" % (a, e), {"a": a}, "identity")
        b, c = rng.choice(paths), rng.choice(paths)
        if len(Hs.path_indices(a)) + len(Hs.path_indices(b)) + len(Hs.path_indices(c)) > 255:
            continue
        try:
            l = combine_bip32_paths(combine_bip32_paths(a, b), c)
            r = combine_bip32_paths(a, combine_bip32_paths(b, c))
            if l != r:
                note("combine_bip32_paths not associative on %r %r %r: %r vs %r" % (a, b, c, l, r), {"a": a, "b": b, "c": c}, "associativity")
            ab = combine_bip32_paths(a, b)
            n = len(Hs.path_indices(a))
            t = ltrim_path(ab, n)
            if Hs.path_indices(t) != Hs.path_indices(b) and len(Hs.path_indices(b)) == 0:
                beyond("ltrim_path(%r, %d) = %r is not a path (expected 'm')" % (ab, n, t), {"a": a, "b": b}, "ltrim of every level gives 'm'")
            elif Hs.path_indices(t) != Hs.path_indices(b):
                note("ltrim_path(combine(a, b), depth(a)) = %r is not b for a=%r b=%r" % (t, a, b), {"a": a, "b": b}, "ltrim(combine(a,b), |a|) == b")
        except Exception as e:
            note("path algebra raised %r on %r %r %r" % (e, a, b, c), {"a": a, "b": b, "c": c}, "no exception on valid paths")
    # is_valid_bip32_path against what traverse really accepts
    for _ in range(150 if tier == "quick" else 2000):
        p = CH._malformed(rng) if rng.random() < 0.7 else CH._valid_path(rng, rng.randrange(0, 4))
        ev += 1
        v = is_valid_bip32_path(p)
        try:
            root.traverse(p)
            ok = True
        except Exception:
            ok = False
        if v and not ok:
            beyond("is_valid_bip32_path(%r) is True but HDPrivateKey.traverse(%r) raises" % (p, p), {"path": p}, "valid => traversable")
        if ok and not v and Hs.path_indices(p) is None:
            beyond("HDPrivateKey.traverse(%r) succeeds on a string that neither BIP32 notation nor is_valid_bip32_path accepts" % p, {"path": p}, "traversable => valid")
    return {"evaluations": ev, "distinct": ev, "failures": fails, "notes": notes, "samples": [{"path": paths[0]}, {"path": paths[-1]}],
            "bound": "valid paths of depth <= 2 over {0,1,2^31-1} x {'',',h,H} x {m,M} plus seeded paths of depth <= 8; seeded malformed strings"}


def beyond_property_notes(seed, tier):
    """Behaviour outside the statement of C08 (malformed text, non-path strings, helper edge cases): compared with the
    stricter reading of BIP32 / SLIP-132 and reported as `notes`; never a failure (see notes/C08.md, 'Beyond the property')."""
    from buidl.hd import HDPrivateKey, HDPublicKey, is_valid_bip32_path, ltrim_path
    from buidl.blinding import combine_bip32_paths
    rng = random.Random(seed * 131 + 3)
    ev, notes, counts = 0, [], {}

    def rec(kind, detail):
        counts[kind] = counts.get(kind, 0) + 1
        if counts[kind] <= 3:
            notes.append(dict(detail, kind=kind))
    root = HDPrivateKey.from_seed(bytes(range(16)))
    # F1: depth 0 with a parent fingerprint / child number
    for private in (True, False):
        good, bad = CH._valid_raws(rng, private)
        for raw in bad + good:
            ev += 1
            why = Hs.xkey_reject_reason(raw)
            cls = HDPrivateKey if private else HDPublicKey
            try:
                cls.parse(Hs.b58_xkey(raw))
                if why is not None:
                    rec("F1 malformed extended key accepted", {"by": cls.__name__ + ".parse", "payload": raw.hex(), "bip32_reason": why})
            except Exception:
                pass
    # F6: public version after importing a private key
    for (L, vprv, vpub) in CH._slip_pairs():
        ev += 1
        n = HDPrivateKey.from_seed(bytes(range(16)), network="mainnet" if L in Hs.MAINNET_LETTERS else "testnet", priv_version=vprv, pub_version=vpub)
        back = HDPrivateKey.parse(n.xprv())
        if back.xpub() != n.xpub():
            rec("F6 SLIP-132 public version not recovered from a private import", {"letter": L, "node_xpub": n.xpub()[:8], "parsed_xpub": back.xpub()[:8]})
    # F3 / F4: strings that are not BIP32 paths
    for _ in range(300 if tier == "quick" else 3000):
        p = CH._malformed(rng)
        if Hs.path_indices(p) is not None:
            continue
        ev += 1
        try:
            node = root.traverse(p)
            rec("F3 HDPrivateKey.traverse takes a non-path", {"path": p, "child_number": node.child_number, "depth": node.depth})
        except Exception:
            pass
        try:
            node = root.pub.traverse(p)
            rec("F3 HDPublicKey.traverse takes a non-path", {"path": p, "child_number": node.child_number, "depth": node.depth})
        except Exception:
            pass
        if is_valid_bip32_path(p):
            rec("F4 is_valid_bip32_path is True for a non-path", {"path": p})
            try:
                rec("F4 combine_bip32_paths takes a non-path", {"first": p, "second": "m/1", "result": combine_bip32_paths(p, "m/1")})
            except Exception:
                pass
    for p_, d_ in (("m/-1'", None), ("m/2147483648", None), ("m44'", None), ("m/+1", None), ("m/1_0", None)):
        ev += 1
        try:
            node = root.traverse(p_)
            rec("F3 HDPrivateKey.traverse takes a non-path", {"path": p_, "child_number": node.child_number, "depth": node.depth})
        except Exception:
            pass
    # F5: ltrim_path edge cases
    for path, depth in (("m", 0), ("m/1", 1), ("m/1/2h", 2), ("m/0/1", -1)):
        ev += 1
        try:
            t = ltrim_path(path, depth)
            if Hs.path_indices(t) is None:
                rec("F5 ltrim_path returns a non-path", {"path": path, "depth": depth, "result": t})
        except Exception:
            pass
    return {"evaluations": ev, "distinct": ev, "failures": [], "notes": notes, "note_counts": counts, "samples": notes[:2],
            "bound": "constructed malformed extended keys (test-vector-5 style), seeded malformed path strings, ltrim_path edge cases: notes only"}


BOUNDED = [
    ("rt-contracts", fuzz_job(CONTRACTS)),
    ("rt-derivation", _job(DERIVE, 35, 240, 60, 1500, "boundary secrets/chain codes/depths x indices 0,1,2,2^31-2,2^31-1,2^31,2^31+1,2^32-2,2^32-1 then seeded random")),
    ("rt-codec", _job(CODEC, 30, 240, 150, 3000, "all 20 SLIP-132 versions x depth 0/1/255 x boundary child numbers; BIP32 test-vector-5 style malformed payloads; seeded mutations")),
    ("rt-text", _job([H_ + "xprv_roundtrip", H_ + "parse_text"], 35, 240, 120, 3000,
                     "10 SLIP-132 letters (20 prefixes) x networks of the family x depth 0/1/255: xprv()/xpub() -> parse -> same node; test vector 5 and constructed malformed keys")),
    ("rt-paths", _job([H_ + "traverse_priv", H_ + "traverse_pub", H_ + "traverse_split"], 75, 400, 400, 20000,
                      "every path of depth <= 2 over {0,1,2^31-1,2^31,2^32-1} x {'',',h,H} x {m,M}; seeded valid paths of depth 3..8; malformed strings; traverse(a+b) == traverse(a).traverse(b) for depth(a),depth(b) <= 4")),
    ("rt-blinding", _job([H_ + "blind", "buidl.blinding.combine_bip32_paths", "buidl.hd.ltrim_path", "buidl.hd.is_valid_bip32_path"], 40, 240, 400, 20000,
                         "starting paths x secret paths of depth <= 4 in all notations x 5 SLIP-132 versions; path predicates over enumerated and malformed strings")),
    ("path-algebra", path_algebra),
    ("bip32_vectors", bip32_vectors),
    ("beyond-property-notes", beyond_property_notes),
]
JOB_TIMEOUT = {"quick": 240, "thorough": 1500}
CATEGORY = "other"
TECHNIQUE = ("contract-based deductive verification: pyvc VCs from the real hd.py source (constructors, child, raw_serialize/_serialize, raw_parse "
             "run symbolically through harness compositions) in the discrete-log theory of secp256k1 (z3 + zn_ring), HMAC-SHA512/HASH160 "
             "uninterpreted; string-level functions (traverse, xprv/xpub text, blind_xpub, path predicates) by bounded run-time contract checking "
             "against the independent spec, enumerated boundary paths and the BIP32 test vectors 1-5")
TRUSTED_BASE = ["pyvc symbolic executor (A-ENGINE)", "z3 5.1", "zn_ring normaliser (verif/pyvc/zn.py)",
                "discrete-log theory of secp256k1 (A-PRIME; that Point.__add__/__rmul__ implement the group is property C03)",
                "Euler criterion for the (P+1)/4 square root in S256Point.parse (Lean lemma, verif/lean)",
                "spec verif/specs/hd.py (BIP32, SLIP-132; validated against BIP32 test vectors 1-5), verif/specs/curve.py, verif/specs/text.py (Base58Check)",
                "HMAC-SHA512, SHA256, RIPEMD160 uninterpreted deterministic functions",
                "lemma contract verif.specs.hd.ser_hardened_key: k.to_bytes(33) == 0x00 || ser256(k) (proved)",
                "harness verif/harness/hd.py (straight-line compositions of the real API)"]
ASSUMPTIONS = ["A-ENGINE", "A-SPEC", "A-BUILTIN", "A-PRIME (discrete-log model of the curve)",
               "A-NEGL: derivations with parse256(I_L) >= n, child key 0 / child point at infinity, master I_L == 0 or >= n are excluded through "
               "spec.hd.master_defined / ckd_priv_defined / ckd_pub_defined (probability < 2^-127 each, not constructible); the code does not "
               "implement BIP32's 'proceed with the next index' rule for them",
               "string-level behaviour (traverse, Base58Check text of extended keys, blind_xpub, combine_bip32_paths, ltrim_path, is_valid_bip32_path) "
               "is checked by bounded companions only: pyvc has no symbolic strings; Base58Check itself is property C09",
               "HDPublicKey._raw memo: proved from the constructor state (_raw is None); the fields of a node are never assigned after construction",
               "network of a parsed testnet-family key is 'testnet' (SLIP-132 versions do not distinguish testnet/signet/regtest)",
               "cecc.py (libsecp256k1 FFI back end) is not verified", "termination not verified"]
EXPLANATION = ("BIP32: HDPrivateKey.child(i) == CKDpriv for every secret, chain code, depth, parent fingerprint, child number and every index in "
               "[0, 2^31) and [2^31, 2^32) (data layout, (I_L + k) mod n, chain code I_R, depth + 1, fingerprint HASH160(serP(K))[:4], child number), "
               "raises outside [0, 2^32); HDPublicKey.child(i) == CKDpub for i < 2^31 and raises ValueError for every i >= 2^31 or < 0; "
               "priv.child(i).pub and pub.child(i) are the same node for every non-hardened i (one and two levels); from_seed == master key generation; "
               "raw_serialize/_serialize == the 78-byte layout for every field value and version, raise exactly for depth outside 0..255 / child number "
               "outside 32 bits; raw_parse of the serialisation returns every field for all 20 SLIP-132 versions. Bounded: path strings (traverse == fold "
               "of child over the parsed indices, traverse(a+b) == traverse(a).traverse(b)), text round trips for 20 prefixes x networks, blind_xpub == key "
               "at the combined path, path predicates, BIP32 test vectors 1-5.")
LEVEL_TEXT = ("Mixed, therefore claimed as 'other': unbounded deductive proof over all secrets/points, chain codes, depths, fingerprints, child numbers, indices and version bytes that child "
              "derivation (private and public), their consistency, master key generation and the 78-byte codec equal the independent BIP32/SLIP-132 spec, "
              "in the discrete-log model of the curve; string-level clauses (paths, Base58 text, blinding) bounded only.")
LEVEL_NOTE = ("assumes the discrete-log model (group law is C03), uninterpreted hashes, A-NEGL for invalid derivations; traverse/xprv()/parse()/blind_xpub "
              "string handling is bounded (enumerated depth <= 2 alphabets, seeded depth <= 8), not proved; cecc unverified")
