"""C20: BCUR / bc32 / CBOR air-gap transport reassembles exactly or fails loudly."""
import itertools
import random
import time

from verif.pyvc.verifier import REG, jsonable
from verif.bounded import fuzz_job
import verif.contracts  # noqa
import verif.specs as _S
from verif.contracts.common import rand_bytes
from verif.contracts import bcur as CB
from .C09 import run_cases, direct, category_job

T = _S.text
CONTRACTS = [n for n, c in REG.contracts.items() if "C20" in c.props]
HB = "verif.harness.bcur."


# ------------------------------------------------------------------------------------------- boundaries
def boundaries(seed, tier):
    """every codec layer across the CBOR head boundaries 23/24, 255/256, 65535/65536 (and 70000)"""
    rng = random.Random(seed * 104729 + 1)
    k = 1 if tier == "quick" else 4

    def cases():
        for n in CB.CBOR_EDGES:
            for _ in range(k):
                p = rand_bytes(rng, n)
                yield "buidl.bech32.cbor_encode", {"data": p}
                yield HB + "cbor_rt", {"d": p}
                yield "buidl.bech32.cbor_decode#rfc", {"d": p}
                yield HB + "bc32_rt", {"d": p}
                yield "buidl.bech32.bc32encode", {"data": p}
                yield "buidl.bcur.bcur_encode", {"data": p}
                yield HB + "bcur_rt", {"payload": p}
                yield HB + "single_encode", {"payload": p, "use_checksum": True}
                yield HB + "single_parse", {"payload": p, "use_checksum": True}
                yield HB + "single_parse", {"payload": p, "use_checksum": False}
                for m in ((300, 2000, 57) if n < 60000 else (2000,)):
                    yield HB + "multi_encode_full", {"payload": p, "max_size_per_chunk": m}
                    yield HB + "multi_roundtrip", {"payload": p, "max_size_per_chunk": m}
    return run_cases(cases(), "payload lengths %s x %d seeded payloads through cbor, bc32, bcur single and multi (chunk sizes 57, 300, 2000): "
                     "encodings == RFC 8949 / bc32 / UR spec and every decoder inverts its encoder" % (list(CB.CBOR_EDGES), k))


def every_length_small(seed, tier):
    """all payload lengths 0..N: cbor / bc32 / bcur round trips (bit-regrouping has period 5 bytes, heads change at 24 and 256)"""
    rng = random.Random(seed * 104729 + 2)
    top = 300 if tier == "quick" else 1200

    def cases():
        for n in range(0, top + 1):
            p = rand_bytes(rng, n)
            yield HB + "cbor_rt", {"d": p}
            yield HB + "bc32_rt", {"d": p}
            yield "buidl.bech32.bc32encode", {"data": p}
            yield HB + "bcur_rt", {"payload": p}
            yield HB + "cb_rt#len1", {"d": p}
    return run_cases(cases(), "every payload length 0..%d (one seeded payload each): cbor, convertbits 8->5->8, bc32 and bcur round trips, bc32 text == spec" % top)


# ------------------------------------------------------------------------------------------- chunking
def every_chunk_size(seed, tier):
    """BCURMulti.encode for EVERY max_size_per_chunk 1..2000 on sampled payloads: chunk count, numbering, non-empty pieces,
    concatenation == the single encoding; parse(encode) == payload on a sub-grid of sizes"""
    from binascii import a2b_base64, b2a_base64
    from buidl.bcur import BCURMulti
    rng = random.Random(seed * 104729 + 3)
    sizes = (0, 1, 23, 24, 100, 255, 256, 1300) if tier == "quick" else (0, 1, 2, 23, 24, 25, 100, 255, 256, 257, 700, 1300, 3000, 5000)
    evals = 0
    failures, samples = [], []
    for n in sizes:
        payload = rand_bytes(rng, n)
        o = BCURMulti(text_b64=b2a_base64(payload).strip().decode())
        want_enc, want_digest = T.ur_bytes_encode(payload)
        if (o.encoded, o.enc_hash) != (want_enc, want_digest):
            failures.append({"what": "BCURMulti single encoding differs from the UR spec", "inputs": {"payload": payload.hex()},
                             "violated": ["(encoded, enc_hash) == spec.text.ur_bytes_encode(payload)"]})
        for m in range(1, 2001):
            evals += 1
            try:
                parts = o.encode(max_size_per_chunk=m)
                problem = T.ur_parts_problem(parts, o.encoded, o.enc_hash, m)
            except Exception as e:
                parts, problem = None, "raised %r" % (e,)
            if problem is not None:
                failures.append({"what": "BCURMulti.encode chunking: " + problem, "inputs": {"payload": payload.hex(), "max_size_per_chunk": m},
                                 "violated": ["spec.text.ur_parts_problem(parts, encoded, digest, max_size) is None"]})
                continue
            if m <= 40 or m % 41 == 0 or m in (len(o.encoded) - 1, len(o.encoded), len(o.encoded) + 1) or tier != "quick" and m % 7 == 0:
                evals += 1
                try:
                    back = a2b_base64(BCURMulti.parse(parts).text_b64)
                except Exception as e:
                    back = "raised %r" % (e,)
                if back != payload:
                    failures.append({"what": "BCURMulti.parse(encode(payload, %d)) != payload" % m, "inputs": {"payload": payload.hex(), "max_size_per_chunk": m},
                                     "violated": ["parse(encode(p)) == p; got %r" % (back if isinstance(back, str) else back.hex()[:40],)]})
        samples.append({"payload_len": n, "encoded_len": len(o.encoded), "chunk_sizes": "1..2000"})
    return direct(evals, evals, failures, samples,
                  "payload lengths %s x EVERY max_size_per_chunk 1..2000: number of parts == ceil(len/size), parts numbered i-of-n with the digest, no empty piece, "
                  "no piece above the limit, concatenation == the single bc32 encoding; parse(encode()) == payload for sizes <= 40, every 41st (thorough: 7th) and around len(encoded)"
                  % (list(sizes),))


# ------------------------------------------------------------------------------------------- tampering with part sets
def _sets(rng, tier):
    """(payload, parts) with 1..5 parts"""
    from verif.harness.bcur import multi_encode
    out = []
    for n_parts in (1, 2, 3, 4, 5):
        for _ in range(2 if tier == "quick" else 4):
            payload = rand_bytes(rng, rng.choice([0, 3, 24, 60, 150]) if n_parts == 1 else rng.randrange(20 * n_parts, 60 * n_parts))
            L = len(T.ur_bytes_encode(payload)[0])
            m = max(1, (L + n_parts - 1) // n_parts)
            parts = multi_encode(payload, m)
            if len(parts) == n_parts:
                out.append((payload, parts))
    return out


def part_set_tampering(seed, tier):
    """every reordering, omission and duplication of <= 5-part sets, and foreign parts (own header / forged header):
    BCURMulti.parse rejects, or returns exactly the original payload"""
    from verif.harness.bcur import multi_encode, multi_accepts
    rng = random.Random(seed * 104729 + 4)
    evals = 0
    accepted_exact = 0
    failures, samples = [], []
    strict_dev = []

    def check(payload, parts, how):
        nonlocal evals, accepted_exact
        evals += 1
        got = multi_accepts(parts)
        if got is not None and got != payload:
            failures.append({"contract": HB + "multi_accepts", "what": "BCURMulti.parse returned a DIFFERENT payload for %s" % how,
                             "inputs": {"parts": list(parts), "payload": payload.hex()}, "violated": ["result is None or result == payload"]})
        if got is not None:
            accepted_exact += 1
            if T.ur_parts_payload(parts) is None and len(strict_dev) < 3:
                strict_dev.append({"how": how, "parts": [p[:40] + "..." for p in parts]})

    for payload, parts in _sets(rng, tier):
        n = len(parts)
        # every ordering of every non-empty sub-multiset obtained by omission (all subsets x all permutations)
        for r in range(1, n + 1):
            for sub in itertools.combinations(range(n), r):
                for perm in itertools.permutations(sub):
                    if perm == tuple(range(n)):
                        continue
                    check(payload, [parts[i] for i in perm], "subset/permutation %r of %d parts" % (perm, n))
        check(payload, [], "empty list")
        # duplications: part i repeated (adjacent, at the end, replacing j)
        for i in range(n):
            check(payload, parts[:i + 1] + [parts[i]] + parts[i + 1:], "part %d duplicated in place" % (i + 1))
            check(payload, parts + [parts[i]], "part %d appended again" % (i + 1))
            for j in range(n):
                if j != i:
                    q = list(parts)
                    q[j] = parts[i]
                    check(payload, q, "part %d replaced by a copy of part %d" % (j + 1, i + 1))
        # foreign parts: another payload cut into the same number of parts
        other = rand_bytes(rng, len(payload)) if payload else b"x"
        L = len(T.ur_bytes_encode(other)[0])
        oparts = multi_encode(other, max(1, (L + n - 1) // n))
        if len(oparts) == n and other != payload:
            for i in range(n):
                q = list(parts)
                q[i] = oparts[i]
                if n > 1:          # with n == 1 the "foreign part" is a complete valid set of the other payload
                    check(payload, q, "part %d taken from another payload (its own digest)" % (i + 1))
                f = T.ur_part_fields(parts[i])
                g = T.ur_part_fields(oparts[i])
                q[i] = T.ur_part(f[0], f[1], f[2], g[3])
                check(payload, q, "part %d carries a piece of another payload under the original digest" % (i + 1))
            # all parts foreign but with the original digest
            check(payload, [T.ur_part(T.ur_part_fields(p)[0], n, T.ur_part_fields(parts[0])[2], T.ur_part_fields(p)[3]) for p in oparts],
                  "all pieces from another payload under the original digest")
        # header edits: wrong total, shifted numbering
        for y in (n + 1, n - 1, 0, 99):
            q = [T.ur_part(T.ur_part_fields(p)[0], y, T.ur_part_fields(p)[2], T.ur_part_fields(p)[3]) for p in parts]
            check(payload, q, "all parts relabelled 'of %d'" % y)
        q = [T.ur_part(T.ur_part_fields(p)[0] + 1, n + 1, T.ur_part_fields(p)[2], T.ur_part_fields(p)[3]) for p in parts]
        check(payload, q, "numbering shifted by one")
        samples.append({"parts": n, "payload_len": len(payload)})
    return direct(evals, evals, failures, samples,
                  "part sets of 1..5 parts: ALL permutations of ALL non-empty subsets (reordered / missing), the empty list, every duplication (in place, appended, "
                  "replacing another part), every single foreign part (with its own digest and with a forged header), all-foreign pieces under the original digest, "
                  "relabelled totals and shifted numbering; %d tampered lists were accepted and all of those returned exactly the original payload; lists accepted although "
                  "not the complete set 1..n of n (strict bcr-2020-005 reading): %s" % (accepted_exact, strict_dev or "none"))


def part_substitutions(seed, tier):
    """every single-character substitution in every part of sampled part sets (header, digest and piece): rejected or exact"""
    from verif.harness.bcur import multi_accepts, single_accepts, single_encode
    rng = random.Random(seed * 104729 + 5)
    evals = 0
    failures, samples = [], []
    alphabet = T.CHARSET + "1b/ oQ"
    sets = [s for s in _sets(rng, "quick") if len(s[1]) in ((1, 3) if tier == "quick" else (1, 2, 3, 4, 5))]
    acc = 0
    for payload, parts in sets:
        for pi, part in enumerate(parts):
            for i in range(len(part)):
                for ch in alphabet:
                    if ch == part[i]:
                        continue
                    q = list(parts)
                    q[pi] = part[:i] + ch + part[i + 1:]
                    evals += 1
                    got = multi_accepts(q)
                    if got is not None:
                        acc += 1
                    if got is not None and got != payload:
                        failures.append({"contract": HB + "multi_accepts", "what": "BCURMulti.parse returned a different payload after one substituted character",
                                         "inputs": {"parts": q, "payload": payload.hex()}, "violated": ["result is None or result == payload"]})
        samples.append({"parts": len(parts), "chars": sum(len(p) for p in parts)})
    # single-part strings, with and without the digest
    for use in (True, False):
        payload = rand_bytes(rng, 40)
        s = single_encode(payload, use)
        for i in range(len(s)):
            for ch in alphabet:
                if ch == s[i]:
                    continue
                evals += 1
                got = single_accepts(s[:i] + ch + s[i + 1:])
                if got is not None:
                    acc += 1
                if got is not None and got != payload:
                    failures.append({"contract": HB + "single_accepts", "what": "BCURSingle.parse returned a different payload after one substituted character",
                                     "inputs": {"s": s[:i] + ch + s[i + 1:], "payload": payload.hex()}, "violated": ["result is None or result == payload"]})
    return direct(evals, evals, failures, samples,
                  "%d part sets + 2 single-part strings: every position of every part x every other bech32 character and '1','b','/',' ','o','Q': rejected or exactly the "
                  "original payload (%d substitutions were accepted: case changes / ignorable header edits, all exact)" % (len(sets), acc))


# ------------------------------------------------------------------------------------------- tables
def _rank_gf2(rows):
    rows = list(rows)
    rank = 0
    for bit in range(64):
        piv = None
        for r in range(rank, len(rows)):
            if (rows[r] >> bit) & 1:
                piv = r
                break
        if piv is None:
            continue
        rows[rank], rows[piv] = rows[piv], rows[rank]
        for r in range(len(rows)):
            if r != rank and (rows[r] >> bit) & 1:
                rows[r] ^= rows[rank]
        rank += 1
    return rank


def bc32_single_errors(tier):
    """single substitution in a bc32 string is always detected by the checksum:
    (a) exhaustive per length up to N with the real bech32_polymod; (b) for every length: the per-symbol state map is injective"""
    from buidl.bech32 import bech32_polymod
    rng = random.Random(777)
    out = []
    top = 260 if tier == "quick" else 360
    block = 20 if tier == "quick" else 40
    for lo in range(7, top + 1, block):
        hi = min(top, lo + block - 1)
        bad = []
        count = 0
        for n in range(lo, hi + 1):
            base = bech32_polymod([0] + [0] * n)
            # affinity spot check on a random word
            x = [rng.randrange(32) for _ in range(n)]
            px = bech32_polymod([0] + x)
            for pos in range(n):
                for v in ((1, 7, 31) if (tier == "quick" and n % 10) else range(1, 32)):
                    vec = [0] * n
                    vec[pos] = v
                    s = bech32_polymod([0] + vec) ^ base
                    count += 1
                    if s == 0:
                        bad.append((n, pos, v))
                    elif pos % 17 == 0 and v == 7:
                        y = list(x)
                        y[pos] ^= v
                        if bech32_polymod([0] + y) != px ^ s:
                            bad.append(("not affine", n, pos, v))
        out.append({"name": "bc32_single_errors/len%d-%d" % (lo, hi), "status": "fail" if bad else "ok",
                    "clause": "exhaustive: for every bc32 string length %d..%d, every position and substituted-symbol difference (all 31 for lengths divisible by 10%s), the "
                              "syndrome computed with the real bech32_polymod([0] + data) is nonzero: the checksum of the substituted string differs (%d syndromes)"
                              % (lo, hi, "; differences 1, 7, 31 otherwise" if tier == "quick" else " and all others", count),
                    "backend": "exhaustive", "inputs": {"lengths": [lo, hi], "bad": [repr(b) for b in bad[:5]]}, "confirmed": bool(bad)})
    # (b) unbounded length: state after 6 symbols v from chk=1 is A ^ pack(v); T(s, x) = polymod(v(s) + [x])
    A = bech32_polymod([0] * 6)

    def sym6(state):
        w = state ^ A
        return [(w >> (5 * (5 - i))) & 31 for i in range(6)]
    problems = []
    for _ in range(200):
        s = rng.getrandbits(30)
        if bech32_polymod(sym6(s)) != s:
            problems.append("state %x not reached by its 6-symbol preimage" % s)
            break
    t0 = bech32_polymod(sym6(0) + [0])
    rows = [bech32_polymod(sym6(1 << k) + [0]) ^ t0 for k in range(30)]
    rank = _rank_gf2(rows)
    if rank != 30:
        problems.append("linear part of the per-symbol state map has rank %d < 30" % rank)
    for _ in range(300):      # the map is affine: T(s ^ d, x) == T(s, x) ^ M d   (M = rows)
        s, d, x = rng.getrandbits(30), rng.getrandbits(30), rng.randrange(32)
        md = 0
        for k in range(30):
            if (d >> k) & 1:
                md ^= rows[k]
        if bech32_polymod(sym6(s ^ d) + [x]) != bech32_polymod(sym6(s) + [x]) ^ md:
            problems.append("state map not affine at s=%x d=%x x=%d" % (s, d, x))
            break
    out.append({"name": "bc32_single_errors/any-length", "status": "fail" if problems else "ok",
                "clause": "exhaustive over a basis: every 30-bit checksum state is reached by a 6-symbol prefix (checked on samples, and polymod7 proves the step for all states); the "
                          "real per-symbol state map s -> polymod(prefix(s) + [x]) is affine with a linear part of full rank 30 over GF(2) (computed on the 30 basis states), hence "
                          "injective: a substituted symbol makes the state differ (difference = the 5-bit symbol difference != 0) and the difference can never vanish while further "
                          "symbols are absorbed -- single substitutions are detected in bc32 strings of ANY length (payload pieces of 70000-byte payloads included)",
                "backend": "exhaustive", "inputs": {"rank": rank, "problems": problems}, "confirmed": bool(problems)})
    return out


CATEGORY_CONTRACTS = [n for n in CONTRACTS if ("#rejects-" in n or "#accepts" in n) and REG.contracts[n].gen is not None]
TABLES = [("bc32_single_errors", bc32_single_errors)]
BOUNDED = [("rt-contracts", fuzz_job(CONTRACTS)),
           ("accept-reject-categories", category_job(CATEGORY_CONTRACTS)),
           ("cbor-boundaries-all-layers", boundaries),
           ("every-length-roundtrip", every_length_small),
           ("every-chunk-size-1..2000", every_chunk_size),
           ("part-set-tampering", part_set_tampering),
           ("part-single-substitutions", part_substitutions)]
TRUSTED_BASE = ["pyvc symbolic executor (A-ENGINE)", "z3 5.1 (bit-vector mode for convertbits / polymod)",
                "spec functions verif/specs/text.py (A-SPEC; RFC 8949 heads, bcr-2020-004 bc32 vector, bcr-2020-005 UR)",
                "harness functions verif/harness/bcur.py, verif/harness/text.py", "CPython built-ins per verif/pyvc/calls.py (A-BUILTIN)",
                "sha256 collision resistance (A-CR) for 'a foreign piece under the original digest is rejected'"]
ASSUMPTIONS = ["A-ENGINE", "A-SPEC", "A-BUILTIN", "A-CR", "termination not verified",
               "math.ceil(a / b) on floats equals integer ceiling for a < 2^52 (A-BUILTIN; encoded lengths are far below)"]
EXPLANATION = ("BCUR transport: symbolic contracts for the CBOR byte-string wrapper (all lengths, all head boundaries), 8<->5 regrouping and the BCH step; "
               "text-level bc32 / UR single / UR multi are checked against independent specs on enumerated boundaries, every chunk size 1..2000, and an exhaustive "
               "tamper catalogue (all permutations/omissions/duplications/foreign parts of <= 5-part sets, all single-character substitutions of sampled parts); "
               "an exhaustive table shows single substitutions are caught by the bc32 checksum for every length.")
CATEGORY = "other"
LEVEL_TEXT = ("Mixed. Deductive (pyvc + z3, all inputs): cbor_encode / cbor_decode on every path and every length class (this is where the non-RFC 4-byte head is found), "
              "cbor round trip, convertbits 8->5 for 1/2/5/20 bytes and 5->8 incl. the zero-padding rule, bech32_polymod (the bc32 checksum register) for symbol lists of every length by loop invariant against spec.text.polymod_rec. Exhaustive tables with the real polymod: single "
              "substitutions in bc32 strings. NOT proved: everything that builds or parses text (bc32encode/bc32decode, bcur_encode/decode, BCURSingle, BCURMulti): pyvc has no "
              "symbolic strings; these are `undecided` symbolically and decided on enumerated/bounded inputs only (all boundaries, all chunk sizes 1..2000 on sampled payloads, "
              "complete tamper catalogue on <= 5-part sets).")
LEVEL_NOTE = ("trusted: pyvc translation (A-ENGINE), spec functions (A-SPEC), harnesses, CPython builtin contracts (A-BUILTIN), A-CR for foreign pieces; text-level "
              "behaviour is bounded/exhaustive evidence, not proof; termination not verified")
