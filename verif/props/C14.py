"""C14: BIP39 mnemonics encode entropy+checksum exactly and seeds follow PBKDF2
(buidl/mnemonic.py, buidl/pbkdf2.py, buidl/helper.py hmac_sha512_kdf, buidl/hd.py from_mnemonic)"""
import ast
import hashlib
import random
import time

from verif.pyvc.verifier import REG, jsonable
from verif.bounded import fuzz_contracts
import verif.contracts  # noqa
import verif.specs as spec

M = spec.mnemonic
CONTRACTS = [n for n, c in REG.contracts.items() if "C14" in c.props]
JOB_TIMEOUT = {"quick": 400, "thorough": 1500}


def _row(name, ok, clause, inputs, backend="exhaustive", **kw):
    r = {"name": "C14/table/" + name, "status": "ok" if ok else "fail", "clause": clause, "backend": backend,
         "inputs": jsonable(inputs), "note": None, "secs": 0.0, "kind": "table"}
    r.update(kw)
    return r


# ======================================================================================= TABLES
def wordlist(tier):
    """C14.2 on the real file and the real WordList object"""
    from buidl.mnemonic import BIP39
    words = list(BIP39.words)
    rows = []
    probs = M.wordlist_problems(words, 2048, 4)
    rows.append(_row("wordlist/bip39", not probs,
                     "2048 distinct lower-case words in sorted order; 4-letter prefixes pairwise distinct; no 4-letter prefix of a longer word is itself a word",
                     {"words": len(words), "problems": probs[:5]}))
    raw = open("/repo/buidl/bip39_words.txt", "rb").read()
    h = hashlib.sha256(raw).hexdigest()
    rows.append(_row("wordlist/bip39-canonical", h == M.ENGLISH_SHA256 and tuple(words) == M.english_words(),
                     "buidl/bip39_words.txt is byte-identical to bips/bip-0039/english.txt (SHA-256 pin) and is what WordList loaded",
                     {"sha256": h}))
    bad = []
    for i, w in enumerate(words):
        if BIP39[w] != i or BIP39[i] != w or BIP39[w[:4]] != i or BIP39.normalize(w[:4]) != w or BIP39.normalize(w.upper()) != w:
            bad.append(w)
    extra = set(BIP39.lookup) - set(words) - {w[:4] for w in words}
    rows.append(_row("wordlist/bip39-lookup", not bad and not extra,
                     "for all 2048 words: BIP39[word] == BIP39[word[:4]] == index, BIP39[index] == word, normalize(prefix) == word; the lookup table has no other keys",
                     {"words": len(words), "bad": bad[:3], "extra_keys": sorted(extra)[:3], "keys": len(BIP39.lookup)}))
    # every key that is not a full word or the 4-letter prefix is refused (all strings of <= 3 letters over the alphabet + 5..8 letter prefixes)
    accepted = []
    alpha = "abcdefghijklmnopqrstuvwxyz"
    cands = set(alpha) | {a + b for a in alpha for b in alpha} | {a + b + c for a in alpha for b in alpha for c in alpha}
    for w in words:
        for ln in range(5, len(w)):
            cands.add(w[:ln])
    legit = set(words) | {w[:4] for w in words}
    for c in cands:
        if c in legit:
            continue
        try:
            BIP39[c]
            accepted.append(c)
        except KeyError:
            pass
    rows.append(_row("wordlist/bip39-no-other-abbreviation", not accepted,
                     "no string of 1..3 letters and no 5..(len-1)-letter prefix is accepted unless it is a word or a 4-letter prefix",
                     {"candidates": len(cands), "accepted": accepted[:5]}))
    return rows


TABLES = [("wordlist", wordlist)]


# ======================================================================================= BOUNDED
def _fail(what, inputs, violated):
    return {"what": what, "inputs": jsonable(inputs), "violated": violated}


def _res(evals, distinct, failures, samples, bound):
    per, kept = {}, []
    for f in failures:
        key = tuple(f["violated"])
        per[key] = per.get(key, 0) + 1
        if per[key] <= 2:
            kept.append(f)
    if failures:
        bound += "; failing cases per clause: %r" % ({k[0]: v for k, v in per.items()},)
    return {"evaluations": evals, "distinct": distinct, "failures": kept[:12], "samples": samples[:4], "bound": bound}


def _entropies(rng, nbytes, nrandom):
    out = [bytes(nbytes), b"\xff" * nbytes, b"\xaa" * nbytes, b"\x55" * nbytes, b"\x80" + bytes(nbytes - 1), bytes(nbytes - 1) + b"\x01"]
    return out + [bytes(rng.getrandbits(8) for _ in range(nbytes)) for _ in range(nrandom)]


def bip39_job(seed, tier):
    """five entropy sizes x boundary + random entropies: words, round trip, acceptance of every single-word
    substitution == spec validity, prefix forms, wrong lengths, unknown words"""
    from buidl.mnemonic import bytes_to_mnemonic, mnemonic_to_bytes, BIP39
    rng = random.Random(seed * 65537 + 14)
    evals, failures, samples = 0, [], []
    distinct = set()
    words = BIP39.words
    exc_seen = {}
    nsub = 2 if tier == "quick" else 6          # entropies per size with ALL single-word substitutions
    for nbits in M.ENT_SIZES:
        ents = _entropies(rng, nbits // 8, 20 if tier == "quick" else 300)
        for j, e in enumerate(ents):
            evals += 1
            distinct.add(e)
            mn = bytes_to_mnemonic(e, nbits)
            idx = [words.index(w) for w in mn.split()]
            if idx != M.indices(e) or idx != M.indices_bitstring(e):
                failures.append(_fail("bytes_to_mnemonic indices differ from ENT||CS groups", {"entropy": e, "got": idx, "want": M.indices(e)},
                                      ["indices == 11-bit groups of ENT||CS"]))
            if mn != " ".join(words[i] for i in idx) or len(idx) != M.word_count(nbits):
                failures.append(_fail("mnemonic is not single-space separated list words", {"entropy": e, "mnemonic": mn}, ["format"]))
            try:
                back = mnemonic_to_bytes(mn)
            except Exception as ex:      # noqa
                back = "raised " + repr(ex)
            if back != e:
                failures.append(_fail("round trip", {"entropy": e, "mnemonic": mn, "back": back}, ["mnemonic_to_bytes(bytes_to_mnemonic(e)) == e"]))
            pref = " ".join(w[:4] for w in mn.split())
            mixed = " ".join(w[:4] if rng.random() < 0.5 else w for w in mn.split())
            for form in (pref, mixed, "  " + mn.replace(" ", "   ") + "\n"):
                evals += 1
                try:
                    if mnemonic_to_bytes(form) != e:
                        failures.append(_fail("prefix/spacing form decodes differently", {"entropy": e, "form": form}, ["prefix form == full form"]))
                except Exception as ex:      # noqa
                    failures.append(_fail("prefix/spacing form rejected", {"entropy": e, "form": form, "exc": repr(ex)}, ["prefix form accepted"]))
            if len(samples) < 3 and j == 6:
                samples.append({"entropy": e.hex(), "mnemonic": mn})
            if j < nsub or (j == 6):
                # every single-word substitution: accepted exactly when the spec says the checksum still matches
                acc = 0
                for p in range(len(idx)):
                    ws = mn.split()
                    cand = list(idx)
                    for v in range(2048):
                        if v == idx[p]:
                            continue
                        cand[p] = v
                        ws[p] = words[v]
                        evals += 1
                        want = M.indices_valid(cand)
                        try:
                            got_b = mnemonic_to_bytes(" ".join(ws))
                            got = True
                        except Exception as ex:      # noqa
                            got = False
                            exc_seen[type(ex).__name__] = exc_seen.get(type(ex).__name__, 0) + 1
                        if got != want or (got and got_b != M.decode(cand)):
                            failures.append(_fail("single-word substitution: acceptance differs from checksum validity",
                                                  {"entropy": e, "position": p, "word": words[v], "accepted": got, "valid": want},
                                                  ["accepted iff length valid and checksum matches"]))
                        acc += got
                samples.append({"bits": nbits, "substitutions": len(idx) * 2047, "still_valid": acc})
    # wrong lengths and unknown words
    for w in range(0, 30):
        evals += 1
        idx = [rng.randrange(2048) for _ in range(w)]
        try:
            mnemonic_to_bytes(" ".join(words[i] for i in idx))
            got = True
        except Exception as ex:      # noqa
            got = False
            exc_seen[type(ex).__name__] = exc_seen.get(type(ex).__name__, 0) + 1
        if got != M.indices_valid(idx):
            failures.append(_fail("length/checksum acceptance", {"indices": idx, "accepted": got}, ["accepted iff length valid and checksum matches"]))
    base = bytes_to_mnemonic(bytes(16), 128).split()
    for bad in ("ABANDON", "Abandon", "aband", "aba", "abandonn", "notaword", "zoo1", "école"):
        evals += 1
        try:
            mnemonic_to_bytes(" ".join([bad] + base[1:]))
            failures.append(_fail("unknown word accepted", {"word": bad}, ["words outside the list are rejected"]))
        except Exception as ex:      # noqa
            exc_seen[type(ex).__name__] = exc_seen.get(type(ex).__name__, 0) + 1
    # generation with self-check (anchor: secure_mnemonic): whatever it returns is a valid mnemonic of the requested size
    from buidl.mnemonic import secure_mnemonic
    for nbits in M.ENT_SIZES:
        for extra in (0, 1, 2 ** nbits - 1, 2 ** nbits, 2 ** 300 + 7, rng.getrandbits(nbits)):
            evals += 1
            mn = secure_mnemonic(nbits, extra)
            idx = [BIP39[w] for w in mn.split()]
            if not M.indices_valid(idx) or len(idx) != M.word_count(nbits):
                failures.append(_fail("secure_mnemonic returned an invalid mnemonic", {"num_bits": nbits, "extra_entropy": extra, "mnemonic": mn},
                                      ["secure_mnemonic(n) is a valid n-bit mnemonic"]))
    for bad in (0, 64, 127, 129, 512, -128):
        evals += 1
        try:
            secure_mnemonic(bad)
            failures.append(_fail("secure_mnemonic accepted an invalid size", {"num_bits": bad}, ["sizes are 128..256 step 32"]))
        except ValueError:
            pass
    return _res(evals, len(distinct), failures, samples,
                "sizes 128..256 step 32 x (6 boundary + %d random entropies); all 2047 substitutions at every position for %d entropies per size; "
                "word counts 0..29; rejection exception types seen: %r" % (20 if tier == "quick" else 300, nsub + 1, exc_seen))


def seed_job(seed, tier):
    """seed == spec PBKDF2(HMAC-SHA512, 2048, 64) with and without passphrase; HDPrivateKey.from_mnemonic master key per BIP32"""
    from buidl.mnemonic import bytes_to_mnemonic
    from buidl.helper import hmac_sha512_kdf
    from buidl.hd import HDPrivateKey
    rng = random.Random(seed * 257 + 141)
    evals, failures, samples = 0, [], []
    pws = [b"", b"TREZOR", "café ₿".encode("utf-8"), bytes([0xff, 0xfe, 0x00, 0x80, 0x0a]), bytes(rng.getrandbits(8) for _ in range(200))]
    n_ec = 0
    for nbits in M.ENT_SIZES:
        for e in _entropies(rng, nbits // 8, 2 if tier == "quick" else 20):
            mn = bytes_to_mnemonic(e, nbits)
            for pw in (pws if e == bytes(nbits // 8) else [pws[0], rng.choice(pws[1:])]):
                evals += 1
                want = M.bip39_seed(mn.encode("ascii"), pw)
                assert want == hashlib.pbkdf2_hmac("sha512", mn.encode(), b"mnemonic" + pw, 2048, 64)     # spec self-check
                got = hmac_sha512_kdf(mn, b"mnemonic" + pw)
                if got != want:
                    failures.append(_fail("seed differs from PBKDF2-HMAC-SHA512", {"mnemonic": mn, "passphrase": pw, "got": got, "want": want},
                                          ["seed == PBKDF2(HMAC-SHA512, mnemonic, 'mnemonic'+passphrase, 2048, 64)"]))
                if n_ec < (30 if tier == "quick" else 200):
                    n_ec += 1
                    evals += 1
                    form = mn if n_ec % 2 else " ".join(w[:4] for w in mn.split())
                    k = HDPrivateKey.from_mnemonic(form, password=pw)
                    mk = M.bip32_master(want)
                    if (k.private_key.secret, k.chain_code) != mk or k.depth != 0 or k.xprv() != M.master_xprv(want):
                        failures.append(_fail("from_mnemonic master key differs from BIP32 master of the BIP39 seed",
                                              {"mnemonic": form, "passphrase": pw, "got_xprv": k.xprv(), "want_xprv": M.master_xprv(want)},
                                              ["master == HMAC-SHA512('Bitcoin seed', seed) split"]))
                    if len(samples) < 3:
                        samples.append({"mnemonic": form, "passphrase": pw.hex(), "xprv": k.xprv()})
    # invalid mnemonics never yield a key
    for bad in ("abandon " * 12, "abandon " * 11 + "about about", "hello", ""):
        evals += 1
        try:
            HDPrivateKey.from_mnemonic(bad.strip())
            failures.append(_fail("from_mnemonic accepted an invalid mnemonic", {"mnemonic": bad}, ["invalid mnemonic -> error"]))
        except Exception:      # noqa
            pass
    return _res(evals, evals, failures, samples,
                "5 sizes x (6 boundary + %d random) entropies x {no passphrase, ASCII, UTF-8, raw non-UTF-8 bytes, 200 bytes}; %d master keys (full words and 4-letter prefixes alternating)"
                % (2 if tier == "quick" else 20, n_ec))


def _trezor_vectors():
    src = open("/repo/buidl/test/test_hd.py").read()
    for node in ast.walk(ast.parse(src)):
        if isinstance(node, ast.FunctionDef) and node.name == "test_from_mnemonic":
            for st in node.body:
                if isinstance(st, ast.Assign) and getattr(st.targets[0], "id", None) == "tests":
                    return ast.literal_eval(st.value)
    return []


def vectors_job(seed, tier):
    """Trezor BIP39 vectors found in buidl/test/test_hd.py: entropy, mnemonic, seed, xprv (passphrase TREZOR)"""
    from buidl.mnemonic import bytes_to_mnemonic, mnemonic_to_bytes
    from buidl.helper import hmac_sha512_kdf
    from buidl.hd import HDPrivateKey
    evals, failures, samples = 0, [], []
    vecs = _trezor_vectors()
    for ent, mn, sd, xprv in vecs:
        evals += 1
        e = bytes.fromhex(ent)
        spec_ok = (M.sentence(M.indices(e)).decode() == mn and M.bip39_seed(mn.encode(), b"TREZOR").hex() == sd
                   and M.master_xprv(bytes.fromhex(sd)) == xprv)
        real_ok = (bytes_to_mnemonic(e, len(e) * 8) == mn and mnemonic_to_bytes(mn) == e
                   and hmac_sha512_kdf(mn, b"mnemonicTREZOR").hex() == sd and HDPrivateKey.from_mnemonic(mn, b"TREZOR").xprv() == xprv)
        if not (spec_ok and real_ok):
            failures.append(_fail("Trezor vector", {"entropy": ent, "spec_ok": spec_ok, "real_ok": real_ok}, ["real == spec == vector"]))
        samples.append({"entropy": ent, "xprv": xprv})
    return _res(evals, len(vecs), failures, samples, "%d Trezor vectors (entropy, mnemonic, seed, xprv) from buidl/test/test_hd.py: real code, independent spec and vector agree" % len(vecs))


def spec_crosscheck_job(seed, tier):
    """RFC 8018 spec (HMAC from the standard library as PRF) against hashlib.pbkdf2_hmac; RFC 6070 vectors"""
    rng = random.Random(seed + 40)
    evals, failures = 0, []
    rfc6070 = [(b"password", b"salt", 1, 20, "0c60c80f961f0e71f3a9b524af6012062fe037a6"),
               (b"password", b"salt", 2, 20, "ea6c014dc72d6f8ccd1ed92ace1d41f0d8de8957"),
               (b"password", b"salt", 4096, 20, "4b007901b765489abead49d926f721d065a429c1"),
               (b"passwordPASSWORDpassword", b"saltSALTsaltSALTsaltSALTsaltSALTsalt", 4096, 25, "3d2eec4fe41c849b80c8d83662c0e44a8b291a964cf2f07038"),
               (b"pass\0word", b"sa\0lt", 4096, 16, "56fa6aa75548099dcc37d7f03425e0c3")]
    for p, s, c, n, want in rfc6070:
        evals += 1
        if M.pbkdf2_hmac("sha1", p, s, c, n).hex() != want or M.pbkdf2_sha1(p, s, c, n).hex() != want:
            failures.append(_fail("spec PBKDF2 fails RFC 6070 vector", {"p": p, "s": s, "c": c}, ["spec self-check"]))
    for _ in range(80 if tier == "quick" else 800):
        dig = rng.choice(("sha1", "sha256", "sha512"))
        p = bytes(rng.getrandbits(8) for _ in range(rng.randrange(0, 260)))
        s = bytes(rng.getrandbits(8) for _ in range(rng.randrange(0, 40)))
        c = rng.choice((1, 2, 3, 100, 2048))
        n = rng.choice((0, 1, 20, 64, 65, 130))
        evals += 1
        want = hashlib.pbkdf2_hmac(dig, p, s, c, n) if n else b""
        if M.pbkdf2_hmac(dig, p, s, c, n) != want:
            failures.append(_fail("spec PBKDF2 != hashlib.pbkdf2_hmac", {"digest": dig, "p": p, "s": s, "c": c, "n": n}, ["spec self-check"]))
        if dig == "sha512" and M.pbkdf2_sha512(p, s, c, n) != want:
            failures.append(_fail("closure-free spec instance differs", {"p": p, "s": s, "c": c, "n": n}, ["spec self-check"]))
    return _res(evals, evals, failures, [], "5 RFC 6070 vectors + random digests/passwords (0..259 bytes)/salts/iteration counts/lengths")


def _fuzz(seed, tier):
    return fuzz_contracts(CONTRACTS, seed, tier, budget_s=60 if tier == "quick" else 600)


BOUNDED = [("rt-contracts", _fuzz), ("bip39-sizes-substitutions", bip39_job), ("seed-and-master-key", seed_job),
           ("trezor-vectors", vectors_job), ("spec-crosscheck", spec_crosscheck_job)]

TRUSTED_BASE = ["pyvc symbolic executor (A-ENGINE)", "z3 5.1", "spec functions verif/specs/mnemonic.py (A-SPEC)", "harness verif/harness/mnemonic.py",
                "CPython built-ins per verif/pyvc/calls.py (A-BUILTIN)", "hashlib/hmac: uninterpreted in the deductive part, CPython's implementation in the bounded part",
                "SHA-256 pin of the English word list", "intrinsic: buidl.pbkdf2.callable == builtin callable"]
ASSUMPTIONS = ["A-ENGINE", "A-SPEC", "A-BUILTIN", "termination not verified",
               "PBKDF2 for 2048 iterations follows from the proved 1-2 (stand-alone: 3) iteration instances by induction on the XOR fold (not mechanised)",
               "mnemonic sentences and passphrases are ASCII/bytes: Unicode NFKD normalisation of BIP39 is outside the library's API (passwords are bytes)"]
EXPLANATION = ("BIP39: the vendored PBKDF2 stream reader is proved equal to RFC 8018 F()/T_i concatenation for small iteration counts with the PRF uninterpreted; "
               "the word list is decided exhaustively; entropy<->words, acceptance and seed/master-key derivation are checked by bounded runs against an independent spec.")
CATEGORY = "other"
LEVEL_TEXT = ("Mixed. Deductive (symbolic, z3, HMAC uninterpreted): PBKDF2.read/__f of buidl/pbkdf2.py == RFC 8018 T_1||T_2||... for all passwords/salts with 1 iteration "
              "(SHA-512, 64 and 130 bytes, two consecutive reads; SHA-1 50 bytes) and 2 iterations (SHA-1, thorough tier; SHA-512 c=2 and SHA-1 c=3 were proved in stand-alone runs only, see notes/C14_C15.md). "
              "Exhaustive: the 2048-word list (distinct, sorted, unique 4-letter prefixes, no prefix equal to another word, canonical SHA-256, lookup table of the real WordList "
              "object has exactly the full words and 4-letter prefixes). Bounded against an independent BIP39/RFC 8018/BIP32 spec: all five entropy sizes with boundary and random "
              "entropies, every single-word substitution of sampled phrases accepted exactly when the checksum still matches, prefix forms, wrong lengths, seeds with/without "
              "(non-ASCII) passphrases, master xprv, Trezor vectors. Not 'proof': word/strings handling is outside the symbolic engine and the 2048-round instance is not unrolled.  "
              "The defects these checks found on the pinned tree are repaired by fix: commits in /repo (one `fixed:` line each in /verif/KNOWN_FINDINGS.jsonl).")
LEVEL_NOTE = ("trusted: pyvc translation (A-ENGINE), spec functions (A-SPEC), CPython builtin contracts (A-BUILTIN), HMAC uninterpreted or CPython's; "
              "induction from c<=2 to c=2048 is a manual step; termination not verified")
