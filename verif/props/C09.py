"""C09: address and key text encodings invert exactly and reject what the specs reject."""
import itertools
import random
import time

from verif.pyvc.verifier import REG, jsonable
from verif.bounded import fuzz_job
from verif import rt
import verif.contracts  # noqa
import verif.specs as _S
from verif.contracts.common import rand_bytes
from verif.contracts import text as CT

T = _S.text
CONTRACTS = [n for n, c in REG.contracts.items() if "C09" in c.props]
H = "verif.harness.text."


# ------------------------------------------------------------------------------------------- generic case runner
def run_cases(cases, bound, budget_s=None):
    """cases: iterable of (contract name, inputs dict).  Runs the real function + executable contract on each."""
    evals = 0
    distinct = set()
    failures = []
    per = {}
    samples = []
    t0 = time.time()
    truncated = False
    for name, inputs in cases:
        if budget_s is not None and time.time() - t0 > budget_s:
            truncated = True
            break
        c = REG.contracts[name]
        try:
            r = rt.run_concrete(c, inputs)
        except Exception as e:      # harness problem, not a verdict
            r = {"status": "error", "why": repr(e)}
        if r["status"] == "pre-false":
            continue
        evals += 1
        distinct.add((name, repr(sorted(inputs.items()))[:300]))
        if len(samples) < 3 and evals % 97 == 1:
            samples.append({"contract": name, "inputs": jsonable(inputs), "outcome": r.get("outcome")})
        if r["status"] == "violated":
            per[name] = per.get(name, 0) + 1
            if per[name] <= 3:
                failures.append({"contract": name, "inputs": jsonable(inputs), "violated": r["violated"],
                                 "what": "%s violates: %s" % (name, "; ".join(r["violated"])[:300])})
    return {"evaluations": evals, "distinct": len(distinct), "failures": failures, "samples": samples,
            "bound": bound + (" [time budget reached: enumeration truncated]" if truncated else ""), "violations_per_contract": per}


def direct(evals, distinct, failures, samples, bound):
    return {"evaluations": evals, "distinct": distinct, "failures": failures[:12], "samples": samples[:3], "bound": bound}


# ------------------------------------------------------------------------------------------- base58check
def b58_roundtrip_all(seed, tier):
    rng = random.Random(seed * 7919 + 1)
    k = 2 if tier == "quick" else 12

    def cases():
        for n in range(0, 83):
            for z in range(0, 9):
                if z > n:
                    continue
                for _ in range(k):
                    p = CT.payload_with_zeros(rng, n, z)
                    yield H + "b58check_roundtrip", {"payload": p}
                    yield "buidl.helper.encode_base58_checksum", {"raw": p}
                    yield "buidl.helper.raw_decode_base58", {"s": T.base58check_encode(p)}
    return run_cases(cases(), "every payload length 0..82 x every leading-zero run 0..8 (<= length) x %d seeded payloads: encode == spec, "
                     "decode(encode(p)) == p, real decoder accepts the spec encoding" % k)


def b58_substitutions(seed, tier):
    """every single-character substitution of sampled encodings: accepted only if checksum-valid, and then the payload
    the spec decodes (never the original payload, never silently something else)"""
    rng = random.Random(seed * 7919 + 2)
    from verif.harness.text import b58check_accepts
    strings = CT.sample_b58_strings(rng, 4 if tier == "quick" else 30)
    if tier == "quick":
        strings = [s for s in strings if len(s) <= 60] + [s for s in strings if len(s) > 60][:1]
    evals = acc = 0
    failures, samples = [], []
    for s in strings:
        orig = T.base58check_decode(s)
        for i in range(len(s)):
            for ch in T.B58 + "0OIl +":
                if ch == s[i]:
                    continue
                m = s[:i] + ch + s[i + 1:]
                got = b58check_accepts(m)
                want = T.base58check_decode(m)
                evals += 1
                if got is not None:
                    acc += 1
                if got != want or (got is not None and got == orig and T.base58_decode(m) == T.base58_decode(s)):
                    failures.append({"what": "raw_decode_base58 on a single-character substitution disagrees with the Base58Check rule",
                                     "inputs": {"original": s, "mutated": m}, "violated": ["accepted %r, spec %r" % (got, want)]})
        if len(samples) < 3:
            samples.append({"string": s, "substitutions": len(s) * 63})
    return direct(evals, evals, failures, samples,
                  "%d sampled Base58Check strings (addresses of 4 version bytes, WIF both flags, xpub, odd lengths, leading zeros): every position x every "
                  "other alphabet character and 6 non-alphabet characters; %d substituted strings were checksum-valid and accepted" % (len(strings), acc))


# ------------------------------------------------------------------------------------------- segwit
def segwit_roundtrip_all(seed, tier):
    rng = random.Random(seed * 7919 + 3)
    k = 1 if tier == "quick" else 6

    def cases():
        for net in T.NETWORKS:
            for ver in range(17):
                for n in range(2, 41):
                    for j in range(k):
                        prog = rand_bytes(rng, n) if j else rng.choice([bytes(n), b"\xff" * n, rand_bytes(rng, n)])
                        spk = T.witness_spk(ver, prog)
                        yield H + "segwit_roundtrip", {"spk": spk, "network": net}
                        yield "buidl.bech32.encode_bech32_checksum", {"s": spk, "network": net}
    return run_cases(cases(), "every witness version 0..16 x every program length 2..40 x 4 networks (3 HRPs) x %d programs: encoder == BIP173/350 "
                     "(incl. version 0 <=> Bech32, 1..16 <=> Bech32m), decode(encode) == (network, version, program)" % k)


def _sample_addresses(rng, per_class=1):
    """valid addresses of every length class: (hrp, program length) with a version allowed for that length"""
    out = []
    for hrp in ("bc", "tb", "bcrt"):
        for n in range(2, 41):
            for _ in range(per_class):
                ver = rng.choice([0, 0, 1, 16]) if n in (20, 32) else rng.randrange(1, 17)
                out.append(T.segwit_addr_encode(hrp, ver, rand_bytes(rng, n)))
    return out


def segwit_substitutions(seed, tier):
    """<= 2 substituted data-part characters are rejected by the real decode_bech32 (direct, no linearity argument):
    all single substitutions of one address per (hrp, length) class, sampled doubles on all of them, all doubles on a few"""
    rng = random.Random(seed * 7919 + 4)
    from verif.harness.text import segwit_accepts
    addrs = _sample_addresses(rng, 1 if tier == "quick" else 3)
    evals = 0
    failures, samples = [], []

    def check(a, m, how):
        nonlocal evals
        evals += 1
        got = segwit_accepts(m)
        if got is not None:
            failures.append({"what": "decode_bech32 accepts a valid address with %s" % how, "inputs": {"original": a, "mutated": m},
                             "violated": ["a segwit address with <= 2 substituted data-part characters is rejected; got %r" % (got,)]})
    t0 = time.time()
    for a in addrs:
        start = a.index("1") + 1
        for i in range(start, len(a)):
            for ch in T.CHARSET:
                if ch != a[i]:
                    check(a, a[:i] + ch + a[i + 1:], "1 substituted character")
    n_double = 300 if tier == "quick" else 4000
    for a in addrs:
        start = a.index("1") + 1
        for _ in range(n_double):
            i, j = sorted(rng.sample(range(start, len(a)), 2))
            if rng.random() < 0.25:
                i = start                      # the version character (constant switch)
                if j == i:
                    j = i + 1
            ci = rng.choice([c for c in T.CHARSET if c != a[i]])
            cj = rng.choice([c for c in T.CHARSET if c != a[j]])
            check(a, a[:i] + ci + a[i + 1:j] + cj + a[j + 1:], "2 substituted characters")
    # all pairs on a few addresses (version 0 and version >= 1, so both directions of the constant switch occur)
    full = [T.segwit_addr_encode("bc", 1, rand_bytes(rng, 2)), T.segwit_addr_encode("tb", 16, rand_bytes(rng, 3))]
    if tier != "quick":
        full += [T.segwit_addr_encode("bc", 0, rand_bytes(rng, 20)), T.segwit_addr_encode("bcrt", 1, rand_bytes(rng, 32))]
    else:
        full += [T.segwit_addr_encode("bc", 0, rand_bytes(rng, 20))]
    exhaustive_on = []
    for a in full:
        start = a.index("1") + 1
        positions = range(start, len(a))
        if tier == "quick" and len(a) > 20:
            # quick tier: all pairs that involve the version character or one of the first 3 program characters
            pairs = [(i, j) for i in range(start, start + 4) for j in range(i + 1, len(a))]
        else:
            pairs = list(itertools.combinations(positions, 2))
        for i, j in pairs:
            for ci in T.CHARSET:
                if ci == a[i]:
                    continue
                pre = a[:i] + ci + a[i + 1:j]
                for cj in T.CHARSET:
                    if cj != a[j]:
                        check(a, pre + cj + a[j + 1:], "2 substituted characters")
        exhaustive_on.append("%s (%d position pairs x 31^2)" % (a, len(pairs)))
        samples.append({"address": a, "pairs": len(pairs)})
    return direct(evals, evals, failures, samples,
                  "real decode_bech32 on: all single substitutions (every data position x 31) of %d valid addresses covering every (HRP, program length 2..40) class; "
                  "%d random double substitutions per address (25%% forced onto the version character); ALL double substitutions on: %s"
                  % (len(addrs), n_double, "; ".join(exhaustive_on)))


def bech32_two_errors(tier):
    """EXHAUSTIVE per (hrp, data-part length): single-error syndromes computed with the real bech32_polymod are nonzero and pairwise
    distinct, and no one or two of them (one on the version symbol) equals 1 xor 0x2bc830a3 (the constant switch)."""
    from buidl.bech32 import bech32_polymod, bech32_hrp_expand, BECH32M_CONSTANT
    from verif.harness.text import segwit_accepts
    rng = random.Random(12345)
    out = []
    D = T.BECH32_CONST ^ T.BECH32M_CONST
    lengths = sorted({1 + len(T.regroup(bytes(L), 8, 5, True)) + 6 for L in range(2, 41)})
    for hrp in ("bc", "tb", "bcrt"):
        pre = bech32_hrp_expand(hrp)
        for n in lengths:
            zero = [0] * n
            base = bech32_polymod(pre + zero)
            syn = {}
            for pos in range(n):
                for v in range(1, 32):
                    vec = list(zero)
                    vec[pos] = v
                    syn[(pos, v)] = bech32_polymod(pre + vec) ^ base
            problems = []
            inv = {}
            for k, s in syn.items():
                if s == 0:
                    problems.append(("single substitution undetected", [k]))
                if s in inv and inv[s][0] != k[0]:
                    problems.append(("two substitutions cancel", [inv[s], k]))
                inv.setdefault(s, k)
            if BECH32M_CONSTANT != T.BECH32M_CONST:
                problems.append(("BECH32M_CONSTANT differs from BIP350", []))
            for v1 in range(1, 32):
                s1 = syn[(0, v1)]
                if s1 == D:
                    problems.append(("version substitution turns a valid bech32 string into a valid bech32m one (or back)", [(0, v1)]))
                other = inv.get(s1 ^ D)
                if other is not None and other[0] != 0:
                    problems.append(("version substitution + one more substitution switches the constant undetected", [(0, v1), other]))
            # affinity of the real polymod on this length: P(x ^ e) == P(x) ^ S(e) on random words, singles and doubles
            for _ in range(40 if tier == "quick" else 400):
                x = [rng.randrange(32) for _ in range(n)]
                e1 = (rng.randrange(n), rng.randrange(1, 32))
                e2 = (rng.randrange(n), rng.randrange(1, 32))
                y = list(x)
                y[e1[0]] ^= e1[1]
                want = bech32_polymod(pre + x) ^ syn[e1]
                if e2[0] != e1[0]:
                    y[e2[0]] ^= e2[1]
                    want ^= syn[e2]
                if bech32_polymod(pre + y) != want:
                    problems.append(("bech32_polymod is not affine over GF(2) on this input", [e1, e2, x]))
                    break
            confirmed = False
            witness = None
            if problems:
                # turn the first syndrome problem into a concrete address pair and ask the real decoder
                what, errs = problems[0]
                try:
                    for ver in (0, 1):
                        L = (n - 7) * 5 // 8
                        a = T.segwit_addr_encode(hrp, ver, rand_bytes(rng, L), strict=False)
                        st = a.index("1") + 1
                        chars = list(a)
                        for pos, v in errs:
                            chars[st + pos] = T.CHARSET[T.CHARSET.index(chars[st + pos]) ^ v]
                        m = "".join(chars)
                        if segwit_accepts(m) is not None:
                            confirmed, witness = True, {"original": a, "mutated": m}
                            break
                except Exception:
                    pass
            out.append({"name": "bech32_two_errors/%s/data%d" % (hrp, n), "status": "fail" if problems else "ok",
                        "clause": "exhaustive: for HRP %r and data-part length %d (incl. version and checksum symbols), all %d single-substitution syndromes of the real "
                                  "bech32_polymod are nonzero and pairwise distinct across positions, and no syndrome or xor of two syndromes involving the version "
                                  "symbol equals 1^0x2bc830a3; hence every <=2-character substitution of every valid address of this class fails its checksum "
                                  "(affinity of polymod spot-checked on random words; structurally shifts and xors only)" % (hrp, n, len(syn)),
                        "backend": "exhaustive", "inputs": {"hrp": hrp, "data_len": n, "problems": [repr(p)[:200] for p in problems[:3]], "witness": witness},
                        "confirmed": confirmed, "note": "; ".join(p[0] for p in problems[:3])})
    return out


# ------------------------------------------------------------------------------------------- scripts <-> addresses, WIF
def address_maps(seed, tier):
    rng = random.Random(seed * 7919 + 5)
    k = 6 if tier == "quick" else 60

    def cases():
        for kind in T.TEMPLATES:
            n = T.TEMPLATE_HASHLEN[kind]
            for net in T.NETWORKS:
                for j in range(k):
                    h = [bytes(n), b"\xff" * n][j] if j < 2 else rand_bytes(rng, n)
                    d = {"kind": kind, "h": h, "network": net}
                    yield H + "spk_address", d
                    yield H + "addr_roundtrip", d
                    yield H + "txout_roundtrip", d
                    a = T.spk_to_address(T.template_spk(kind, h), net)
                    for f in ("addr_to_spk", "txout_spk"):
                        yield H + f + "#accepts", {"addr": a}
    return run_cases(cases(), "5 templates x 4 networks x %d hashes (all-zero, all-ones, seeded): script->address == spec, address->script "
                     "(address_to_script_pubkey and TxOut.to_address) returns the same template and bytes, and mapping back gives the same address" % k)


def wif_all(seed, tier):
    rng = random.Random(seed * 7919 + 6)
    k = 3 if tier == "quick" else 40
    secrets = [1, 2, 2**8, 2**128 + 1, 2**255, T.SECP_N - 1] + [rng.randrange(1, T.SECP_N) for _ in range(k)]

    def cases():
        for s in secrets:
            for c in (True, False):
                for net in T.NETWORKS:
                    d = {"secret": s, "compressed": c, "network": net}
                    yield H + "wif_of", d
                    yield H + "wif_roundtrip", d
                    w = T.wif_encode(s, c, net == "mainnet")
                    yield H + "wif_parse#accepts", {"s": w}
    return run_cases(cases(), "secrets {1, 2, 256, 2^128+1, 2^255, N-1} + %d seeded x {compressed, uncompressed} x 4 networks: wif == spec, parse(wif) == "
                     "(secret, flag, mainnet/testnet)" % k, budget_s=60 if tier == "quick" else 600)


def category_job(names):
    """every accept / reject category contract gets a fixed number of generated inputs (independent of the time-sharing
    of the generic fuzz job, which has ~100 contracts to serve)"""
    def run(seed, tier):
        import itertools as it
        n = 120 if tier == "quick" else 3000

        def cases():
            for nm in names:
                c = REG.contracts[nm]
                rng = random.Random(seed * 7919 + 11 + sum(map(ord, nm)))
                for inputs in it.islice(c.gen(rng, tier), n):
                    yield nm, inputs
        return run_cases(cases(), "%d generated inputs for each of the %d accept/reject category contracts (first the published invalid/valid vectors of that category, "
                         "then crafted strings whose FIRST broken rule is that category)" % (n, len(names)), budget_s=100 if tier == "quick" else 900)
    return run


CATEGORY_CONTRACTS = [n for n in CONTRACTS if ("#rejects-" in n or "#accepts" in n) and REG.contracts[n].gen is not None]
TABLES = [("bech32_two_errors", bech32_two_errors)]
BOUNDED = [("rt-contracts", fuzz_job(CONTRACTS)),
           ("b58check-roundtrip-all-lengths", b58_roundtrip_all),
           ("b58check-single-substitutions", b58_substitutions),
           ("segwit-roundtrip-all-versions-lengths", segwit_roundtrip_all),
           ("segwit-substitutions-direct", segwit_substitutions),
           ("accept-reject-categories", category_job(CATEGORY_CONTRACTS)),
           ("address-maps", address_maps),
           ("wif", wif_all)]
TRUSTED_BASE = ["pyvc symbolic executor (A-ENGINE)", "z3 5.1 (bit-vector mode for polymod/regrouping)",
                "spec functions verif/specs/text.py (A-SPEC; self-tested on the BIP173/BIP350/Base58Check/WIF vectors)",
                "harness functions verif/harness/text.py", "CPython built-ins per verif/pyvc/calls.py (A-BUILTIN)",
                "hashlib digests (A-CR for 'a different payload never has the same checksum' is NOT assumed: only the exact Base58Check rule is checked)"]
ASSUMPTIONS = ["A-ENGINE", "A-SPEC", "A-BUILTIN", "termination not verified",
               "bech32 <=2-error table: GF(2)-affinity of bech32_polymod (proved for 7-symbol inputs = every (state, symbol) step by contract polymod7; spot-checked per length)"]
EXPLANATION = ("Text encodings: symbolic (bit-vector) contracts for the BCH checksum step, 8->5 regrouping and the five scriptPubKey templates; "
               "string-level encoders/decoders are checked against independent BIP173/BIP350/Base58Check/WIF specs by exhaustive enumeration of the "
               "property's finite quantifiers (all versions x lengths x networks, all payload lengths x zero runs, all single substitutions) and an "
               "exhaustive syndrome table for <=2 substitutions.")
CATEGORY = "other"
LEVEL_TEXT = ("Mixed. Deductive (pyvc + z3, all inputs): bech32_polymod for symbol lists of EVERY length (loop invariant against the recursively defined GF(32) shift "
              "register spec.text.polymod_rec; symbolic-length list, 40-bit mode) and on all 32^7 seven-symbol inputs, "
              "group_32 for program lengths 2/5/20/32, the five scriptPubKey templates for every hash. Exhaustive tables (real bech32_polymod): for each of 3 HRPs x "
              "every data-part length of programs 2..40, no <=2-character substitution of any valid address passes the checksum. Everything that produces or "
              "consumes text (base58, bech32 strings, address maps, WIF) is NOT proved: pyvc has no symbolic strings, those contracts are `undecided` and are "
              "decided only on enumerated/bounded inputs (the property's finite quantifiers are enumerated completely; payload contents are sampled). "
              "Published BIP vectors are additionally executed through the symbolic interpreter (#vectors contracts).")
LEVEL_NOTE = ("trusted: pyvc translation (A-ENGINE), spec functions (A-SPEC), harnesses, CPython builtin contracts (A-BUILTIN); string-level behaviour is "
              "bounded/exhaustive evidence, not proof; termination not verified")
