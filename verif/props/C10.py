from verif.pyvc.verifier import REG
from verif.bounded import fuzz_job
import verif.contracts  # noqa
import verif.harness.psbt as hp

ALL = [n for n, c in REG.contracts.items() if "C10" in c.props]
# whole-PSBT contracts over arbitrary bytes: the BIP174 parser on a fully symbolic byte string does not terminate within any
# sensible budget in pyvc (every key/value length is a branch); they are executable contracts for the run-time companion only
RUNTIME_ONLY = ["verif.harness.psbt.combine_raw", "verif.harness.psbt.finalize_extract"]
CONTRACTS = [n for n in ALL if n not in RUNTIME_ONLY]
TABLES = []

# The property's own quantifiers.  One job per (script kind, wallet size) so that the 16-process pool is used evenly;
# n = 4 wallets run in the thorough tier only (split by m).
BOUNDED = [("rt-contracts", fuzz_job(ALL))]
for _kind in hp.KINDS_MULTI:
    BOUNDED.append(("workflow-%s-n1n2" % _kind, hp.job_workflow((_kind,), (1, 2))))
    for _m in (1, 2, 3):
        BOUNDED.append(("workflow-%s-n3-m%d" % (_kind, _m), hp.job_workflow((_kind,), (3,), ms=(_m,))))
    for _m in (1, 2, 3, 4):
        BOUNDED.append(("workflow-%s-n4-m%d" % (_kind, _m), hp.job_workflow((_kind,), (4,), ms=(_m,), quick_skip=True)))
BOUNDED += [
    ("workflow-single-key", hp.job_single_key),
    ("segwit-flag", hp.job_segwit_flag),
    ("helper-create-combine", hp.job_helper),
    ("reject-at-load-multisig", hp.job_reject(hp.KINDS_MULTI)),
    ("reject-at-load-single-key", hp.job_reject(hp.KINDS_SINGLE)),
    ("lossless-valid-variants", hp.job_lossless),
    ("parser-strictness-notes", hp.job_parser_strictness),
]

TRUSTED_BASE = ["pyvc symbolic executor (A-ENGINE)", "z3 5.1", "spec functions verif/specs/psbt.py and wire.py (A-SPEC: BIP174 record layout, "
                "legacy/BIP144 tx serialisation, combiner, finalizer, extractor, BIP32 CKDpub over an own secp256k1 implementation)",
                "CPython built-ins per verif/pyvc/calls.py (A-BUILTIN)", "harness functions and PSBT builders of verif/harness/psbt.py",
                "the library's own script interpreter for 'the final transaction verifies' (that is property C06/C07)"]
ASSUMPTIONS = ["A-ENGINE", "A-SPEC", "A-BUILTIN", "termination not verified",
               "signatures are deterministic (RFC6979, property C01) - used by the order-independence argument",
               "whole-PSBT contracts are decided on bounded inputs only (the engine cannot yet execute PSBT.parse over unconstrained bytes)"]
EXPLANATION = ("PSBT codec and workflow.  Deductive part: the key-value record encoder, PSBT.parse/serialize around a symbolic unknown global "
               "record, PSBTIn/PSBTOut map parse/serialize around a symbolic unknown record (all widths of the CompactSize lengths) are "
               "proved equal to the BIP174 spec functions for all values.  Everything that needs whole PSBT objects (round trip at every "
               "workflow stage, unsigned tx format, order independence of signing and combining, exactness of finalize/extract, rejection "
               "of invalid partial signatures) is decided by executable contracts against the independent spec (abstract state, merge, "
               "finalizer, extractor) over the property's own finite quantifier: every m-of-n wallet up to n=4 in P2SH/P2WSH/P2SH-P2WSH, the "
               "three single-key kinds, 1..3 inputs and outputs, every signer subset and order.")
CATEGORY = "other"
LEVEL_TEXT = ("Mixed: symbolic proofs (z3) for the record-level codec obligations; bounded-exhaustive executable contracts for the workflow "
              "obligations, which are stated over a finite quantifier in the property itself (wallets, subsets, permutations) but whose "
              "byte contents (keys, amounts, unknown records) are sampled deterministically, hence 'other' and not 'proof'.  The two whole-PSBT "
              "contracts over arbitrary bytes (combine_raw, finalize_extract) are run-time contracts only.  The defects these checks found on the pinned tree are repaired by fix: commits in /repo (one `fixed:` line each in /verif/KNOWN_FINDINGS.jsonl) (see notes/C10_C11.md).")
LEVEL_NOTE = ("trusted: pyvc translation (A-ENGINE), spec functions (A-SPEC), CPython builtin contracts (A-BUILTIN), harness builders; "
              "script verification of the final transaction is the library's own (C06/C07); termination not verified")
JOB_TIMEOUT = {"quick": 240, "thorough": 1500}
