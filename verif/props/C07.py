"""C07: script interpreter agrees with consensus semantics on its supported opcode set.

deductive : every contract tagged C07 (verif/contracts/op.py) -- one per opcode function, number codec,
            small-int opcode helpers, IF/NOTIF splice, timelock opcodes + Locktime/Sequence helpers, tail of
            Script.evaluate
tables    : dispatch_table -- OP_CODE_FUNCTIONS / TAPROOT_OP_CODE_FUNCTIONS / OP_CODE_NAMES against the
            opcode table of script.h and BIP342, exhaustively over opcode numbers 0..255
bounded   : the same contracts run concretely (boundary + seeded random inputs) and `programs`: whole
            scripts through the real Script.evaluate against spec.script_ops.eval_script"""
import contextlib
import io
import itertools
import random

from verif.pyvc.verifier import REG, jsonable
from verif.bounded import fuzz_contracts
import verif.contracts  # noqa
import verif.specs as specs

SO = specs.script_ops

CONTRACTS = [n for n, c in REG.contracts.items() if "C07" in c.props]


# ------------------------------------------------------------------------------------------ tables
def dispatch_table(tier):
    """one obligation per (table, opcode number 0..255), per OP_CODE_NAMES entry, and per BIP342 difference"""
    from buidl import op
    out = []

    def ob(name, ok, clause, inputs=None):
        out.append({"name": "dispatch_table/" + name, "status": "ok" if ok else "fail", "clause": clause,
                    "inputs": jsonable(inputs) if inputs is not None else None, "note": None, "secs": 0.0,
                    "kind": "table", "backend": "exhaustive", "confirmed": True})

    for label, table, tap in (("legacy", op.OP_CODE_FUNCTIONS, False), ("taproot", op.TAPROOT_OP_CODE_FUNCTIONS, True)):
        for code in range(256):
            want = SO.expected_function_name(code, taproot=tap)
            fn = table.get(code)
            have = None if fn is None else fn.__name__
            same_obj = fn is None or getattr(op, have, None) is fn
            ob("%s/%d" % (label, code), want == have and same_obj,
               "%s table[%d] is %s (opcode %s)" % (label, code, want, SO.OPCODE_NAMES.get(code, "-")),
               {"table": label, "opcode": code, "expected": want, "actual": have})
        extra = [k for k in table if not (isinstance(k, int) and 0 <= k <= 255)]
        ob("%s/keys" % label, not extra, "%s table keys are opcode numbers 0..255" % label, {"extra": repr(extra)})
    for code, name in sorted(op.OP_CODE_NAMES.items()):
        want = SO.OPCODE_NAMES.get(code)
        ob("names/%d" % code, want == name, "OP_CODE_NAMES[%d] == %s" % (code, want), {"opcode": code, "expected": want, "actual": name})
    for code in sorted(set(op.OP_CODE_FUNCTIONS) | set(op.TAPROOT_OP_CODE_FUNCTIONS)):
        if code in (0x4c, 0x4d, 0x4e) or SO.is_op_success(code):
            continue
        ob("names/has/%d" % code, code in op.OP_CODE_NAMES,
           "every dispatched opcode has a name (Script.evaluate prints OP_CODE_NAMES[command] on failure)", {"opcode": code})
    # BIP342: the tapscript table differs from the legacy one exactly by: CHECKSIG(VERIFY) -> Schnorr, CHECKMULTISIG(VERIFY)
    # disabled, CHECKSIGADD added, OP_SUCCESSx added
    diff = {c for c in range(256) if op.OP_CODE_FUNCTIONS.get(c) is not op.TAPROOT_OP_CODE_FUNCTIONS.get(c)}
    want_diff = {0xac, 0xad, 0xae, 0xaf, 0xba} | {c for c in range(256) if SO.is_op_success(c)}
    ob("bip342/diff", diff == want_diff, "tables differ exactly at CHECKSIG(VERIFY), CHECKMULTISIG(VERIFY), CHECKSIGADD and OP_SUCCESSx",
       {"unexpected": sorted(diff - want_diff), "missing": sorted(want_diff - diff)})
    ob("bip342/multisig-disabled", all(op.TAPROOT_OP_CODE_FUNCTIONS.get(c) is op.op_return for c in (0xae, 0xaf))
       and op.op_return([b"\x01"]) is False, "tapscript CHECKMULTISIG / CHECKMULTISIGVERIFY fail the script")
    ob("bip342/checksigadd", op.TAPROOT_OP_CODE_FUNCTIONS.get(0xba) is op.op_checksigadd_schnorr and 0xba not in op.OP_CODE_FUNCTIONS,
       "CHECKSIGADD (0xba) exists in tapscript only")
    return out


TABLES = [("dispatch_table", dispatch_table)]


# ------------------------------------------------------------------------------------------ bounded: contracts
def rt_contracts(seed, tier):
    with contextlib.redirect_stdout(io.StringIO()):       # Script.evaluate prints "bad op: ..." on failure
        return fuzz_contracts(CONTRACTS, seed, tier, budget_s=60 if tier == "quick" else 400,
                              per_contract=2500 if tier == "quick" else 20000)


# ------------------------------------------------------------------------------------------ bounded: programs
OP = {v: k for k, v in SO.OPCODE_NAMES.items()}
IF, NOTIF, ELSE, ENDIF = 0x63, 0x64, 0x67, 0x68
# (opcode, minimal stack depth, net stack effect) of the context-free opcodes, for depth-aware generation
_SHAPE = {
    "OP_NOP": (0, 0), "OP_VERIFY": (1, -1), "OP_TOALTSTACK": (1, -1), "OP_FROMALTSTACK": (0, 1), "OP_2DROP": (2, -2),
    "OP_2DUP": (2, 2), "OP_3DUP": (3, 3), "OP_2OVER": (4, 2), "OP_2ROT": (6, 0), "OP_2SWAP": (4, 0), "OP_IFDUP": (1, 0),
    "OP_DEPTH": (0, 1), "OP_DROP": (1, -1), "OP_DUP": (1, 1), "OP_NIP": (2, -1), "OP_OVER": (2, 1), "OP_PICK": (2, 0),
    "OP_ROLL": (2, -1), "OP_ROT": (3, 0), "OP_SWAP": (2, 0), "OP_TUCK": (2, 1), "OP_SIZE": (1, 1), "OP_EQUAL": (2, -1),
    "OP_EQUALVERIFY": (2, -2), "OP_1ADD": (1, 0), "OP_1SUB": (1, 0), "OP_NEGATE": (1, 0), "OP_ABS": (1, 0), "OP_NOT": (1, 0),
    "OP_0NOTEQUAL": (1, 0), "OP_ADD": (2, -1), "OP_SUB": (2, -1), "OP_BOOLAND": (2, -1), "OP_BOOLOR": (2, -1),
    "OP_NUMEQUAL": (2, -1), "OP_NUMEQUALVERIFY": (2, -2), "OP_NUMNOTEQUAL": (2, -1), "OP_LESSTHAN": (2, -1),
    "OP_GREATERTHAN": (2, -1), "OP_LESSTHANOREQUAL": (2, -1), "OP_GREATERTHANOREQUAL": (2, -1), "OP_MIN": (2, -1),
    "OP_MAX": (2, -1), "OP_WITHIN": (3, -2), "OP_RIPEMD160": (1, 0), "OP_SHA1": (1, 0), "OP_SHA256": (1, 0),
    "OP_HASH160": (1, 0), "OP_HASH256": (1, 0), "OP_NOP1": (0, 0), "OP_NOP4": (0, 0), "OP_NOP10": (0, 0),
    "OP_CHECKLOCKTIMEVERIFY": (1, 0), "OP_CHECKSEQUENCEVERIFY": (1, 0), "OP_RETURN": (0, 0),
}
_CONST_OPS = [0x00, 0x4f] + list(range(0x51, 0x61))
_PUSHES = [b"\x00", b"\x80", b"\x01", b"\x81", b"\x02", b"\x03", b"\x7f", b"\xff", b"\x80\x00", b"\x00\x80", b"\x00\x00",
           b"\xff\xff\xff\x7f", b"\xff\xff\xff\xff", b"\x00\x00\x00\x80", b"\x00\x00\x00\x80\x00", b"\x05\x00\x00\x80\x00",
           b"\x00\x00\x00\x00\x01", b"\x00\x65\xcd\x1d", b"\xff\x64\xcd\x1d", b"\x00\x00\x40", b"\x05\x00\x40", b"\x05", b"\x0a",
           b"\x00" * 9, b"abc", b"\x63", b"\x67", b"\x68"]
_CTX_VERSION = [1, 2, 2, 2, 0, 3]
_CTX_LOCKTIME = [0, 10, 499999999, 500000000, 500000005, 2**32 - 1]
_CTX_SEQUENCE = [0, 5, 10, 0xffff, (1 << 22) | 5, (1 << 22) | 0xffff, 1 << 31, 2**32 - 2, 2**32 - 1]


def _rand_push(rng):
    r = rng.random()
    if r < 0.55:
        return rng.choice(_PUSHES)
    if r < 0.75:
        return SO.scriptnum_enc(rng.randrange(-4, 8))
    n = rng.choice([1, 2, 3, 4, 5, 8, 19, 21, 31, 33, 75, 76])     # never 20 or 32: witness-program / P2SH patterns
    return bytes(rng.getrandbits(8) for _ in range(n))


def gen_program(rng, max_ops=40, multi_else=False):
    """seeded random properly nested program of at most max_ops operations (pushes and opcodes each count one)"""
    budget = [rng.randrange(1, max_ops + 1)]
    names = list(_SHAPE)

    def block(depth, level):
        out = []
        while budget[0] > 0:
            r = rng.random()
            if level > 0 and r < 0.12:
                break
            budget[0] -= 1
            if r < 0.38 or depth == 0 and r < 0.8:
                if rng.random() < 0.5:
                    out.append(rng.choice(_CONST_OPS))
                else:
                    out.append(_rand_push(rng))
                depth += 1
            elif r < 0.50 and budget[0] >= 2 and level < 4 and depth >= 1:
                budget[0] -= 1                       # the ENDIF
                out.append(rng.choice([IF, NOTIF]))
                inner, d1 = block(depth - 1, level + 1)
                out += inner
                n_else = 0
                while budget[0] > 0 and rng.random() < (0.6 if n_else == 0 else (0.35 if multi_else else 0.0)):
                    budget[0] -= 1
                    out.append(ELSE)
                    inner, d1 = block(depth - 1, level + 1)
                    out += inner
                    n_else += 1
                out.append(ENDIF)
                depth = max(0, d1)
            else:
                cands = [n for n in names if _SHAPE[n][0] <= depth] if rng.random() < 0.93 else names
                if rng.random() < 0.9:
                    cands = [n for n in cands if n != "OP_RETURN"] or cands
                n = rng.choice(cands)
                if n in ("OP_PICK", "OP_ROLL") and rng.random() < 0.8:
                    out.append(SO.small_int_opcode(rng.randrange(-1, max(1, depth))) if rng.random() < 0.7
                               else SO.scriptnum_enc(rng.randrange(-2, depth + 1)))
                    budget[0] -= 1
                    depth += 1
                out.append(OP[n])
                depth = max(0, depth + _SHAPE[n][1])
        return out, depth
    prog, _ = block(0, 0)
    return prog


def _has_multi_else(cmds):
    """some conditional of the (properly nested) program has more than one ELSE at its own level"""
    counts = []
    for c in cmds:
        if isinstance(c, int):
            if c in (IF, NOTIF):
                counts.append(0)
            elif c == ELSE and counts:
                counts[-1] += 1
                if counts[-1] > 1:
                    return True
            elif c == ENDIF and counts:
                counts.pop()
    return False


def _real_eval(cmds, ctx):
    """-> (accepted, exception name or None) of the real interpreter"""
    from verif.harness.op import eval_program
    try:
        with contextlib.redirect_stdout(io.StringIO()):
            r = eval_program(cmds, ctx["version"], ctx["locktime"], ctx["sequence"])
        return r is True, None
    except Exception as e:            # an exception escaping evaluate is a rejection (recorded separately)
        return False, type(e).__name__


def _explained_by_2rot(cmds, ctx, want):
    """The recorded finding: op_2rot copies the third pair instead of moving it (the repository's own test pins that).
    A mismatch of a program that contains OP_2ROT is attributed to that finding only if it DISAPPEARS when the same real
    interpreter runs with OP_2ROT alone replaced by the consensus operation (dispatch table patched for this one call,
    nothing else touched); any other mismatch of such a program is still reported as a violation."""
    if not any(isinstance(c, int) and c == 0x71 for c in cmds):
        return False
    from buidl import op as _op

    def consensus_2rot(stack):
        if len(stack) < 6:
            return False
        pair = stack[-6:-4]
        del stack[-6:-4]
        stack.extend(pair)
        return True
    tables = [t for t in (_op.OP_CODE_FUNCTIONS, getattr(_op, "TAPROOT_OP_CODE_FUNCTIONS", None)) if t is not None]
    saved = [t.get(0x71) for t in tables]
    for t in tables:
        t[0x71] = consensus_2rot
    try:
        got, _ = _real_eval(cmds, ctx)
    finally:
        for t, f in zip(tables, saved):
            t[0x71] = f
    return got == want


def _out_of_scope(cmds, ctx):
    """True when some arithmetic opcode meets an operand longer than 4 bytes while consensus executes the program
    (the run with CScriptNum's 4-byte limit differs from the run without it): such programs are outside the property
    ("arithmetic and comparisons on operands of at most 4 bytes"); consensus fails them, the repository computes on."""
    strict = SO.run_script(cmds, ctx)
    keep = SO.MAX_NUM_SIZE
    SO.MAX_NUM_SIZE = 10 ** 9
    try:
        relaxed = SO.run_script(cmds, ctx)
    finally:
        SO.MAX_NUM_SIZE = keep
    return strict != relaxed


def _fmt(cmds):
    def one(c):
        if isinstance(c, int):
            return SO.OPCODE_NAMES.get(c, "OP_%d" % c)
        if len(c) > 40:
            return "<%d bytes %s...>" % (len(c), c[:4].hex())
        return c.hex() or "<>"
    return [one(c) for c in cmds]


def _label(cmds, ctx, real_ok, exc):
    ok, stack = SO.run_script(cmds, ctx)
    if real_ok and ok and len(stack) > 0 and not SO.cast_to_bool(stack[-1]):
        return "final stack top %s is false for consensus but the script is accepted" % stack[-1].hex()
    feats = []
    for nm, code in (("OP_2ROT", 0x71), ("OP_PICK", 0x79), ("OP_ROLL", 0x7a), ("OP_CHECKSEQUENCEVERIFY", 0xb2),
                     ("OP_CHECKLOCKTIMEVERIFY", 0xb1)):
        if any(isinstance(c, int) and c == code for c in cmds):
            feats.append(nm)
    if _has_multi_else(cmds):
        feats.append("multiple-ELSE")
    if any(isinstance(c, bytes) and len(c) > SO.MAX_ELEMENT_SIZE for c in cmds):
        feats.append("push > 520 bytes")
    return "accept/reject mismatch (consensus %s, buidl %s%s); program uses %s" % (
        "accepts" if not real_ok else "rejects", "accepts" if real_ok else "rejects", " by raising " + exc if exc else "",
        ", ".join(feats) or "no stack-index, timelock or multi-ELSE opcode")


def programs(seed, tier):
    rng = random.Random(seed * 7919 + 7)
    evals = 0
    distinct = set()
    failures = {}
    samples = []
    exceptions = {}
    accepted = [0, 0]
    out_of_scope = [0, []]

    def check(cmds, ctx, family):
        nonlocal evals
        want = SO.eval_script(cmds, ctx)
        got, exc = _real_eval(cmds, ctx)
        evals += 1
        distinct.add(hash((repr(cmds), ctx["version"], ctx["locktime"], ctx["sequence"])))
        accepted[0] += want
        accepted[1] += got
        if exc:
            exceptions[exc] = exceptions.get(exc, 0) + 1
        if len(samples) < 3 and evals % 997 == 1:
            samples.append({"family": family, "program": _fmt(cmds), "ctx": ctx, "consensus": want, "buidl": got})
        if want != got and _out_of_scope(cmds, ctx):
            # an arithmetic operand longer than 4 bytes occurs in the run: outside the property's scope
            out_of_scope[0] += 1
            if not out_of_scope[1]:
                out_of_scope[1].append({"program": _fmt(cmds), "ctx": ctx, "consensus": want, "buidl": got})
        elif want != got:
            lab = _label(cmds, ctx, got, exc)
            key = lab.split(";")[-1] if "mismatch" in lab else "final-truthiness"
            by_2rot = _explained_by_2rot(cmds, ctx, want)
            if by_2rot:
                key = "explained by the recorded OP_2ROT finding"
                lab += " -- the mismatch disappears with the consensus OP_2ROT in the dispatch table (recorded finding)"
            lst = failures.setdefault(key, [])
            if len(lst) < 2 or (len(lst) < 4 and len(cmds) < min(len(f["inputs"]["program"]) for f in lst)):
                lst.append({"what": "programs[%s]: %s" % (family, lab),
                            "inputs": {"program": _fmt(cmds), "cmds": jsonable(cmds), "ctx": ctx,
                                       "explained_by": "op_2rot" if by_2rot else ""},
                            "violated": ["Script(cmds).evaluate(tx, 0) == spec.script_ops.eval_script(cmds, ctx): consensus %s, buidl %s%s"
                                         % (want, got, " (raised %s)" % exc if exc else "")]})

    ctx0 = {"version": 2, "locktime": 500000005, "sequence": 10}
    # (1) ALL programs up to a small size over reduced alphabets
    alpha_a = [0x00, 0x51, b"\x80", IF, NOTIF, ELSE, ENDIF]                       # conditionals
    alpha_b = [0x00, 0x51, 0x52, b"\x80", b"\x00", 0x4f, 0x76, 0x69, 0x79, 0x7a, 0x93, 0x87, 0x91, 0x73]   # data flow
    la, lb = (6, 4) if tier == "quick" else (7, 5)
    for n in range(0, la + 1):
        for t in itertools.product(alpha_a, repeat=n):
            check(list(t), ctx0, "all<=%d over {0,1,<80>,IF,NOTIF,ELSE,ENDIF}" % la)
    for n in range(0, lb + 1):
        for t in itertools.product(alpha_b, repeat=n):
            check(list(t), ctx0, "all<=%d over {0,1,2,<80>,<00>,1NEGATE,DUP,VERIFY,PICK,ROLL,ADD,EQUAL,NOT,IFDUP}" % lb)
    # every context-free opcode after 0..7 distinct pushes (single-opcode conformance inside evaluate)
    marks = [b"m0", b"m1", b"m2", b"m3", b"m4", b"m5", b"\x02"]
    for code in sorted(SO.SIMPLE_OPS) + [0xb1, 0xb2]:
        for d in range(0, 8):
            for tail in ([], [0x51]):
                check(marks[7 - d:] + [code] + tail, ctx0, "one opcode on a stack of depth 0..7")
    # timelock opcodes: operand x context boundaries
    from verif.contracts.op import _operand_bytes, _LT, _SEQ
    for e in _operand_bytes():
        if e is None:
            continue
        for code in (0xb1, 0xb2):
            for version in (1, 2):
                for locktime in (0, 499999999, 500000000, 2**32 - 1):
                    for sequence in _SEQ:
                        check([e, code], {"version": version, "locktime": locktime, "sequence": sequence}, "<operand> CLTV|CSV")
    # pushes longer than MAX_SCRIPT_ELEMENT_SIZE make a script invalid, executed or not
    for big in (b"\x01" * 520, b"\x01" * 521):
        check([big], ctx0, "push of 520 / 521 bytes")
        check([0x51, big, 0x75], ctx0, "push of 520 / 521 bytes")
        check([0x00, IF, big, ENDIF, 0x51], ctx0, "push of 520 / 521 bytes")
    # (2) seeded random properly nested programs of <= 40 operations
    n_rand = 30000 if tier == "quick" else 400000
    for i in range(n_rand):
        ctx = {"version": rng.choice(_CTX_VERSION), "locktime": rng.choice(_CTX_LOCKTIME), "sequence": rng.choice(_CTX_SEQUENCE)}
        check(gen_program(rng, 40, multi_else=(i % 5 == 0)), ctx, "random<=40")
    flat = [f for lst in failures.values() for f in lst]
    return {"evaluations": evals, "distinct": len(distinct), "failures": flat[:16], "samples": samples,
            "bound": "all programs of <= %d commands over a 7-symbol conditional alphabet and <= %d commands over a 14-symbol data-flow "
                     "alphabet; every context-free opcode after 0..7 pushes; CLTV/CSV operand x context boundary grid; %d seeded random "
                     "properly nested programs of <= 40 operations (pushes never 20 or 32 bytes long); accept/reject compared with "
                     "spec.script_ops.eval_script, an exception escaping evaluate counted as reject" % (la, lb, n_rand),
            "accepted_by_consensus": accepted[0], "accepted_by_buidl": accepted[1], "exceptions": exceptions,
            "out_of_scope_operand_longer_than_4_bytes": out_of_scope[0], "out_of_scope_example": out_of_scope[1]}


def codec(seed, tier):
    """number codec on integers of every size (the all-integers statement that the symbolic run leaves as TODO):
    encode_num(n) == scriptnum_enc(n), minimal, decode_num inverts it; decode_num == scriptnum_dec and the truth value
    == cast_to_bool on byte strings of every length 0..3 exhaustively (thorough) / over boundary bytes (quick)"""
    from buidl import op
    rng = random.Random(seed * 31 + 5)
    evals = 0
    failures = []
    distinct = set()
    samples = []

    def bad(what, inputs, violated):
        if len(failures) < 6:
            failures.append({"what": "codec: " + what, "inputs": jsonable(inputs), "violated": violated})

    ints = set()
    for k in range(0, 601):
        for d in (-1, 0, 1):
            ints.add(2 ** k + d)
            ints.add(-(2 ** k + d))
    ints.update(range(-70000, 70001) if tier != "quick" else range(-3000, 3001))
    for _ in range(20000 if tier == "quick" else 300000):
        v = rng.getrandbits(rng.choice([8, 16, 24, 31, 32, 33, 40, 64, 128, 521]))
        ints.add(v if rng.random() < 0.5 else -v)
    for n in ints:
        evals += 1
        e = op.encode_num(n)
        v = []
        if e != SO.scriptnum_enc(n):
            v.append("encode_num(n) == spec.script_ops.scriptnum_enc(n)")
        if not SO.is_minimal_num(e):
            v.append("spec.script_ops.is_minimal_num(encode_num(n))")
        if op.decode_num(e) != n or SO.scriptnum_dec(e) != n:
            v.append("decode_num(encode_num(n)) == n")
        if v:
            bad("integer %d" % n, {"n": n}, v)
    distinct.update(ints)
    vals = list(range(256)) if tier != "quick" else [0, 1, 2, 0x7e, 0x7f, 0x80, 0x81, 0xfe, 0xff]
    for k in range(0, 4):
        for t in itertools.product(vals, repeat=k):
            b = bytes(t)
            evals += 1
            distinct.add(b)
            d = op.decode_num(b)
            v = []
            if d != SO.scriptnum_dec(b):
                v.append("decode_num(b) == spec.script_ops.scriptnum_dec(b)")
            if (d != 0) != SO.cast_to_bool(b):
                v.append("(decode_num(b) != 0) == spec.script_ops.cast_to_bool(b)")
            if SO.is_minimal_num(b) and op.encode_num(d) != b:
                v.append("is_minimal_num(b) -> encode_num(decode_num(b)) == b")
            if v:
                bad("bytes " + b.hex(), {"b": b}, v)
    samples.append({"n": str(2 ** 600 + 1), "encoded_len": len(op.encode_num(2 ** 600 + 1))})
    return {"evaluations": evals, "distinct": len(distinct), "failures": failures, "samples": samples,
            "bound": "integers +-(2^k + {-1,0,1}) for k <= 600, a dense range around 0, seeded random integers up to 521 bits; "
                     "byte strings of length 0..3 over %s" % ("all byte values" if tier != "quick" else "9 boundary byte values")}


BOUNDED = [("rt-contracts", rt_contracts), ("programs", programs), ("codec", codec)]

TRUSTED_BASE = ["pyvc symbolic executor (A-ENGINE)", "z3 5.1",
                "spec functions verif/specs/script_ops.py transcribed from interpreter.cpp / script.h / BIP65 / BIP68 / BIP112 / BIP342 (A-SPEC)",
                "harness functions verif/harness/op.py (straight-line wrappers building the stack list)",
                "CPython built-ins per verif/pyvc/calls.py (A-BUILTIN)", "hashlib digests uninterpreted"]
ASSUMPTIONS = ["A-ENGINE", "A-SPEC", "A-BUILTIN", "termination not verified",
               "symbolic scope of one opcode contract: listed stack depths with arbitrary rest-of-stack elements, numeric operands 0..4 bytes, "
               "truth-valued operands 0..8 bytes; other depths up to 7 and longer elements are covered by the bounded companion only",
               "whole-program agreement (splice-based IF execution == vfExec execution) is bounded, not proved"]
EXPLANATION = ("Script interpreter conformance: each opcode function of buidl/op.py, the script-number codec, the timelock opcodes and the "
               "final-stack test of Script.evaluate against an executable transcription of Bitcoin Core's interpreter (per-path symbolic "
               "execution, z3), the dispatch tables exhaustively against the opcode table and BIP342, whole programs by bounded enumeration "
               "and seeded random generation.")
CATEGORY = "other"
LEVEL_TEXT = ("Deductive per opcode, bounded per program: every path of each opcode function is checked against the consensus spec function for "
              "symbolic stack elements; dispatch tables are checked exhaustively; agreement of whole scripts (conditional splicing vs vfExec, "
              "opcode interaction, final truthiness) is checked on all small programs over reduced alphabets and on seeded random programs of "
              "<= 40 operations. Claimed as 'other', not 'proof': whole-program agreement is bounded, the all-integers codec statements need loop invariants, "
              "and one recorded finding (OP_2ROT copies instead of moving; the repository's own test pins it) keeps two obligations failing.  "
              "The defects these checks found on the pinned tree are repaired by fix: commits in /repo (one `fixed:` line each in /verif/KNOWN_FINDINGS.jsonl).")
LEVEL_NOTE = ("trusted: pyvc translation (A-ENGINE), spec transcription of interpreter.cpp (A-SPEC), harness wrappers, CPython builtin contracts "
              "(A-BUILTIN), hash functions uninterpreted; termination not verified; whole-program agreement bounded only")
JOB_TIMEOUT = {"quick": 240, "thorough": 1500}
