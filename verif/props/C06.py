"""C06: input verification accepts properly signed spends and nothing unauthorised.

Deductive part: the contracts of verif/contracts/verify.py (annex rule, control-block codec and
Merkle fold, the CHECKMULTISIG matching loop with the signature check abstracted).
Bounded part (the property's quantifier): every output type is funded, spent and signed through
the repository's own API with deterministic keys (completeness), then every mutation of the
catalogue is applied; the real `Tx.verify_input` is compared with the independent predicate
`spec.authorise.authorised` (verif/specs/authorise.py): True is allowed only for authorised spends.
"""
import hashlib
import itertools
import json
import random
import time

from verif.pyvc.verifier import REG
from verif.bounded import fuzz_job
import verif.contracts  # noqa

CONTRACTS = [n for n, c in REG.contracts.items() if "C06" in c.props]
TABLES = []
JOB_TIMEOUT = {"quick": 240, "thorough": 1500}

OP_0, OP_1, OP_NOP, OP_DROP, OP_DUP = 0x00, 0x51, 0x61, 0x75, 0x76
CLAUSE_SOUND = "verify_input(i) is truthy  ==>  spec.authorise.authorised(spend)"
CLAUSE_COMPLETE = "spend signed through the library API with the required keys  ==>  verify_input(i) is True"


# ------------------------------------------------------------------------------------------------
# bookkeeping
# ------------------------------------------------------------------------------------------------
class Run:
    def __init__(self, job, seed, tier, budget=None):
        self.job, self.seed, self.tier = job, seed, tier
        self.t0 = time.time()
        self.budget = budget or (75 if tier == "quick" else 1100)
        self.evals = 0
        self.seen = set()
        self.failures = []
        self.fail_counts = {}
        self.fail_examples = {}
        self.key_counts = {}
        self.samples = []
        self.notes = {}
        self.out_of_scope = 0
        self.skipped_for_time = 0
        self.classes = {}
        self.sp = None            # the honest spend the current mutations derive from (for severity labels)

    def left(self):
        return self.budget - (time.time() - self.t0)

    def note(self, k):
        self.notes[k] = self.notes.get(k, 0) + 1

    def _fail(self, template, mclass, what, desc, clause, extra):
        from verif.harness import verify as H
        sev = extra.get("severity")
        key = "C06/%s/%s%s" % (mclass, template.split("/")[0], ("/" + sev.split(":")[0]) if sev else "")
        full = "%s/%s%s" % (mclass, template, ("/" + sev.split(":")[0]) if sev else "")
        self.fail_counts[full] = self.fail_counts.get(full, 0) + 1
        self.key_counts[key] = self.key_counts.get(key, 0) + 1
        ex = self.fail_examples.setdefault(key, [])
        if len(ex) < 12:
            ex.append("%s [%s] -> %s" % (extra.get("mutation", ""), extra.get("mode", ""), extra.get("verify_input", "")))
        if self.key_counts[key] > 1:
            return
        inputs = H.desc_json(desc)
        inputs.update(extra)
        self.failures.append({"contract": key, "what": what, "inputs": inputs, "violated": [clause]})

    def case(self, template, mclass, desc, expect=None, mutation="", actual=None, mode="fresh"):
        """one evaluation.  expect: "honest" (library-signed, must verify), "unauthorised" (catalogue
        claims it), None (the spec alone decides).  `actual` may be supplied (in-place runs)."""
        from verif.harness import verify as H
        from verif.specs import authorise as A
        if actual is None:
            actual = H.run_verify(desc)
        self.evals += 1
        self.classes[mclass] = self.classes.get(mclass, 0) + 1
        try:
            fp = hashlib.sha256(json.dumps(H.desc_json(desc), sort_keys=True).encode() + mode.encode()).hexdigest()
        except Exception:
            fp = repr(desc)
        self.seen.add(fp)
        try:
            auth = A.authorised(desc)
        except A.OutOfScope:
            self.out_of_scope += 1
            auth = None
        extra = {"template": template, "mutation_class": mclass, "mutation": mutation, "mode": mode,
                 "verify_input": actual, "spec_authorised": auth}
        if len(self.samples) < 3 and self.evals % 11 == 1:
            self.samples.append({"template": template, "class": mclass, "mutation": mutation, "verify_input": actual,
                                 "spec_authorised": auth})
        if expect == "honest":
            if auth is not True:
                self._fail(template, "spec-selfcheck", "spec rejects a library-signed %s spend (spec or signing API wrong)" % template,
                           desc, "spec.authorise.authorised(honest spend)", extra)
            if actual != "True":
                self._fail(template, "completeness", "honest %s spend (%s) not accepted: verify_input -> %s" % (template, mutation, actual),
                           desc, CLAUSE_COMPLETE, extra)
            return actual, auth
        if expect == "unauthorised" and auth is True:
            self.note("catalogue says unauthorised but spec says authorised: %s/%s" % (template, mclass))
        if actual == "True" and auth is False:
            extra["severity"] = severity(self.sp, desc)
            head = "CONSENSUS-INVALID (signatures present, form rule broken)" if extra["severity"].startswith("form-only") else "UNAUTHORISED"
            self._fail(template, mclass, "%s %s spend accepted (%s; %s; %s) [%s]" % (head, template, mclass, mutation, mode, extra["severity"].split(":")[0]),
                       desc, CLAUSE_SOUND, extra)
        return actual, auth

    def result(self, bound):
        if self.skipped_for_time:
            bound += "; %d sampled cases skipped when the %ds budget ran out" % (self.skipped_for_time, self.budget)
        extra_counts = {k: v for k, v in self.fail_counts.items()}
        return {"evaluations": self.evals, "distinct": len(self.seen), "failures": self.failures, "samples": self.samples,
                "bound": bound, "failure_counts": extra_counts, "failure_mutations": self.fail_examples, "classes": self.classes, "out_of_scope": self.out_of_scope,
                "notes": self.notes}


def severity(sp, desc):
    """label for an accepted-but-unauthorised spend: how many of the required signatures by the committed
    keys over THIS transaction are present anywhere in the scriptSig / witness.  Diagnostic only: the
    verdict is the spec's."""
    from verif.specs import authorise as A
    if sp is None:
        return "no-signature-script: the script carries no key at all"
    try:
        dg = A.RepoDigest(desc)
        d = desc["ins"][desc["index"]]
        pushes = [c for c in d["script_sig"] if isinstance(c, bytes)] + list(d["witness"])
        found = 0
        if not sp.kind.startswith("p2tr"):
            keys = [p.point.sec() for p in sp.privs]
            for k in keys:
                if sp.kind in ("p2pkh",):
                    kind, code = "legacy", A._p2pkh_script_code(A._h160(k))
                elif sp.kind in ("p2wpkh", "p2sh-p2wpkh"):
                    kind, code = "bip143", A._p2pkh_script_code(A._h160(k))
                else:
                    kind, code = ("legacy" if sp.kind == "p2sh-ms" else "bip143"), list(sp.script.commands)
                if any(A._ecdsa_sig_ok(dg, kind, code, s, k) for s in pushes):
                    found += 1
        else:
            w = list(d["witness"])
            annex = w[-1] if A.has_annex(w) else None
            if sp.kind == "p2tr-key":
                keys, leaf = [d["spk"][1]], None
            else:
                hw = sp.desc["ins"][sp.desc["index"]]["witness"]
                keys, leaf = [p.point.xonly() for p in sp.privs], (hw[sp.script_loc], hw[sp.cb_loc])
            for k in keys:
                for s in pushes:
                    if len(s) in (64, 65):
                        ht = s[64] if len(s) == 65 else 0
                        try:
                            if A.schnorr_ok(k, dg("bip341", ht, leaf=leaf, annex=annex), s[:64]):
                                found += 1
                                break
                        except Exception:
                            pass
        need = sp.m
        if found < need:
            return "NO-AUTHORISATION: %d of the %d required signatures (by script keys, over this transaction) present" % (found, need)
        return "form-only: the %d required valid signatures are present; consensus rejects the spend for its form" % need
    except Exception as e:      # the label must never mask the verdict
        return "unlabelled: %r" % (e,)


# ------------------------------------------------------------------------------------------------
# mutation primitives (over spend descriptions)
# ------------------------------------------------------------------------------------------------
def _get(desc, loc):
    return desc["ins"][desc["index"]][loc[0]][loc[1]]


def _set(desc, loc, val):
    desc["ins"][desc["index"]][loc[0]][loc[1]] = val


def _mut(desc, fn):
    from verif.harness import verify as H
    d = H.copy_desc(desc)
    fn(d)
    return d


def _flip(b, bit):
    i = bit // 8
    return b[:i] + bytes([b[i] ^ (1 << (bit % 8))]) + b[i + 1:]


def _bit_positions(sig, rng, tier, ecdsa, all_bits):
    n = len(sig)
    if all_bits:
        return list(range(8 * n))
    if ecdsa and n > 8:
        lr = sig[3] if sig[3] + 6 < n else 32
        idx = [0, 1, 2, 3, 4, 4 + lr // 2, 3 + lr, 4 + lr, 5 + lr, 6 + lr, n - 2, n - 1]
    else:
        idx = [0, 15, 31, 32, 48, 63] + ([64] if n > 64 else [])
    pos = sorted({(i % n) * 8 + rng.randrange(8) for i in idx})
    extra = 4 if tier == "quick" else 64
    pos += [rng.randrange(8 * n) for _ in range(extra)]
    return sorted(set(pos))


def tx_field_mutations(sp):
    """(name, desc-mutator) for every committed field (SIGHASH_ALL / DEFAULT commits to all of them)"""
    d0 = sp.desc
    i = d0["index"]
    segwit_digest = sp.kind not in ("p2pkh", "p2sh-ms")
    muts = [
        ("output0.amount+1", lambda d: d["outs"][0].__setitem__("amount", d["outs"][0]["amount"] + 1)),
        ("output0.script byte", lambda d: d["outs"][0].__setitem__("spk", [d["outs"][0]["spk"][0], _flip(d["outs"][0]["spk"][1], 3)])),
        ("append output", lambda d: d["outs"].append({"amount": 1, "spk": [0x00, b"\x11" * 20]})),
        ("last output.amount-1", lambda d: d["outs"][-1].__setitem__("amount", d["outs"][-1]["amount"] - 1)),
        ("locktime+1", lambda d: d.__setitem__("locktime", d["locktime"] + 1)),
        ("sequence-1", lambda d: d["ins"][i].__setitem__("sequence", d["ins"][i]["sequence"] - 1)),
        ("prev_index+1", lambda d: d["ins"][i].__setitem__("prev_index", d["ins"][i]["prev_index"] + 1)),
        ("prev_tx bit", lambda d: d["ins"][i].__setitem__("prev_tx", _flip(d["ins"][i]["prev_tx"], 77))),
        ("version+1", lambda d: d.__setitem__("version", d["version"] + 1)),
    ]
    if len(d0["outs"]) > 1:
        muts.append(("drop last output", lambda d: d["outs"].pop()))
    if len(d0["ins"]) > 1:
        j = (i + 1) % len(d0["ins"])
        muts.append(("other input sequence-1", lambda d: d["ins"][j].__setitem__("sequence", d["ins"][j]["sequence"] - 1)))
        muts.append(("other input prev_index+1", lambda d: d["ins"][j].__setitem__("prev_index", d["ins"][j]["prev_index"] + 1)))
    if segwit_digest:
        muts.append(("prevout amount+1", lambda d: d["ins"][i].__setitem__("amount", d["ins"][i]["amount"] + 1)))
    if sp.kind.startswith("p2tr") and len(d0["ins"]) > 1:
        j = (i + 1) % len(d0["ins"])
        muts.append(("other prevout amount+1", lambda d: d["ins"][j].__setitem__("amount", d["ins"][j]["amount"] + 1)))
        muts.append(("other prevout script", lambda d: d["ins"][j].__setitem__("spk", [0x00, b"\x22" * 20])))
    return muts


def sync_obj(tx, desc):
    """set the committed fields of a live Tx object from a description (what a user editing the
    object after signing does); scriptSig and witness are left alone"""
    from buidl.tx import TxOut
    from buidl.script import Script
    from buidl.timelock import Locktime, Sequence
    tx.version = desc["version"]
    tx.locktime = Locktime(desc["locktime"])
    for ti, d in zip(tx.tx_ins, desc["ins"]):
        ti.prev_tx, ti.prev_index, ti.sequence = d["prev_tx"], d["prev_index"], Sequence(d["sequence"])
        ti._value = d["amount"]
        ti._script_pubkey = Script(list(d["spk"]))
    tx.tx_outs = [TxOut(o["amount"], Script(list(o["spk"]))) for o in desc["outs"]]


def run_field_mutations(R, sp, template, inplace=True):
    from verif.harness import verify as H
    for name, fn in tx_field_mutations(sp):
        d = _mut(sp.desc, fn)
        R.case(template, "tx-field-changed-after-signing", d, expect="unauthorised", mutation=name)
    if inplace:
        # same object, edited after it was signed and verified once (the property's observation point)
        first = H.run_verify_obj(sp.tx, sp.desc["index"])
        if first != "True":
            R.note("live object does not verify before in-place edits: %s" % template)
        for name, fn in tx_field_mutations(sp):
            d = _mut(sp.desc, fn)
            try:
                sync_obj(sp.tx, d)
                actual = H.run_verify_obj(sp.tx, d["index"])
            finally:
                sync_obj(sp.tx, sp.desc)
            R.case(template, "tx-field-changed-in-place", d, expect="unauthorised", mutation=name, actual=actual, mode="in-place")


def run_signature_mutations(R, sp, template, rng, all_bits=False):
    """per signature: bit flips, foreign-key signature, empty, truncated, sighash byte"""
    ecdsa = not sp.kind.startswith("p2tr")
    for si, loc in enumerate(sp.sigs):
        sig = _get(sp.desc, loc)
        fsig = sp.sign_as(sp.foreign, sp.desc)
        R.case(template, "foreign-key-signature", _mut(sp.desc, lambda d: _set(d, loc, fsig)), "unauthorised", "sig %d replaced by foreign key's signature over the same digest" % si)
        R.case(template, "empty-signature", _mut(sp.desc, lambda d: _set(d, loc, b"")), "unauthorised", "sig %d := empty" % si)
        R.case(template, "truncated-signature", _mut(sp.desc, lambda d: _set(d, loc, sig[:-1])), "unauthorised", "sig %d without its last byte" % si)
        R.case(template, "truncated-signature", _mut(sp.desc, lambda d: _set(d, loc, sig[1:])), "unauthorised", "sig %d without its first byte" % si)
        if ecdsa:
            types = [0x02, 0x03, 0x81, 0x00, 0x82, 0x83, 0x41] if R.tier != "quick" else [0x02, 0x81, 0x03]
            for t in types:
                R.case(template, "wrong-sighash-byte", _mut(sp.desc, lambda d: _set(d, loc, sig[:-1] + bytes([t]))), "unauthorised", "sig %d hash type byte := 0x%02x" % (si, t))
        else:
            base = sig[:64]
            have = sig[64] if len(sig) == 65 else 0
            for t in (0x00, 0x01, 0x02, 0x03, 0x81, 0x04, 0xFF):
                if t == have and len(sig) == 65:
                    continue
                R.case(template, "wrong-sighash-byte" if t else "explicit-default-sighash-byte", _mut(sp.desc, lambda d: _set(d, loc, base + bytes([t]))), "unauthorised", "sig %d: 64-byte signature followed by hash type 0x%02x" % (si, t))
            if len(sig) == 65:
                R.case(template, "wrong-sighash-byte", _mut(sp.desc, lambda d: _set(d, loc, base)), "unauthorised", "sig %d: hash type byte removed" % si)
    for si, loc in enumerate(sp.sigs):
        sig = _get(sp.desc, loc)
        for bit in _bit_positions(sig, rng, R.tier, ecdsa, all_bits):
            if R.left() < 0:
                R.skipped_for_time += 1
                continue
            R.case(template, "signature-bit-flip", _mut(sp.desc, lambda d: _set(d, loc, _flip(sig, bit))), "unauthorised", "sig %d bit %d flipped" % (si, bit))


def run_multisig_mutations(R, sp, template):
    """m-1 signatures, wrong order, duplicates, foreign signatures at every position"""
    m = sp.m
    locs = sp.sigs
    sigs = [_get(sp.desc, loc) for loc in locs]
    where = locs[0][0]
    first = locs[0][1]

    def with_sigs(new):
        def f(d):
            arr = d["ins"][d["index"]][where]
            arr[first:first + m] = new
        return _mut(sp.desc, f)
    fsig = sp.sign_as(sp.foreign, sp.desc)
    for j in range(m):
        R.case(template, "fewer-than-m-signatures", with_sigs(sigs[:j] + sigs[j + 1:]), "unauthorised", "signature %d dropped (%d of %d left)" % (j, m - 1, m))
    if m >= 2:
        R.case(template, "signatures-wrong-order", with_sigs(sigs[::-1]), "unauthorised", "signatures reversed")
        for j in range(m - 1):
            new = list(sigs)
            new[j], new[j + 1] = new[j + 1], new[j]
            R.case(template, "signatures-wrong-order", with_sigs(new), "unauthorised", "signatures %d and %d swapped" % (j, j + 1))
        for j in range(m):
            for t in range(m):
                if j != t:
                    new = list(sigs)
                    new[j] = sigs[t]
                    R.case(template, "duplicated-signature", with_sigs(new), "unauthorised", "signature %d := signature %d" % (j, t))
    for j in range(m):
        new = list(sigs)
        new[j] = fsig
        R.case(template, "unmatched-signature", with_sigs(new), "unauthorised",
               "signature %d of %d replaced by a foreign key's signature (matches no script key)" % (j, m))
    R.case(template, "unmatched-signature", with_sigs([fsig] * m), "unauthorised", "all %d signatures by a foreign key" % m)
    # a valid signature by a script key that is NOT among the m supplied, placed out of order
    unused = [j for j in range(sp.n) if j not in sp.signers]
    if unused and m >= 2:
        k = unused[-1]
        ksig = sp.sign_as(sp.privs[k], sp.desc)
        if k > sp.signers[0]:
            R.case(template, "signatures-wrong-order", with_sigs([ksig] + sigs[1:]), None, "first signature by later key %d" % k)


def run_script_hash_mutations(R, sp, template):
    """scriptPubKey / redeem script / witness script / public key mismatches"""
    from buidl.script import Script
    i = sp.desc["index"]
    spk = sp.desc["ins"][i]["spk"]
    pi = [k for k, c in enumerate(spk) if isinstance(c, bytes)][0]
    R.case(template, "script-hash-mismatch", _mut(sp.desc, lambda d: d["ins"][i]["spk"].__setitem__(pi, _flip(spk[pi], 9))), "unauthorised", "scriptPubKey program bit flipped")
    fsec = sp.foreign.point.sec()
    if sp.kind in ("p2pkh", "p2wpkh", "p2sh-p2wpkh"):
        loc = sp.keyloc
        R.case(template, "wrong-public-key", _mut(sp.desc, lambda d: _set(d, loc, fsec)), "unauthorised", "public key := foreign key (signature kept)")
        fsig = sp.sign_as(sp.foreign, sp.desc)

        def both(d):
            _set(d, loc, fsec)
            _set(d, sp.sigs[0], fsig)
        R.case(template, "wrong-public-key", _mut(sp.desc, both), "unauthorised", "public key and signature := foreign key's")
    if sp.kind == "p2sh-p2wpkh":
        other = [0x00, b"\x33" * 20]
        R.case(template, "script-hash-mismatch", _mut(sp.desc, lambda d: d["ins"][i].__setitem__("script_sig", [Script(other).raw_serialize()])), "unauthorised", "redeem script := other P2WPKH program")
    if sp.kind in ("p2sh-ms", "p2wsh-ms", "p2sh-p2wsh-ms"):
        cmds = list(sp.script.commands)
        variants = []
        if sp.m > 1:
            variants.append(("m lowered to %d" % (sp.m - 1), [cmds[0] - 1] + cmds[1:]))
        variants.append(("key 0 := foreign key", [cmds[0], fsec] + cmds[2:]))
        if sp.n > 1:
            variants.append(("keys 0 and 1 swapped", [cmds[0], cmds[2], cmds[1]] + cmds[3:]))
        where = "script_sig" if sp.kind == "p2sh-ms" else "witness"
        for name, new in variants:
            raw = Script(new).raw_serialize()

            def f(d, raw=raw):
                d["ins"][i][where][-1] = raw
            R.case(template, "script-hash-mismatch", _mut(sp.desc, f), "unauthorised", "%s script: %s (hash not updated)" % ("redeem" if where == "script_sig" else "witness", name))
        if sp.kind == "p2sh-p2wsh-ms":
            R.case(template, "script-hash-mismatch", _mut(sp.desc, lambda d: d["ins"][i].__setitem__("script_sig", [b"\x00\x20" + b"\x44" * 32])), "unauthorised", "redeem script := other P2WSH program")
    if sp.kind in ("p2sh-ms", "p2sh-p2wpkh", "p2sh-p2wsh-ms"):
        ss = list(sp.desc["ins"][i]["script_sig"])
        redeem = ss[-1]
        for name, new in [("valid scriptSig + OP_DUP", ss + [OP_DUP]), ("valid scriptSig + OP_NOP", ss + [OP_NOP]),
                          ("[redeem, OP_DUP]", [redeem, OP_DUP]), ("[redeem, OP_NOP]", [redeem, OP_NOP]),
                          ("[OP_1, redeem, OP_DUP]", [OP_1, redeem, OP_DUP]),
                          ("[redeem, OP_1, OP_DROP]", [redeem, OP_1, OP_DROP]),
                          ("[redeem, redeem, OP_DROP]", [redeem, redeem, OP_DROP])]:
            R.case(template, "p2sh-non-push-scriptsig", _mut(sp.desc, lambda d: d["ins"][i].__setitem__("script_sig", new)), "unauthorised", name)
            if sp.kind != "p2sh-ms":
                def f(d):
                    d["ins"][i]["script_sig"] = new
                    d["ins"][i]["witness"] = []
                R.case(template, "p2sh-non-push-scriptsig", _mut(sp.desc, f), "unauthorised", name + ", witness removed")


def run_native_witness_scriptsig(R, sp, template):
    """native witness programs (v0 / v1) spent with a non-empty scriptSig and no or garbage witness"""
    i = sp.desc["index"]
    d0 = sp.desc["ins"][i]
    junk = b"\xde\xad\xbe\xef"
    sigs = [
        ("[OP_1]", [OP_1]), ("[junk]", [junk]), ("[OP_0]", [OP_0]), ("[OP_1, OP_1]", [OP_1, OP_1]), ("[OP_NOP]", [OP_NOP]),
        ("[junk, junk]", [junk, junk]), ("[OP_0, program]", [OP_0, d0["spk"][1]]),
    ]
    if d0["witness"] and len(d0["witness"]) >= 2:
        sigs.append(("witness items moved into the scriptSig", [w if w else OP_0 for w in d0["witness"] if len(w) != 75]))
    wits = [("no witness", []), ("garbage witness", [junk]), ("honest witness kept", list(d0["witness"]))]
    for sn, ss in sigs:
        for wn, w in wits:
            def f(d):
                d["ins"][i]["script_sig"] = list(ss)
                d["ins"][i]["witness"] = list(w)
            R.case(template, "witness-program-with-scriptsig", _mut(sp.desc, f), "unauthorised" if wn != "honest witness kept" else None,
                   "scriptSig %s, %s" % (sn, wn))
    for wn, w in wits[:2]:
        R.case(template, "missing-witness", _mut(sp.desc, lambda d: d["ins"][i].__setitem__("witness", list(w))), "unauthorised", "empty scriptSig, " + wn)


def run_annex_cases(R, sp, template, rng):
    i = sp.desc["index"]
    w0 = list(sp.desc["ins"][i]["witness"])
    cases = [("[0x50]", [b"\x50"]), ("[0x50 || 32 random bytes]", [b"\x50" + bytes(rng.getrandbits(8) for _ in range(32))]),
             ("[0x50 || 63 random bytes] (signature-sized)", [b"\x50" + bytes(rng.getrandbits(8) for _ in range(63))]),
             ("[0x50 0x50]", [b"\x50\x50"]),
             ("[empty, 0x50-annex] (empty signature + annex)", [b"", b"\x50\x01"]),
             ("[] (empty witness)", []),
             ("[empty]", [b""]),
             ("[garbage 64 bytes]", [bytes(rng.getrandbits(8) for _ in range(64))])]
    if len(w0) >= 2:
        cases.append(("script and control block only, then treated with annex: [script, cb, 0x50]", w0[-2:] + [b"\x50"]))
        cases.append(("[control block, 0x50-annex]", [w0[-1], b"\x50\x00"]))
        cases.append(("[script, 0x50-annex]", [w0[-2], b"\x50\x00"]))
        cases.append(("signatures dropped: [script, cb]", w0[-2:]))
    for name, w in cases:
        R.case(template, "annex-only-or-signature-free-witness", _mut(sp.desc, lambda d: d["ins"][i].__setitem__("witness", list(w))), "unauthorised", "witness := " + name)
    # honest witness + annex: signatures do not commit to this annex -> must not verify
    R.case(template, "annex-added-after-signing", _mut(sp.desc, lambda d: d["ins"][i]["witness"].append(b"\x50\xaa")), "unauthorised", "annex 50aa appended to the signed witness")


def run_control_block_mutations(R, sp, template, rng):
    from verif.specs import authorise as A
    from verif.harness import verify as H
    from buidl.taproot import MultiSigTapScript, TapLeaf
    i = sp.desc["index"]
    w0 = list(sp.desc["ins"][i]["witness"])
    cb, script = w0[sp.cb_loc], w0[sp.script_loc]

    def with_cb(new):
        return _mut(sp.desc, lambda d: d["ins"][i]["witness"].__setitem__(sp.cb_loc, new))
    R.case(template, "control-block-altered", with_cb(bytes([cb[0] ^ 1]) + cb[1:]), "unauthorised", "parity bit flipped")
    for v in (0xC2, 0xC4, 0x50, 0x00, 0xFE):
        R.case(template, "control-block-altered", with_cb(bytes([v | (cb[0] & 1)]) + cb[1:]), "unauthorised", "leaf version := 0x%02x" % v)
    R.case(template, "control-block-altered", with_cb(cb[:1] + sp.foreign.point.xonly() + cb[33:]), "unauthorised", "internal key := foreign key")
    R.case(template, "control-block-altered", with_cb(cb + bytes(32)), "unauthorised", "path extended by a zero hash")
    R.case(template, "control-block-altered", with_cb(cb[:-1]), "unauthorised", "last byte removed")
    R.case(template, "control-block-altered", with_cb(cb[:33]) if len(cb) > 33 else with_cb(cb + b"\x01" * 32), "unauthorised", "path removed / invented")
    if len(cb) >= 33 + 64:
        R.case(template, "control-block-altered", with_cb(cb[:33] + cb[65:97] + cb[33:65] + cb[97:]), "unauthorised", "first two path elements swapped")
    for bi in range(len(cb)):
        if R.left() < 0:
            R.skipped_for_time += 1
            continue
        bit = rng.randrange(8) if (R.tier == "quick") else None
        for b in ([bit] if bit is not None else range(8)):
            if bi == 0 and b == 0:
                continue
            R.case(template, "control-block-altered", with_cb(_flip(cb, bi * 8 + b)), "unauthorised", "control block byte %d bit %d flipped" % (bi, b))
    # script not in the tree: the attacker's own 1-of-1 script with the attacker's valid signature
    att = MultiSigTapScript([sp.foreign.point], 1)

    def attacker(d):
        w = d["ins"][i]["witness"]
        d["ins"][i]["witness"] = [b"\x00" * 64, att.raw_serialize(), cb]
    d1 = _mut(sp.desc, attacker)
    asig = sp.sign_as(sp.foreign, d1)
    d1["ins"][i]["witness"][0] = asig
    R.case(template, "script-not-in-tree", d1, "unauthorised", "attacker's <x> CHECKSIG script + attacker's valid signature, honest control block")
    # attacker's script with a control block the attacker computed for a tree of his own (wrong output key)
    aleaf = att.tap_leaf()
    acb = aleaf.control_block(sp.internal.point).serialize()

    def attacker2(d):
        d["ins"][i]["witness"] = [b"\x00" * 64, att.raw_serialize(), acb]
    d2 = _mut(sp.desc, attacker2)
    d2["ins"][i]["witness"][0] = sp.sign_as(sp.foreign, d2)
    R.case(template, "script-not-in-tree", d2, "unauthorised", "attacker's script, control block of the attacker's own single-leaf tree over the honest internal key")
    # sibling leaf's script with this leaf's control block
    if len(sp.leaves) > 1:
        other = sp.leaves[(sp.leaf_index + 1) % len(sp.leaves)]
        R.case(template, "script-not-in-tree", _mut(sp.desc, lambda d: d["ins"][i]["witness"].__setitem__(sp.script_loc, other.tap_script.raw_serialize())), "unauthorised", "sibling leaf's script with this leaf's control block")
    # script byte changed
    R.case(template, "script-not-in-tree", _mut(sp.desc, lambda d: d["ins"][i]["witness"].__setitem__(sp.script_loc, _flip(script, 13))), "unauthorised", "leaf script bit flipped")
    # funding output committed to a different tree / key
    R.case(template, "script-hash-mismatch", _mut(sp.desc, lambda d: d["ins"][i]["spk"].__setitem__(1, _flip(d["ins"][i]["spk"][1], 5))), "unauthorised", "output key bit flipped")


def run_tap_multisig_mutations(R, sp, template):
    """k-of-n tapscript: fewer than k signatures, signature under the wrong key slot, foreign signature"""
    i = sp.desc["index"]
    w0 = list(sp.desc["ins"][i]["witness"])
    nsl = len(w0) - 2
    filled = [t for t in range(nsl) if len(w0[t])]
    empty = [t for t in range(nsl) if not len(w0[t])]
    fsig = sp.sign_as(sp.foreign, sp.desc)

    def with_w(f):
        return _mut(sp.desc, lambda d: f(d["ins"][i]["witness"]))
    for t in filled:
        R.case(template, "fewer-than-m-signatures", with_w(lambda w: w.__setitem__(t, b"")), "unauthorised", "signature in slot %d emptied (%d of %d left)" % (t, len(filled) - 1, sp.m))
        R.case(template, "unmatched-signature", with_w(lambda w: w.__setitem__(t, fsig)), "unauthorised", "slot %d := foreign key's signature" % t)
        for e in empty:
            def mv(w):
                w[e], w[t] = w[t], b""
            R.case(template, "signatures-wrong-order", with_w(mv), "unauthorised", "signature moved from slot %d to slot %d" % (t, e))
        for t2 in filled:
            if t2 != t:
                R.case(template, "duplicated-signature", with_w(lambda w: w.__setitem__(t, w0[t2])), "unauthorised", "slot %d := copy of slot %d" % (t, t2))
    if len(filled) >= 2:
        def sw(w):
            w[filled[0]], w[filled[1]] = w[filled[1]], w[filled[0]]
        R.case(template, "signatures-wrong-order", with_w(sw), "unauthorised", "two signatures swapped")
    for e in empty:
        R.case(template, "extra-invalid-signature", with_w(lambda w: w.__setitem__(e, fsig)), "unauthorised", "empty slot %d := foreign key's signature (BIP342: a non-empty invalid signature fails the script)" % e)
    R.case(template, "fewer-than-m-signatures", with_w(lambda w: w.__delitem__(0)), "unauthorised", "one witness stack slot removed")
    R.case(template, "fewer-than-m-signatures", with_w(lambda w: [w.__setitem__(t, b"") for t in range(nsl)]), "unauthorised", "all signature slots empty")


# ------------------------------------------------------------------------------------------------
# jobs
# ------------------------------------------------------------------------------------------------
def _mn(tier, top=None):
    hi = top or (3 if tier == "quick" else 5)
    return [(m, n) for n in range(1, hi + 1) for m in range(1, n + 1)]


SHAPES = [dict(n_in=1, n_out=1, index=0), dict(n_in=2, n_out=2, index=1), dict(n_in=3, n_out=3, index=2),
          dict(n_in=3, n_out=1, index=0), dict(n_in=1, n_out=3, index=0)]


def job_complete_ecdsa(seed, tier):
    from verif.harness import verify as H
    R = Run("complete-ecdsa", seed, tier)
    for kind in ("p2pkh", "p2wpkh", "p2sh-p2wpkh"):
        for si, shape in enumerate(SHAPES):
            for amount in ((None,) if tier == "quick" else (None, 546, 21 * 10**14)):
                sp = H.spend_single(kind, seed * 100 + si, amount=amount, **shape)
                R.case(kind, "completeness", sp.desc, "honest", "sign_input, %d in / %d out, input %d" % (shape["n_in"], shape["n_out"], shape["index"]))
                if sp.api_result is not True:
                    R._fail(kind, "completeness", "Tx.sign_input returned %r for an honest %s spend" % (sp.api_result, kind), sp.desc, CLAUSE_COMPLETE, {"template": kind})
    sp = H.spend_single("p2pkh", seed * 100 + 9, uncompressed=True, **SHAPES[1])
    R.case("p2pkh", "completeness", sp.desc, "honest", "uncompressed public key")
    for kind in ("p2sh-ms", "p2wsh-ms", "p2sh-p2wsh-ms"):
        for (m, n) in _mn(tier):
            for si, signers in enumerate(H.subsets(n, m)):
                shape = SHAPES[(m + n + si) % len(SHAPES)]
                sp = H.spend_multisig(kind, seed * 100 + 10 * n + m, m, n, signers=signers, **shape)
                R.case(kind, "completeness", sp.desc, "honest", "%d-of-%d signed by keys %s" % (m, n, list(signers)))
    return R.result("all single-key templates x 5 transaction shapes; every m-of-n with 1<=m<=n<=%d x every signer subset, for P2SH, P2WSH, P2SH-P2WSH" % (3 if tier == "quick" else 5))


def job_complete_taproot(seed, tier):
    from verif.harness import verify as H
    from verif.specs import authorise as A
    R = Run("complete-taproot", seed, tier)
    for si, shape in enumerate(SHAPES):
        sp = H.spend_p2tr_key(seed * 100 + si, **shape)
        R.case("p2tr-key", "completeness", sp.desc, "honest", "key path, no script tree, shape %d" % si)
    sp = H.spend_p2tr_key(seed * 100 + 7, tree_shape=[(1, 1), (2, 3)])
    R.case("p2tr-key", "completeness", sp.desc, "honest", "key path of an output with a 2-leaf tree")
    # funding output cross-check against BIP341 taproot_tweak_pubkey
    par, q = A.p2tr_output_key(sp.internal.point.xonly(), sp.merkle_root)
    if q != sp.desc["ins"][sp.desc["index"]]["spk"][1]:
        R._fail("p2tr-key", "funding-output", "p2tr_script output key differs from BIP341 tweak", sp.desc, "spk == x(P + H_TapTweak(P||root) G)", {})
    for ht in (0x01, 0x02, 0x03, 0x81, 0x82, 0x83):
        sp = H.spend_p2tr_key(seed * 100 + 8, hash_type=ht, n_in=2, n_out=2, index=1)
        R.case("p2tr-key", "completeness", sp.desc, "honest", "key path, sign_p2tr_keypath(hash_type=0x%02x)" % ht)
    trees = [[(1, 1)], [(1, 1), (1, 1)], [(1, 1), (1, 1), (1, 1)], [(1, 1), (1, 1), (1, 1), (1, 1)]]
    for ti, tree in enumerate(trees):
        for li in range(len(tree)):
            sp = H.spend_p2tr_script(seed * 100 + 20 + ti, tree, leaf_index=li, **SHAPES[(ti + li) % len(SHAPES)])
            R.case("p2tr-script", "completeness", sp.desc, "honest", "%d-leaf tree, leaf %d (<x> CHECKSIG)" % (len(tree), li))
            if sp.api_result is not True:
                R._fail("p2tr-script", "completeness", "finalize_p2tr_multisig returned %r" % (sp.api_result,), sp.desc, CLAUSE_COMPLETE, {})
    for (k, n) in _mn(tier):
        if n == 1:
            continue
        for si, signers in enumerate(H.subsets(n, k)):
            if tier != "quick" and n == 5 and si % 3:
                continue
            tree = [(k, n)] if (k + n + si) % 2 else [(1, 1), (k, n)]
            sp = H.spend_p2tr_script(seed * 100 + 40 + n, tree, leaf_index=len(tree) - 1, signers=signers)
            R.case("p2tr-multisig", "completeness", sp.desc, "honest", "%d-of-%d MultiSigTapScript signed by sorted keys %s, %d-leaf tree" % (k, n, list(signers), len(tree)))
    return R.result("key path (with/without tree, 7 hash types), every leaf of 1..4-leaf trees, every k-of-n MultiSigTapScript with 2<=n<=%d x signer subsets" % (3 if tier == "quick" else 5))


def _single_job(kind):
    def job(seed, tier):
        from verif.harness import verify as H
        R = Run("mut-" + kind, seed, tier)
        rng = random.Random(seed * 7919 + len(kind))
        shapes = [SHAPES[1], SHAPES[0]] if tier == "quick" else [SHAPES[0], SHAPES[1], SHAPES[2]]
        for si, shape in enumerate(shapes):
            sp = H.spend_single(kind, seed * 100 + 50 + si, **shape)
            R.sp = sp
            R.case(kind, "completeness", sp.desc, "honest", "base spend")
            run_field_mutations(R, sp, kind)
            run_script_hash_mutations(R, sp, kind)
            if kind == "p2wpkh":
                run_native_witness_scriptsig(R, sp, kind)
            run_signature_mutations(R, sp, kind, rng, all_bits=(tier != "quick" and si == 0))
        return R.result("%s: full catalogue on %d transaction shape(s); signature bit flips: %s" % (kind, len(shapes), "structure bytes + seeded sample" if tier == "quick" else "every bit (shape 0) + samples"))
    return job


def _multisig_job(kind):
    def job(seed, tier):
        from verif.harness import verify as H
        R = Run("mut-" + kind, seed, tier, budget=(100 if tier == "quick" else 1000))
        rng = random.Random(seed * 7919 + len(kind))
        combos = _mn(tier)
        for ci, (m, n) in enumerate(combos):
            choices = [list(range(m))] if (tier == "quick" or m == n) else [list(range(m)), list(range(n - m, n))]
            if tier == "quick" and m < n:
                choices = [list(range(n - m, n))] if (m + n) % 2 else [list(range(m))]
            for signers in choices:
                sp = H.spend_multisig(kind, seed * 100 + 60 + 10 * n + m, m, n, signers=signers, **SHAPES[(m + n) % 3])
                R.sp = sp
                tmpl = "%s/%d-of-%d" % (kind, m, n)
                R.case(tmpl, "completeness", sp.desc, "honest", "base spend, signers %s" % signers)
                run_multisig_mutations(R, sp, tmpl)
                if n <= 3 or tier != "quick":
                    run_field_mutations(R, sp, tmpl, inplace=(n <= 2))
                if (m, n) in ((1, 2), (2, 3), (2, 2)):
                    run_script_hash_mutations(R, sp, tmpl)
                if kind == "p2wsh-ms" and (m, n) == (1, 2):
                    run_native_witness_scriptsig(R, sp, tmpl)
                if R.left() > 0:
                    run_signature_mutations(R, sp, tmpl, rng, all_bits=(tier != "quick" and n <= 2))
                else:
                    R.skipped_for_time += 1
        return R.result("%s: every m-of-n with 1<=m<=n<=%d; drop/reorder/duplicate/foreign signatures at every position, committed-field edits, script-hash mismatches, sampled signature bit flips" % (kind, 3 if tier == "quick" else 5))
    return job


def job_mut_p2tr_key(seed, tier):
    from verif.harness import verify as H
    R = Run("mut-p2tr-key", seed, tier)
    rng = random.Random(seed * 7919 + 3)
    variants = [dict(), dict(tree_shape=[(1, 1), (1, 1)], n_in=2, n_out=2, index=1)]
    if tier != "quick":
        variants.append(dict(hash_type=0x01, n_in=3, n_out=3, index=2))
    for vi, v in enumerate(variants):
        sp = H.spend_p2tr_key(seed * 100 + 70 + vi, **v)
        R.sp = sp
        R.case("p2tr-key", "completeness", sp.desc, "honest", "base spend")
        run_field_mutations(R, sp, "p2tr-key")
        run_native_witness_scriptsig(R, sp, "p2tr-key")
        run_annex_cases(R, sp, "p2tr-key", rng)
        run_script_hash_mutations(R, sp, "p2tr-key")
        # signature by the untweaked internal key / by a key tweaked with a different root
        isig = sp.sign_as(sp.internal, sp.desc)
        R.case("p2tr-key", "foreign-key-signature", _mut(sp.desc, lambda d: _set(d, ("witness", 0), isig)), "unauthorised", "signed with the UNtweaked internal key")
        osig = sp.sign_as(sp.internal.tweaked_key(b"\x07" * 32), sp.desc)
        R.case("p2tr-key", "foreign-key-signature", _mut(sp.desc, lambda d: _set(d, ("witness", 0), osig)), "unauthorised", "signed with the internal key tweaked by a different Merkle root")
        run_signature_mutations(R, sp, "p2tr-key", rng, all_bits=(tier != "quick" and vi == 0))
    return R.result("P2TR key path (%d variants): field edits fresh and in place, scriptSig on the witness output, annex-only / signature-free witnesses, foreign and mis-tweaked keys, hash type bytes, signature bit flips" % len(variants))


def job_mut_p2tr_script(seed, tier):
    from verif.harness import verify as H
    R = Run("mut-p2tr-script", seed, tier, budget=(100 if tier == "quick" else 1000))
    rng = random.Random(seed * 7919 + 4)
    plans = [([(1, 1)], 0, SHAPES[0]), ([(1, 1), (1, 1), (1, 1)], 2, SHAPES[1])]
    if tier != "quick":
        plans += [([(1, 1), (1, 1)], 0, SHAPES[2]), ([(1, 1), (1, 1), (1, 1), (1, 1)], 1, SHAPES[0])]
    for pi, (tree, li, shape) in enumerate(plans):
        sp = H.spend_p2tr_script(seed * 100 + 80 + pi, tree, leaf_index=li, **shape)
        R.sp = sp
        tmpl = "p2tr-script/%d-leaf" % len(tree)
        R.case(tmpl, "completeness", sp.desc, "honest", "base spend")
        run_control_block_mutations(R, sp, tmpl, rng)
        run_annex_cases(R, sp, tmpl, rng)
        run_field_mutations(R, sp, tmpl, inplace=(pi == 0 or tier != "quick"))
        if pi == 0:
            run_native_witness_scriptsig(R, sp, tmpl)
        run_signature_mutations(R, sp, tmpl, rng, all_bits=(tier != "quick" and pi == 0))
    return R.result("P2TR script path, trees %s: every control block byte altered, parity, leaf version, internal key, path edits, scripts not in the tree, annex cases, field edits, signature mutations" % [len(p[0]) for p in plans])


def job_mut_p2tr_multisig(seed, tier):
    from verif.harness import verify as H
    R = Run("mut-p2tr-multisig", seed, tier, budget=(100 if tier == "quick" else 1000))
    rng = random.Random(seed * 7919 + 5)
    for (k, n) in _mn(tier):
        if n == 1:
            continue
        signers = list(range(k)) if (k + n) % 2 else list(range(n - k, n))
        tree = [(k, n)] if n % 2 else [(1, 1), (k, n)]
        sp = H.spend_p2tr_script(seed * 100 + 90 + n, tree, leaf_index=len(tree) - 1, signers=signers, **SHAPES[(k + n) % 3])
        R.sp = sp
        tmpl = "p2tr-multisig/%d-of-%d" % (k, n)
        R.case(tmpl, "completeness", sp.desc, "honest", "base spend, signers %s" % signers)
        run_tap_multisig_mutations(R, sp, tmpl)
        if (k, n) in ((1, 2), (2, 3)):
            run_field_mutations(R, sp, tmpl, inplace=False)
        if R.left() > 0 and (n <= 3):
            run_signature_mutations(R, sp, tmpl, rng)
    return R.result("k-of-n MultiSigTapScript leaves, 1<=k<=n, 2<=n<=%d: emptied / moved / duplicated / foreign signatures per slot, field edits, signature mutations" % (3 if tier == "quick" else 5))


def _enum_job(kind):
    """scriptSigs of <= 3 commands from a small alphabet, alone / prepended / appended to the valid one"""
    def job(seed, tier):
        from verif.harness import verify as H
        R = Run("enum-" + kind, seed, tier, budget=(110 if tier == "quick" else 1300))
        rng = random.Random(seed * 7919 + 6 + len(kind))
        if kind == "p2pkh":
            sps = [H.spend_single("p2pkh", seed * 100 + 95)]
        elif kind == "p2sh-ms":
            sps = [H.spend_multisig("p2sh-ms", seed * 100 + 96, 1, 2, signers=[1])]
            if tier != "quick":
                sps.append(H.spend_multisig("p2sh-ms", seed * 100 + 97, 2, 2))
        elif kind == "p2sh-p2wpkh":
            sps = [H.spend_single("p2sh-p2wpkh", seed * 100 + 98)]
        else:
            sps = [H.spend_multisig("p2sh-p2wsh-ms", seed * 100 + 99, 1, 2, signers=[0])]
        total = 0
        for sp in sps:
            R.sp = sp
            i = sp.desc["index"]
            valid = list(sp.desc["ins"][i]["script_sig"])
            if kind == "p2pkh":
                sig, pub = valid[0], valid[1]
            elif kind == "p2sh-ms":
                sig, pub = valid[1], sp.privs[0].point.sec()
            else:
                sig, pub = sp.desc["ins"][i]["witness"][0 if kind == "p2sh-p2wpkh" else 1], sp.privs[0].point.sec()
            alphabet = [("OP_0", OP_0), ("OP_1", OP_1), ("OP_DUP", OP_DUP), ("OP_DROP", OP_DROP), ("OP_NOP", OP_NOP),
                        ("<sig>", sig), ("<pubkey>", pub), ("<junk>", b"\xde\xad\xbe\xef")]
            if kind != "p2pkh":
                alphabet.append(("<redeem>", valid[-1]))
            seqs = []
            for L in (1, 2, 3):
                seqs += list(itertools.product(alphabet, repeat=L))
            full = [s for s in seqs if len(s) <= 2]
            rest = [s for s in seqs if len(s) == 3]
            if tier == "quick":
                rng.shuffle(rest)
                # always keep the length-3 sequences that contain the redeem script and a non-push opcode
                must = [s for s in rest if any(n == "<redeem>" for n, _ in s) and any(n in ("OP_DUP", "OP_NOP", "OP_DROP") for n, _ in s)][:40]
                rest = must + rest[:40]
            work = full + rest
            for s in work:
                names = " ".join(n for n, _ in s)
                cmds = [c for _, c in s]
                for mode, ss in (("alone", cmds), ("prepended", cmds + valid), ("appended", valid + cmds)):
                    if R.left() < 0:
                        R.skipped_for_time += 1
                        continue
                    total += 1
                    R.case(kind, "scriptsig-enumeration", _mut(sp.desc, lambda d: d["ins"][i].__setitem__("script_sig", list(ss))), None,
                           "scriptSig = [%s] %s%s" % (names, mode, "" if mode == "alone" else " to the valid scriptSig"))
                    if kind in ("p2sh-p2wpkh", "p2sh-p2wsh"):
                        def f(d):
                            d["ins"][i]["script_sig"] = list(ss)
                            d["ins"][i]["witness"] = []
                        R.case(kind, "scriptsig-enumeration", _mut(sp.desc, f), None,
                               "scriptSig = [%s] %s%s, witness removed" % (names, mode, "" if mode == "alone" else " to the valid scriptSig"))
        return R.result("%s: scriptSigs of <= %s commands over {OP_0, OP_1, OP_DUP, OP_DROP, OP_NOP, <valid sig>, <pubkey>, <junk>%s}, alone / prepended / appended to the valid scriptSig (%s)" % (
            kind, "3", "" if kind == "p2pkh" else ", <redeem script>", "all of length <= 2, seeded sample of length 3" if tier == "quick" else "all"))
    return job


def job_structural(seed, tier):
    """signature-free spends of every kind + the false-final-stack cases + spec self-checks"""
    from verif.harness import verify as H
    from verif.specs import authorise as A
    from buidl.script import Script, RedeemScript, WitnessScript
    from buidl.taproot import TapLeaf
    R = Run("structural", seed, tier)
    rng = random.Random(seed * 7919 + 8)
    # 1. consensus-false final stack values
    for name, val in [("00", b"\x00"), ("80", b"\x80"), ("0000", b"\x00\x00"), ("0080", b"\x00\x80"), ("empty", b""), ("01", b"\x01")]:
        push = val if val else OP_0
        redeem = Script([push])
        raw = redeem.raw_serialize()
        spk = RedeemScript([push]).script_pubkey()
        d = H.skeleton(seed + 1, spk.commands, segwit=False)
        d["ins"][0]["script_sig"] = [raw]
        R.case("p2sh-bare", "false-final-stack", d, None, "P2SH redeem script <%s>, scriptSig [redeem]" % name)
        ws = WitnessScript([push])
        d = H.skeleton(seed + 2, ws.script_pubkey().commands, segwit=True)
        d["ins"][0]["witness"] = [ws.raw_serialize()]
        R.case("p2wsh-bare", "false-final-stack", d, None, "P2WSH witness script <%s>, witness [script]" % name)
        internal = H.det_key(seed, "internal")
        leaf = TapLeaf(Script([push]))
        cb = leaf.control_block(internal.point)
        d = H.skeleton(seed + 3, internal.point.p2tr_script(leaf.hash()).commands, segwit=True)
        d["ins"][0]["witness"] = [Script([push]).raw_serialize(), cb.serialize()]
        R.case("p2tr-bare", "false-final-stack", d, None, "tapscript <%s>, witness [script, control block]" % name)
    # 2. every template: signature-free scriptSig / witness combinations
    junk = b"\xde\xad\xbe\xef"
    bases = [H.spend_single("p2pkh", seed * 100 + 1), H.spend_multisig("p2sh-ms", seed * 100 + 2, 2, 3),
             H.spend_single("p2sh-p2wpkh", seed * 100 + 3), H.spend_multisig("p2sh-p2wsh-ms", seed * 100 + 4, 1, 2)]
    for sp in bases:
        R.sp = sp
        i = sp.desc["index"]
        ss0 = list(sp.desc["ins"][i]["script_sig"])
        sigfree = [[], [OP_1], [OP_0], [junk], [OP_1, OP_1], [OP_0, OP_0, OP_0]]
        if sp.kind == "p2pkh":
            sigfree += [[OP_0, ss0[1]], [OP_1, ss0[1]], [junk, ss0[1]], [ss0[1], ss0[1]], [ss0[1]]]
        else:
            red = ss0[-1]
            sigfree += [[red], [OP_0, red], [OP_0, OP_0, red], [OP_0, OP_0, OP_0, red], [OP_1, OP_1, OP_1, red], [junk, junk, junk, red]]
        for ss in sigfree:
            for w in ([], [junk]) if sp.desc["segwit"] and sp.kind != "p2sh-ms" else ([],):
                def f(d):
                    d["ins"][i]["script_sig"] = list(ss)
                    d["ins"][i]["witness"] = list(w)
                R.case(sp.kind, "signature-free-spend", _mut(sp.desc, f), "unauthorised",
                       "scriptSig %s witness %s" % ([c if isinstance(c, int) else c.hex()[:8] + ".." for c in ss], [x.hex() for x in w]))
    # 3. cross-check of the two readings of CHECKMULTISIG in the spec (walk vs. injection), all boolean matrices
    cnt = 0
    for m in range(0, 4):
        for n in range(m, 4):
            for bits in range(1 << (m * n)):
                v = [[(bits >> (a * n + b)) & 1 for b in range(n)] for a in range(m)]
                w = A.multisig_authorised(list(range(m)), list(range(n)), lambda s, k: bool(v[s][k]))
                e = A.multisig_injection_exists(list(range(m)), list(range(n)), lambda s, k: bool(v[s][k]))
                cnt += 1
                if w != e:
                    R.failures.append({"contract": "C06/spec-selfcheck/multisig", "what": "spec walk and injection readings differ", "inputs": {"m": m, "n": n, "v": v}, "violated": ["multisig_authorised == multisig_injection_exists"]})
    R.evals += cnt
    R.seen.add("multisig-matrix")
    return R.result("false final stack values under P2SH/P2WSH/tapscript; signature-free scriptSig/witness combinations for the P2PKH and P2SH-based templates; %d boolean validity matrices (m<=n<=3) for the two spec readings of CHECKMULTISIG" % cnt)


BOUNDED = [("rt-contracts", fuzz_job(CONTRACTS)),
           ("complete-ecdsa", job_complete_ecdsa),
           ("complete-taproot", job_complete_taproot),
           ("mut-p2sh-ms", _multisig_job("p2sh-ms")),
           ("mut-p2wsh-ms", _multisig_job("p2wsh-ms")),
           ("mut-p2sh-p2wsh-ms", _multisig_job("p2sh-p2wsh-ms")),
           ("mut-p2tr-script", job_mut_p2tr_script),
           ("mut-p2tr-multisig", job_mut_p2tr_multisig),
           ("mut-p2tr-key", job_mut_p2tr_key),
           ("mut-p2pkh", _single_job("p2pkh")),
           ("mut-p2wpkh", _single_job("p2wpkh")),
           ("mut-p2sh-p2wpkh", _single_job("p2sh-p2wpkh")),
           ("enum-p2pkh", _enum_job("p2pkh")),
           ("enum-p2sh-ms", _enum_job("p2sh-ms")),
           ("enum-p2sh-p2wpkh", _enum_job("p2sh-p2wpkh")),
           ("enum-p2sh-p2wsh", _enum_job("p2sh-p2wsh")),
           ("structural", job_structural)]

TRUSTED_BASE = ["pyvc symbolic executor (A-ENGINE)", "z3 5.1",
                "spec functions verif/specs/authorise.py (A-SPEC): own secp256k1/DER/ECDSA/BIP340 arithmetic, BIP341 commitment, per-template predicates",
                "repository sig_hash_legacy / sig_hash_bip143 / sig_hash_bip341 used as the digest oracle inside the spec (digest formulas are C05)",
                "spend builders verif/harness/verify.py", "CPython built-ins per verif/pyvc/calls.py (A-BUILTIN)", "hashlib digests uninterpreted in the symbolic part"]
ASSUMPTIONS = ["A-ENGINE", "A-SPEC", "A-BUILTIN", "A-CR (a mutated script/control block/key does not collide)",
               "digest oracle = repository sig-hash functions on a fresh object (C05)", "termination not verified",
               "scriptSig fragments outside {pushes, OP_0..OP_16, OP_NOP, OP_DROP, OP_DUP} are out of the spec's scope (no verdict)"]
EXPLANATION = ("Input verification: small deductive contracts (annex rule, control-block codec and Merkle fold, CHECKMULTISIG matching walk) "
               "plus the bounded mutation catalogue over library-signed spends of every output type, judged by an independent "
               "executable definition of 'authorised'.")
CATEGORY = "other"
LEVEL_TEXT = ("Mixed. Deductive (pyvc + z3) only for the leaf rules: Witness.has_annex against BIP341 for witnesses of 0..3 symbolic items, "
              "ControlBlock.parse length rejection / field extraction / serialize round trip, ControlBlock.merkle_root against the sorted "
              "TapBranch fold for paths of 0..3 symbolic hashes, and the CHECKMULTISIG matching walk over a boolean validity oracle for "
              "m,n <= 3. The property's quantifier itself (every output type x every mutation of the catalogue) is covered by a bounded "
              "companion on concrete library-signed spends: completeness for every template, every m-of-n (n <= 3 quick, <= 5 thorough) and "
              "every signer subset, 1..4-leaf taproot trees and k-of-n tapscript multisig; soundness by comparing the real Tx.verify_input "
              "with an independent executable predicate on every mutated spend and on an enumeration of short scriptSigs. Template lemmas "
              "over the full interpreter (DESIGN C06.4/5) are NOT proved symbolically: real ECDSA/Schnorr cannot be abstracted inside the "
              "real evaluate().")
LEVEL_NOTE = ("trusted: pyvc translation (A-ENGINE), spec functions incl. own EC arithmetic (A-SPEC), repository sig-hash functions as "
              "digest oracle (C05), builtin contracts (A-BUILTIN); bounded evidence is not proof; termination not verified")


def job_checkmultisig_oracle(seed, tier):
    """exhaustive: the real op_checkmultisig over EVERY boolean validity matrix for 0<=m<=n<=4,
    signature check replaced by the matrix (no EC arithmetic involved)"""
    from verif.harness import verify as H
    from verif.specs import authorise as A
    evals = 0
    failures = []
    counts = {}
    samples = []
    for n in range(0, 5):
        for m in range(0, n + 1):
            for bits in range(1 << (m * n)):
                v = [[(bits >> (a * n + b)) & 1 for b in range(n)] for a in range(m)]
                want = A.multisig_authorised(list(range(m)), list(range(n)), lambda s, k: bool(v[s][k]))
                try:
                    r, stack = H.real_checkmultisig_with_oracle(m, n, v)
                    got = bool(r) and len(stack) > 0 and stack[-1] == b"\x01"
                    shown = "returns %r, top of stack %r" % (r, stack[-1] if stack else None)
                except Exception as e:
                    got, shown = False, "raises %s" % type(e).__name__
                evals += 1
                if len(samples) < 2 and m == 2 and n == 3 and bits in (5, 42):
                    samples.append({"m": m, "n": n, "valid": v, "op_checkmultisig": shown, "spec": want})
                if got and not want:
                    key = "C06/op_checkmultisig-oracle/pushes-1-without-injection"
                elif want and not got:
                    key = "C06/op_checkmultisig-oracle/rejects-valid-matching"
                else:
                    continue
                counts[key] = counts.get(key, 0) + 1
                if counts[key] == 1 or (m, n, sum(map(sum, v))) in ((1, 1, 0), (1, 2, 0), (2, 3, 1)) and counts[key] < 6:
                    failures.append({"contract": key + ("" if counts[key] == 1 else "#%d" % counts[key]),
                                     "what": "real op_checkmultisig with oracle: m=%d n=%d valid=%s -> %s; consensus walk says %s" % (m, n, v, shown, want),
                                     "inputs": {"m": m, "n": n, "valid": v}, "violated": ["op_checkmultisig pushes 1  <==>  spec.authorise.multisig_authorised(sigs, keys, valid)"]})
    return {"evaluations": evals, "distinct": evals, "failures": failures, "samples": samples, "failure_counts": counts,
            "bound": "exhaustive over all boolean signature/key validity matrices, 0<=m<=n<=4 (%d matrices), real op_checkmultisig with stubbed point/signature classes" % evals}


BOUNDED.append(("checkmultisig-oracle", job_checkmultisig_oracle))
