"""C15: SLIP39 shares - any k recover, fewer never do, corruption is detected (buidl/shamir.py)"""
import ast
import itertools
import random
import time

from verif.pyvc.verifier import REG, jsonable
from verif.bounded import fuzz_contracts
import verif.contracts  # noqa
import verif.specs as spec

S = spec.slip39
CONTRACTS = [n for n, c in REG.contracts.items() if "C15" in c.props]
JOB_TIMEOUT = {"quick": 400, "thorough": 1500}


def _row(name, ok, clause, inputs, backend="exhaustive", **kw):
    r = {"name": "C15/table/" + name, "status": "ok" if ok else "fail", "clause": clause, "backend": backend,
         "inputs": jsonable(inputs), "note": None, "secs": 0.0, "kind": "table"}
    r.update(kw)
    return r


# ======================================================================================= TABLES
def gf256_tables(tier):
    """C15.1: the repo's exp/log2 tables against carry-less multiplication modulo 0x11B, all 65536 pairs"""
    import numpy as np
    from buidl.shamir import ShareSet
    from verif.harness.shamir import gf_mul
    exp, log2 = ShareSet.exp, ShareSet.log2
    rows = []
    rows.append(_row("gf256/shape", len(exp) == 255 and len(log2) == 256 and sorted(exp) == list(range(1, 256))
                     and all(log2[exp[i]] == i for i in range(255)) and all(exp[log2[a]] == a for a in range(1, 256)),
                     "exp has 255 entries, a permutation of 1..255; log2 is its inverse on 1..255", {"entries": 255 + 256}))
    bad = [(a, b) for a in range(256) for b in range(256) if gf_mul(a, b) != S.gf256_mul(a, b)]
    rows.append(_row("gf256/mul", not bad, "exp[(log2[a]+log2[b]) % 255] (0 if a or b is 0) == clmul(a,b) mod 0x11B for all a,b",
                     {"pairs": 65536, "first_bad": bad[:3]}))
    bad = [i for i in range(255) if exp[i] != S.gf256_pow(3, i)]
    rows.append(_row("gf256/generator", not bad, "exp[i] == 3**i in GF(256), i = 0..254", {"entries": 255, "first_bad": bad[:3]}))
    # division exactly as interpolate computes it: exp[(log2[y] + (ln - ld)) % 255]
    bad = []
    for a in range(1, 256):
        for b in range(1, 256):
            if exp[(log2[a] - log2[b]) % 255] != S.gf256_mul(a, S.gf256_inv(b)):
                bad.append((a, b))
    rows.append(_row("gf256/div", not bad, "exp[(log2[a]-log2[b]) % 255] == a * b^-1 for all non-zero a,b", {"pairs": 255 * 255, "first_bad": bad[:3]}))
    # field axioms of the reference multiplication (so that "Lagrange interpolation over a field" applies)
    T = np.array([[S.gf256_mul(a, b) for b in range(256)] for a in range(256)], dtype=np.int64)
    comm = bool((T == T.T).all())
    ident = bool((T[1] == np.arange(256)).all() and (T[0] == 0).all())
    assoc = distr = True
    xor = np.bitwise_xor.outer(np.arange(256), np.arange(256))
    for a in range(256):
        if not (T[T[a]] == T[a][T]).all():          # (a*b)*c == a*(b*c) for all b,c
            assoc = False
        if not (T[a][xor] == np.bitwise_xor.outer(T[a], T[a])).all():   # a*(b+c) == a*b + a*c
            distr = False
    inv = all(int((T[a] == 1).sum()) == 1 for a in range(1, 256))
    nozd = bool((T[1:, 1:] != 0).all())
    rows.append(_row("gf256/field-axioms", comm and ident and assoc and distr and inv and nozd,
                     "clmul mod 0x11B is commutative, associative, distributes over xor, has identity 1, unique inverses, no zero divisors",
                     {"triples": 2 * 256 ** 3, "comm": comm, "ident": ident, "assoc": assoc, "distr": distr, "inverses": inv, "nozd": nozd}))
    return rows


def _unit(k, j):
    return bytes(1 if i == j else 0 for i in range(k))


def interpolation_all_subsets(tier):
    """C15.2: for every non-empty subset A of the share indices 0..15 (65535 subsets, hence every (k, n) with
    1 <= k <= n <= 16 and every k-subset of the n shares):
    (a) the real interpolate() applied to unit vectors yields exactly the Lagrange coefficients at x = 254, 255;
    (b) shares produced by the real interpolate() from (random shares e_0..e_{k-3}, digest e_{k-2}, secret e_{k-1})
        give back secret and digest from the k shares in A.  interpolate() is byte-wise GF(256)-linear in the share
        values (table gf256/mul), so holding on the unit vectors = holding for all secrets and all random material."""
    from buidl.shamir import ShareSet
    t0 = time.time()
    interp = ShareSet.interpolate
    rows = []
    bad_coeff, bad_rec, n_sub = [], [], 0
    shares_for_k = {}
    for k in range(2, 17):
        base = [(i, _unit(k, i)) for i in range(k - 2)] + [(254, _unit(k, k - 2)), (255, _unit(k, k - 1))]
        sh = {i: _unit(k, i) for i in range(k - 2)}
        for i in range(k - 2, 16):
            sh[i] = interp(i, base)
        shares_for_k[k] = sh
    for k in range(1, 17):
        for A in itertools.combinations(range(16), k):
            n_sub += 1
            units = [(x, _unit(k, j)) for j, x in enumerate(A)]
            for x in (254, 255):
                if list(interp(x, units)) != S.lagrange_coefficients(x, list(A)):
                    bad_coeff.append((x, A))
            if k >= 2:
                pts = [(x, shares_for_k[k][x]) for x in A]
                if interp(255, pts) != _unit(k, k - 1) or interp(254, pts) != _unit(k, k - 2):
                    bad_rec.append(A)
    rows.append(_row("interpolate/coefficients", not bad_coeff,
                     "interpolate(x, unit vectors at A) == Lagrange coefficients l_i(x), x in {254,255}, all non-empty A of 0..15",
                     {"subsets": n_sub, "first_bad": bad_coeff[:3]}))
    rows.append(_row("interpolate/any-k-recover", not bad_rec,
                     "for all 2 <= k <= 16 and all k-subsets A of 0..15: interpolate(255, shares[A]) == secret and interpolate(254, shares[A]) == digest share "
                     "(shares = real interpolate of the split base points; symbolic secret via unit vectors)",
                     {"subsets": n_sub - 16, "first_bad": bad_rec[:3]}))
    # more than k shares: the same polynomial
    bad_sup, n_sup = [], 0
    for k in range(2, 16):
        sizes = [k + 1] if tier == "quick" else range(k + 1, 17)
        for m in sizes:
            for A in itertools.combinations(range(16), m):
                if tier == "quick" and (hash(A) & 3):
                    continue
                n_sup += 1
                pts = [(x, shares_for_k[k][x]) for x in A]
                if interp(255, pts) != _unit(k, k - 1) or interp(254, pts) != _unit(k, k - 2):
                    bad_sup.append((k, A))
    rows.append(_row("interpolate/more-than-k", not bad_sup,
                     "m > k shares also interpolate to secret and digest (%s)" % ("every 4th (k+1)-subset" if tier == "quick" else "all m-subsets, k < m <= 16"),
                     {"subsets": n_sup, "first_bad": bad_sup[:3]}))
    # the split direction: x ranges used by split_secret
    bad_split = []
    for k in range(2, 17):
        xs = list(range(k - 2)) + [254, 255]
        units = [(x, _unit(k, j)) for j, x in enumerate(xs)]
        for x in range(k - 2, 16):
            if list(interp(x, units)) != S.lagrange_coefficients(x, xs):
                bad_split.append((k, x))
    rows.append(_row("interpolate/split-coefficients", not bad_split,
                     "interpolate(i, base points {0..k-3,254,255}) has the Lagrange coefficients, 2 <= k <= 16, k-2 <= i <= 15",
                     {"cases": sum(16 - (k - 2) for k in range(2, 17)), "first_bad": bad_split[:3]}))
    for r in rows:
        r["secs"] = round(time.time() - t0, 2)
    return rows


def rs1024_step_linear(tier):
    """the specification's RS1024 step is GF(2)-linear in (state, word): proved by z3 on bit-vectors by running the
    spec function itself on z3 terms.  Contract verif.harness.shamir.polymod4 equates the real loop body with it."""
    import z3
    W = 64
    a, b, v, w = z3.BitVecs("a b v w", W)
    s = z3.Solver()
    s.set("timeout", 60000)
    rng30 = z3.And(z3.ULT(a, 1 << 30), z3.ULT(b, 1 << 30), z3.ULT(v, 1 << 10), z3.ULT(w, 1 << 10))
    lhs = S.rs1024_step(a ^ b, v ^ w)
    rhs = S.rs1024_step(a, v) ^ S.rs1024_step(b, w)
    t0 = time.time()
    s.add(rng30, z3.Or(lhs != rhs, z3.UGE(S.rs1024_step(a, v), 1 << 30)))
    r = s.check()
    rows = [_row("rs1024/step-linear", r == z3.unsat,
                 "for all 30-bit a,b and 10-bit v,w: step(a^b, v^w) == step(a,v) ^ step(b,w) and step(a,v) < 2^30  "
                 "(hence polymod(cs+x) ^ polymod(cs+y) depends only on x^y for equal lengths)",
                 {"solver": str(r)}, backend="z3-bv", secs=round(time.time() - t0, 3))]
    # concrete agreement of the branch-free spec step with the GF(1024) long-division reading
    rng = random.Random(1)
    bad = 0
    for _ in range(20000):
        vals = [rng.getrandbits(10) for _ in range(rng.randrange(0, 40))]
        if S.rs1024_polymod(vals) != S.rs1024_residue(vals):
            bad += 1
    rows.append(_row("rs1024/spec-is-reed-solomon", bad == 0,
                     "spec polymod == remainder modulo g(X) = (X-2)(X-4)(X-8) over GF(2)[x]/(x^10+x^3+1) on 20000 random inputs (spec self-check)",
                     {"cases": 20000, "generator": S.rs1024_generator()}, backend="sampled"))
    return rows


def rs1024_columns(tier):
    """C15.5: syndrome columns of the REAL rs1024_polymod for every position and value of 20- and 33-word
    mnemonics; any 1..3 substituted words give a non-zero syndrome."""
    import numpy as np
    from buidl.shamir import rs1024_polymod as P
    cs = list(b"shamir")
    rows = []
    for L in (20, 33):
        t0 = time.time()
        base0 = P(cs + [0] * L)
        Scol = []
        for p in range(L):
            col = [0] * 1024
            v = [0] * L
            for e in range(1, 1024):
                v[p] = e
                col[e] = P(cs + v) ^ base0
            Scol.append(col)
        # (1) each column is GF(1024)-linear in the error value
        bad = [(p, e) for p in range(L) for e in range(1, 1024) if Scol[p][e] != S.gf1024_vec_scale(e, Scol[p][1])]
        rows.append(_row("rs1024/L%d/columns-linear" % L, not bad,
                         "polymod(cs + e at p) ^ polymod(cs + 0) == e (x) column_p over GF(1024), all positions p and values e (real polymod)",
                         {"evaluations": L * 1023, "first_bad": bad[:3]}, secs=round(time.time() - t0, 2)))
        # (2) GF(1024) independence of every 1, 2, 3 columns
        t0 = time.time()
        cols = [Scol[p][1] for p in range(L)]
        zero = [p for p in range(L) if cols[p] == 0]
        dep3 = [t for t in itertools.combinations(range(L), 3) if S.gf1024_det3(cols[t[0]], cols[t[1]], cols[t[2]]) == 0]
        ntri = L * (L - 1) * (L - 2) // 6
        rows.append(_row("rs1024/L%d/three-columns-independent" % L, not zero and not dep3,
                         "every column non-zero and every 3x3 determinant of three distinct columns non-zero over GF(1024) "
                         "=> with (1) and rs1024/step-linear: any substitution of 1..3 words changes the polymod, so the result is != 1",
                         {"determinants": ntri, "dependent": dep3[:3], "zero_columns": zero}, secs=round(time.time() - t0, 2)))
        # (3) the same conclusion by direct enumeration on the real syndromes (uses only xor-additivity, not the field structure)
        t0 = time.time()
        A = np.array([c[1:] for c in Scol], dtype=np.int64)          # L x 1023, non-zero error values
        singles_ok = bool((A != 0).all())
        flat = A.reshape(-1)
        doubles_ok = len(np.unique(flat)) == flat.size                 # S[p1][e1] != S[p2][e2] (also within a column)
        rows.append(_row("rs1024/L%d/enumerate-1-2" % L, singles_ok and doubles_ok,
                         "all single-word syndromes non-zero and pairwise distinct => every 1- and 2-word substitution has non-zero syndrome",
                         {"singles": L * 1023, "doubles": L * (L - 1) // 2 * 1023 * 1023}, secs=round(time.time() - t0, 2)))
        if True:
            t0 = time.time()
            n3 = hits = 0
            for p1 in range(L - 2):
                for p2 in range(p1 + 1, L - 1):
                    x = np.bitwise_xor.outer(A[p1], A[p2]).reshape(-1)
                    rest = np.sort(A[p2 + 1:].reshape(-1))
                    idx = np.searchsorted(rest, x)
                    idx[idx >= rest.size] = rest.size - 1
                    hits += int((rest[idx] == x).sum())
                    n3 += x.size * (L - 1 - p2)
            rows.append(_row("rs1024/L%d/enumerate-3" % L, hits == 0,
                             "S[p1][e1] ^ S[p2][e2] != S[p3][e3] for all p1<p2<p3 and all non-zero e1,e2,e3: every 3-word substitution has non-zero syndrome (direct enumeration)",
                             {"triples": n3, "undetected": hits}, secs=round(time.time() - t0, 2)))
    return rows


def slip39_wordlist(tier):
    from buidl.shamir import SLIP39
    words = list(SLIP39.words)
    probs = S.wordlist_problems(words)
    rows = [_row("wordlist/slip39", not probs, "1024 distinct sorted lower-case words of 4..8 letters with unique 4-letter prefixes",
                 {"words": len(words), "problems": probs[:5]})]
    bad = [w for i, w in enumerate(words) if SLIP39[w] != i or SLIP39[w[:4]] != i or SLIP39[i] != w]
    extra = set(SLIP39.lookup) - set(words) - {w[:4] for w in words}
    rows.append(_row("wordlist/slip39-lookup", not bad and not extra,
                     "SLIP39[word] == SLIP39[word[:4]] == index, SLIP39[index] == word, no other keys",
                     {"words": len(words), "bad": bad[:3], "extra": sorted(extra)[:3]}))
    return rows


TABLES = [("gf256_tables", gf256_tables), ("interpolation_all_subsets", interpolation_all_subsets),
          ("rs1024_step_linear", rs1024_step_linear), ("rs1024_columns", rs1024_columns), ("slip39_wordlist", slip39_wordlist)]


# ======================================================================================= BOUNDED
class _SeededRandbits:
    """the share material of generate_shares comes from secrets.randbits; for reproducible runs the module-level
    name is temporarily bound to a VERIF_SEED-seeded generator (inputs only; no code of the library is changed)"""

    def __init__(self, rng):
        self.rng = rng

    def __enter__(self):
        import buidl.shamir as sh
        self.sh, self.old = sh, sh.randbits
        sh.randbits = self.rng.getrandbits
        return self

    def __exit__(self, *a):
        self.sh.randbits = self.old


def _idx(mn):
    from buidl.shamir import SLIP39
    return [SLIP39[w] for w in mn.split()]


def _res(t0, evals, distinct, failures, samples, bound):
    """at most two failures per violated clause (the first inputs found), plus the total count in the bound text"""
    per, kept = {}, []
    for f in failures:
        key = tuple(f["violated"])
        per[key] = per.get(key, 0) + 1
        if per[key] <= 2:
            kept.append(f)
    if failures:
        bound += "; failing cases per clause: %r" % ({k[0]: v for k, v in per.items()},)
    return {"evaluations": evals, "distinct": distinct, "failures": kept[:12], "samples": samples[:4], "bound": bound}


def _fail(what, inputs, violated):
    return {"what": what, "inputs": jsonable(inputs), "violated": violated}


def threshold_job(seed, tier):
    """all (k, n), 1 <= k <= n <= 16: any k shares recover, k-1 never do"""
    from buidl.shamir import ShareSet
    from buidl.mnemonic import bytes_to_mnemonic
    rng = random.Random(seed * 7919 + 15)
    t0 = time.time()
    evals = 0
    distinct = set()
    failures, samples = [], []
    outcomes_below = {}
    passphrases = [b"", b"TREZOR", bytes(range(33, 100))]
    with _SeededRandbits(rng):
        for n in range(1, 17):
            for k in range(1, n + 1):
                for bits in (128, 256):
                    secret = rand = rng.getrandbits(bits).to_bytes(bits // 8, "big")
                    if (n + k) % 5 == 0:
                        secret = [bytes(bits // 8), b"\xff" * (bits // 8)][(n + k) % 2]
                    mn = bytes_to_mnemonic(secret, bits)
                    pw = passphrases[(n + k + bits) % 3]
                    e = 0 if tier == "quick" else (n * k + bits // 128) % 3
                    shares = ShareSet.generate_shares(mn, k, n, passphrase=pw, exponent=e)
                    info = {"k": k, "n": n, "bits": bits, "passphrase": pw, "exponent": e, "secret": secret}
                    evals += 1
                    distinct.add((k, n, bits))
                    if len(shares) != n:
                        failures.append(_fail("generate_shares(k=%d, n=%d) returned %d shares, expected n" % (k, n, len(shares)),
                                              info, ["len(generate_shares(mnemonic, k, n)) == n"]))
                    # independent decoder on the real shares
                    sp = S.combine([_idx(m) for m in shares[:k]], pw)
                    if sp != secret:
                        failures.append(_fail("spec.combine(first k real shares) != secret", dict(info, got=repr(sp)), ["spec.combine(shares[:k]) == secret"]))
                    m_avail = len(shares)
                    if m_avail >= k:
                        if n <= 6 or tier != "quick" and n <= 10:
                            subsets = list(itertools.combinations(range(m_avail), k))
                        else:
                            subsets = [tuple(sorted(rng.sample(range(m_avail), k))) for _ in range(4 if tier == "quick" else 30)]
                            subsets.append(tuple(range(m_avail - k, m_avail)))
                        if k < m_avail:
                            subsets.append(tuple(range(m_avail)))                 # all shares
                            subsets.append(tuple(sorted(rng.sample(range(m_avail), k + 1))))
                        for A in subsets:
                            sel = [shares[i] for i in A]
                            rng.shuffle(sel)
                            evals += 1
                            try:
                                got = ShareSet.recover_mnemonic(sel, pw)
                            except Exception as ex:      # noqa
                                got = "raised " + repr(ex)
                            if got != mn:
                                failures.append(_fail("%d of the n=%d shares of a %d-of-%d split do not recover the mnemonic" % (len(A), n, k, n),
                                                      dict(info, subset=list(A), got=got), ["recover_mnemonic(any >= k shares) == mnemonic"]))
                    if k >= 2:
                        if n <= 6 or tier != "quick" and n <= 10:
                            below = list(itertools.combinations(range(m_avail), k - 1))
                        else:
                            below = [tuple(sorted(rng.sample(range(m_avail), k - 1))) for _ in range(3 if tier == "quick" else 30)]
                        for A in below:
                            evals += 1
                            try:
                                got = ShareSet.recover_mnemonic([shares[i] for i in A], pw)
                                outcomes_below["returned"] = outcomes_below.get("returned", 0) + 1
                                failures.append(_fail("k-1 shares returned a mnemonic" + (" (THE SECRET)" if got == mn else ""),
                                                      dict(info, subset=list(A), got=got), ["recover with fewer than k shares raises"]))
                            except Exception as ex:      # noqa
                                key = type(ex).__name__ + ": " + str(ex)[:40]
                                outcomes_below[key] = outcomes_below.get(key, 0) + 1
                    # wrong passphrase gives another secret, not an error (by design) and never the right one
                    if (n + k) % 7 == 0:
                        evals += 1
                        got = ShareSet.recover_mnemonic(shares[:k], pw + b"x")
                        if got == mn:
                            failures.append(_fail("wrong passphrase recovered the secret", info, ["decrypt with another passphrase differs"]))
                    # history: ONE ShareSet object asked twice with different passphrases (a result memoised on the object
                    # without the passphrase would answer the second call with the first call's secret); both orders,
                    # each answer judged by the independent decoder
                    if (n + k) % 3 == 0 and m_avail >= k:
                        from buidl.shamir import Share as _Share
                        for first, second in ((pw + b"x", pw), (pw, pw + b"typo")):
                            evals += 1
                            try:
                                obj = ShareSet([_Share.parse(m) for m in shares[:k]])
                                got = [obj.recover(first), obj.recover(second)]
                            except Exception as ex:      # noqa
                                got = "raised " + repr(ex)
                            want = [S.combine([_idx(m) for m in shares[:k]], first), S.combine([_idx(m) for m in shares[:k]], second)]
                            if got != want:
                                failures.append(_fail("one ShareSet object, recover(passphrase A) then recover(passphrase B): the answers are not "
                                                      "the two decryptions", dict(info, first=first, second=second, got=repr(got), want=repr(want)),
                                                      ["ShareSet.recover(p) == spec.combine(shares, p) on every call of one object"]))
                    if len(samples) < 3 and k == 2:
                        samples.append({"k": k, "n": n, "bits": bits, "share0": shares[0], "recovered": True})
                # spec-made shares -> real recover
                bits = (128, 256)[(n + k) % 2]
                secret = rng.getrandbits(bits).to_bytes(bits // 8, "big")
                ident = rng.getrandbits(15)
                r = bytes(rng.getrandbits(8) for _ in range(bits // 8 - 4))
                rnd = [bytes(rng.getrandbits(8) for _ in range(bits // 8)) for _ in range(max(0, k - 2))]
                sidx = S.generate(secret, k, n, ident, 0, b"pw", r, rnd)
                from verif.harness.shamir import words
                A = sorted(rng.sample(range(n), k))
                evals += 1
                try:
                    got = ShareSet.recover_mnemonic([words(sidx[i]) for i in A], b"pw")
                except Exception as ex:      # noqa
                    got = "raised " + repr(ex)
                if got != bytes_to_mnemonic(secret, bits):
                    failures.append(_fail("shares made by the SLIP-39 spec are not recovered by the real code",
                                          {"k": k, "n": n, "subset": A, "secret": secret, "id": ident, "got": got}, ["recover(spec shares) == secret"]))
    return _res(t0, evals, len(distinct), failures, samples,
                "all 136 (k,n) x {128,256} bits; all k-subsets and all (k-1)-subsets for n <= %d, sampled otherwise (+ full set, one (k+1)-subset); "
                "3 passphrases; exponent %s; share randomness seeded; below-threshold outcomes observed: %r" % (
                    6 if tier == "quick" else 10, "0" if tier == "quick" else "0..2", outcomes_below))


def mixing_job(seed, tier):
    """share sets mixing identifier / exponent / threshold / count / length, or repeating an index, are refused"""
    from buidl.shamir import ShareSet, Share
    from buidl.mnemonic import bytes_to_mnemonic
    rng = random.Random(seed * 104729 + 3)
    t0 = time.time()
    evals, failures, samples, seen = 0, [], [], {}
    with _SeededRandbits(rng):
        reps = 6 if tier == "quick" else 40
        for rep in range(reps):
            bits = (128, 256)[rep % 2]
            mn = bytes_to_mnemonic(rng.getrandbits(bits).to_bytes(bits // 8, "big"), bits)
            k = rng.randrange(2, 6)
            n = rng.randrange(k, 9)
            a = ShareSet.generate_shares(mn, k, n, b"p", 0)
            pa0 = Share.parse(a[0])
            other = ShareSet.generate_shares(mn, k, n, b"p", 0)
            # (1) shares of independently generated splits (whatever differs first is reported)
            variants = {
                "another split of the same secret": other,
                "split with another exponent": ShareSet.generate_shares(mn, k, n, b"p", 1),
                "split with another threshold": ShareSet.generate_shares(mn, k + 1, n + 1, b"p", 0),
                "split with another count": ShareSet.generate_shares(mn, k, n + 1, b"p", 0),
                "split of a secret of another length": ShareSet.generate_shares(bytes_to_mnemonic(bytes(48 - bits // 8), 384 - bits), k, n, b"p", 0),
            }
            for why, b in variants.items():
                if Share.parse(b[0]).id == pa0.id and why.startswith("another split"):
                    continue
                mix = a[:k - 1] + [b[k - 1]]
                evals += 1
                try:
                    got = ShareSet.recover_mnemonic(mix, b"p")
                    failures.append(_fail("mixed share set (%s) was accepted" % why, {"shares": mix, "got": got}, ["mixed sets are rejected"]))
                except Exception as ex:      # noqa
                    seen[why] = type(ex).__name__
            # (2) exactly one header field differs (identifier equal): each consistency check on its own
            pb = Share.parse(other[k - 1])
            hdr = dict(share_bit_length=pb.share_bit_length, id=pa0.id, exponent=pa0.exponent, group_index=pb.group_index,
                       group_threshold=pa0.group_threshold, group_count=pa0.group_count, member_index=0, member_threshold=1, value=pb.value)
            singles = {"identifier only": dict(id=pa0.id ^ (1 << rng.randrange(15))), "exponent only": dict(exponent=pa0.exponent + 1),
                       "group threshold only": dict(group_threshold=k - 1 if k > 1 else k + 1), "group count only": dict(group_count=n + 1 if n < 16 else n - 1),
                       "length only": dict(share_bit_length=384 - bits, value=pb.value & (2 ** 128 - 1)),
                       "member threshold only (same group as share 0)": dict(group_index=pa0.group_index, member_index=1, member_threshold=2)}
            for why, over in singles.items():
                f = dict(hdr)
                f.update(over)
                if f["group_threshold"] > f["group_count"]:
                    continue
                forged1 = Share(**f).mnemonic()
                mix = a[:k - 1] + [forged1]
                evals += 1
                try:
                    got = ShareSet.recover_mnemonic(mix, b"p")
                    failures.append(_fail("share set differing in %s was accepted" % why, {"shares": mix, "got": got}, ["mixed sets are rejected"]))
                except Exception as ex:      # noqa
                    seen[why] = type(ex).__name__ + ": " + str(ex)[:32]
            # same identifier/exponent/threshold forced (what a collision of the 15-bit identifier would give): digest must catch it
            pa = [Share.parse(m) for m in a]
            b = ShareSet.generate_shares(mn, k, n, b"p", 0)
            pb = Share.parse(b[k - 1])
            forged = Share(pb.share_bit_length, pa[0].id, pa[0].exponent, pb.group_index, pb.group_threshold, pb.group_count,
                           pb.member_index, pb.member_threshold, pb.value).mnemonic()
            if Share.parse(forged).bytes != pa[k - 1].bytes:
                evals += 1
                try:
                    got = ShareSet.recover_mnemonic(a[:k - 1] + [forged], b"p")
                    failures.append(_fail("share of another split with the identifier rewritten was accepted", {"shares": a[:k - 1] + [forged], "got": got},
                                          ["digest share detects foreign shares"]))
                except ValueError as ex:
                    seen["foreign share, same header"] = "ValueError: " + str(ex)[:30]
            # duplicates
            for dup in (a[:k - 1] + [a[0]], [a[0], a[0]], a + [a[-1]]):
                evals += 1
                try:
                    got = ShareSet.recover_mnemonic(dup, b"p")
                    failures.append(_fail("share set with a repeated share was accepted", {"shares": dup, "got": got}, ["duplicate indices are rejected"]))
                except Exception as ex:      # noqa
                    seen["duplicate"] = type(ex).__name__
            evals += 1
            try:
                ShareSet.recover_mnemonic([], b"p")
                failures.append(_fail("empty share list accepted", {}, ["no shares -> error"]))
            except Exception as ex:      # noqa
                seen["empty"] = type(ex).__name__
            if len(samples) < 2:
                samples.append({"k": k, "n": n, "rejections": dict(seen)})
    return _res(t0, evals, evals, failures, samples,
                "%d random splits x {identifier, exponent, threshold, count, length, forged header, duplicates, empty}; observed rejections: %r" % (reps, seen))


def corruption_job(seed, tier):
    """every single-word substitution and sampled 2-/3-word substitutions of real share mnemonics are refused by Share.parse"""
    from buidl.shamir import ShareSet, Share, SLIP39
    from buidl.mnemonic import bytes_to_mnemonic
    rng = random.Random(seed * 31337 + 5)
    t0 = time.time()
    evals, failures, samples = 0, [], []
    words = SLIP39.words
    nshares = 6 if tier == "quick" else 40
    nmulti = 60000 if tier == "quick" else 2000000
    with _SeededRandbits(rng):
        for rep in range(nshares):
            bits = (128, 256)[rep % 2]
            mn = bytes_to_mnemonic(rng.getrandbits(bits).to_bytes(bits // 8, "big"), bits)
            share = ShareSet.generate_shares(mn, 2, 3, b"", 0)[rep % 3]
            w = share.split()
            assert Share.parse(share).mnemonic() == share
            for p in range(len(w)):
                orig = w[p]
                for cand in words:
                    if cand == orig:
                        continue
                    w[p] = cand
                    evals += 1
                    try:
                        Share.parse(" ".join(w))
                        failures.append(_fail("single-word corruption accepted", {"share": share, "position": p, "word": cand}, ["Share.parse rejects 1-word substitutions"]))
                    except ValueError:
                        pass
                w[p] = orig
            for m in (2, 3):
                for _ in range(nmulti // nshares):
                    ps = rng.sample(range(len(w)), m)
                    c = list(w)
                    for p in ps:
                        c[p] = words[(SLIP39[c[p]] + 1 + rng.randrange(1023)) % 1024]
                    evals += 1
                    try:
                        Share.parse(" ".join(c))
                        failures.append(_fail("%d-word corruption accepted" % m, {"share": share, "corrupted": " ".join(c)}, ["Share.parse rejects <= 3-word substitutions"]))
                    except ValueError:
                        pass
            # 4-letter prefixes are the same share
            evals += 1
            if Share.parse(" ".join(x[:4] for x in w)).mnemonic() != share:
                failures.append(_fail("prefix form parses differently", {"share": share}, ["prefix form == full form"]))
            samples.append({"share": share, "single_substitutions_rejected": len(w) * 1023})
    return _res(t0, evals, evals, failures, samples,
                "%d real shares (128/256 bits alternating): all %s single-word substitutions each, %d sampled 2-word and %d sampled 3-word substitutions in total"
                % (nshares, "20*1023 / 33*1023", nmulti, nmulti))


def _official_vectors():
    """the SLIP-39 vectors embedded in /repo/buidl/test/test_shamir.py (name, mnemonics, expected hex | exception name)"""
    src = open("/repo/buidl/test/test_shamir.py").read()
    tree = ast.parse(src)
    out = []
    for node in ast.walk(tree):
        if isinstance(node, ast.Assign) and getattr(node.targets[0], "id", None) == "test_cases":
            for el in node.value.elts:
                name = ast.literal_eval(el.elts[0])
                mns = ast.literal_eval(el.elts[1])
                third = el.elts[2]
                exp = third.id if isinstance(third, ast.Name) else ast.literal_eval(third)
                out.append((name, mns, exp))
    return out


def vectors_job(seed, tier):
    from buidl.shamir import ShareSet, Share
    t0 = time.time()
    evals, failures, samples = 0, [], []
    vecs = _official_vectors()
    for name, mns, exp in vecs:
        evals += 1
        sp = S.combine([_idx(m) for m in mns], b"TREZOR")
        try:
            real = ShareSet([Share.parse(m) for m in mns]).recover(b"TREZOR").hex()
        except Exception as ex:      # noqa
            real = "raised " + type(ex).__name__
        valid = exp not in ("ValueError", "TypeError", "SyntaxError")
        if valid:
            ok = real == exp and isinstance(sp, bytes) and sp.hex() == exp
        else:
            ok = real.startswith("raised") and isinstance(sp, str)
        if not ok:
            failures.append(_fail("official SLIP-39 vector: " + name, {"mnemonics": mns, "expected": exp, "real": real, "spec": repr(sp)},
                                  ["real == spec == official vector"]))
        if len(samples) < 3:
            samples.append({"vector": name, "real": real, "spec": sp.hex() if isinstance(sp, bytes) else sp})
    return _res(t0, evals, len(vecs), failures, samples, "%d official SLIP-39 vectors found in buidl/test/test_shamir.py (passphrase TREZOR): real code, independent spec and expected value agree" % len(vecs))


def affine_job(seed, tier):
    """polymod of the real code is the xor of its per-position syndromes (sampled; the proof is polymod4 + rs1024/step-linear)"""
    from buidl.shamir import rs1024_polymod as P
    rng = random.Random(seed + 99)
    t0 = time.time()
    cs = list(b"shamir")
    evals, failures = 0, []
    for L in (20, 33):
        base0 = P(cs + [0] * L)
        for _ in range(1500 if tier == "quick" else 20000):
            v = [rng.getrandbits(10) for _ in range(L)]
            acc = 0
            for p, e in enumerate(v):
                z = [0] * L
                z[p] = e
                acc ^= P(cs + z) ^ base0
            evals += 1
            if P(cs + v) ^ base0 != acc:
                failures.append(_fail("polymod not affine", {"values": v}, ["polymod(cs+v) ^ polymod(cs+0) == xor_p syndrome(p, v_p)"]))
    return _res(t0, evals, evals, failures, [], "random 20- and 33-word vectors")


def spec_crosscheck_job(seed, tier):
    """the spec's own PBKDF2 (RFC 8018, HMAC from the standard library) against hashlib.pbkdf2_hmac, and the
    spec's Feistel network against an implementation using hashlib.pbkdf2_hmac"""
    import hashlib
    rng = random.Random(seed + 4)
    t0 = time.time()
    evals, failures = 0, []
    for _ in range(60 if tier == "quick" else 600):
        dig = rng.choice(("sha1", "sha256", "sha512"))
        p = bytes(rng.getrandbits(8) for _ in range(rng.randrange(0, 200)))
        s = bytes(rng.getrandbits(8) for _ in range(rng.randrange(0, 40)))
        c = rng.choice((1, 2, 3, 100, 2048, 2500))
        n = rng.choice((1, 8, 16, 20, 64, 65, 130))
        evals += 1
        if spec.mnemonic.pbkdf2_hmac(dig, p, s, c, n) != hashlib.pbkdf2_hmac(dig, p, s, c, n):
            failures.append(_fail("spec PBKDF2 != hashlib.pbkdf2_hmac", {"digest": dig, "p": p, "s": s, "c": c, "n": n}, ["spec self-check"]))
    return _res(t0, evals, evals, failures, [], "random digests/passwords/salts/iteration counts/lengths")


def _fuzz(seed, tier):
    return fuzz_contracts(CONTRACTS, seed, tier, budget_s=60 if tier == "quick" else 600)


BOUNDED = [("rt-contracts", _fuzz), ("threshold-all-k-n", threshold_job), ("mixing", mixing_job), ("corruption", corruption_job),
           ("official-vectors", vectors_job), ("polymod-affine-sample", affine_job), ("spec-crosscheck", spec_crosscheck_job)]

TRUSTED_BASE = ["pyvc symbolic executor (A-ENGINE)", "z3 5.1 (bit-vector mode for RS1024)", "spec functions verif/specs/slip39.py, verif/specs/mnemonic.py (A-SPEC)",
                "harness verif/harness/shamir.py", "CPython built-ins per verif/pyvc/calls.py (A-BUILTIN)", "numpy (table enumeration)",
                "hashlib / hmac: HMAC-SHA256 and PBKDF2 uninterpreted in the deductive part, CPython's implementation in the bounded part",
                "manual step: induction over the RS1024 loop (step equality by contract polymod4, step linearity by z3) and byte-wise linearity of interpolate"]
ASSUMPTIONS = ["A-ENGINE", "A-SPEC", "A-BUILTIN", "termination not verified",
               "secrecy of k-1 shares (information-theoretic statement) is not formalised; only the refusal of the code to return a secret is checked",
               "uniqueness of the degree<k interpolant is checked exhaustively on the 16 share indices rather than proved in Lean"]
EXPLANATION = ("SLIP39: GF(256) tables, Lagrange identities for all 65535 subsets of the 16 share indices and the RS1024 <=3-error detection are decided "
               "exhaustively on the real code; integer-only checks (share field ranges, cross-share consistency, below-threshold refusal, one RS1024 step) deductively; "
               "word packing, Feistel encryption and the whole scheme by bounded runs against an independent SLIP-0039 spec.")
CATEGORY = "other"
LEVEL_TEXT = ("Mixed. Exhaustive on the real code: exp/log tables vs carry-less multiplication (65536 pairs) and field axioms; interpolate() has the Lagrange "
              "coefficients and any k (and more) of the shares give back secret and digest for every subset of {0..15} (all (k,n), all subsets, all secrets by "
              "byte-wise linearity); RS1024 syndrome columns of the real polymod for all positions/values of 20- and 33-word shares, every three columns "
              "GF(1024)-independent (1140 + 5456 determinants) and direct enumeration of all 1-, 2- and 3-word substitutions: none undetected. "
              "Deductive (symbolic, z3): Share.__init__ ranges, ShareSet.__init__ refuses mixed/duplicate shares, recover() refuses fewer than threshold shares, one generic "
              "RS1024 step equals the spec step (bit-vectors), spec step GF(2)-linear. Bounded only: Share.parse/mnemonic vs the SLIP-39 packing, encrypt/decrypt vs the "
              "spec Feistel network and mutual inverse, generate/recover for all 136 (k,n), mixing, corruption by sampled 2-/3-word substitutions, official vectors. "
              "Not 'proof': strings and table look-ups are outside the symbolic engine.  "
              "The defects these checks found on the pinned tree are repaired by fix: commits in /repo (one `fixed:` line each in /verif/KNOWN_FINDINGS.jsonl).")
LEVEL_NOTE = ("trusted: pyvc translation (A-ENGINE), spec functions (A-SPEC), CPython builtin contracts (A-BUILTIN), HMAC/PBKDF2 uninterpreted or CPython's; "
              "induction over the RS1024 loop and byte-wise linearity of interpolate are manual steps; termination not verified")
