import os
import subprocess
import time

from verif.pyvc.verifier import REG
from verif.bounded import fuzz_job
import verif.contracts  # noqa

ROOT = os.path.dirname(os.path.dirname(os.path.dirname(os.path.abspath(__file__))))
CONTRACTS = [n for n, c in REG.contracts.items() if "C03" in c.props]


def lean_point_add(tier):
    from verif.tools import lean_pointadd
    return lean_pointadd.run(tier)


def lean_static_lemmas(tier):
    """Fermat inverse, Euler criterion for p = 3 (mod 4), uniqueness of square roots up to sign:
    the facts verif/pyvc/theories.py hands to z3, checked by Lean against Mathlib"""
    t0 = time.time()
    path = os.path.join(ROOT, "lean", "Lemmas.lean")
    try:
        pr = subprocess.run(["lean", path], capture_output=True, text=True, timeout=900)
    except Exception as e:
        return [{"name": "C03/lean/Lemmas", "status": "undecided", "backend": "lean", "clause": "static lemma file", "note": repr(e)}]
    errs = [l for l in (pr.stdout + pr.stderr).splitlines() if "error" in l or "sorry" in l]
    names = ["fermat_inverse", "inverse_zero", "sqrt_three_mod_four", "sqrt_unique_up_to_sign", "secp_p_mod_four", "nsmul_binary_step"]
    ok = pr.returncode == 0 and not errs
    return [{"name": "C03/lean/Lemmas/" + n, "status": "ok" if ok else "fail", "backend": "lean", "secs": round(time.time() - t0, 1),
             "clause": "Lean/Mathlib lemma %s (verif/lean/Lemmas.lean)" % n, "confirmed": False,
             "note": None if ok else "\n".join(errs[:5])} for n in names]


def two_torsion_free(tier):
    """-7 is not a cube mod P (so y = 0 never occurs on secp256k1) and 7 is not a square (x = 0 never occurs)"""
    P = 2**256 - 2**32 - 977
    g = pow(3, (P - 1) // 3, P)          # P = 1 (mod 3): a is a cube iff a^((P-1)/3) == 1
    cube = pow(P - 7, (P - 1) // 3, P) == 1
    sq = pow(7, (P - 1) // 2, P) == 1
    return [{"name": "C03/const/minus7_not_cube", "status": "ok" if not cube and P % 3 == 1 else "fail", "backend": "exhaustive",
             "clause": "(-7)^((P-1)/3) != 1 mod P: no point of order 2 on secp256k1", "inputs": {"g": str(g)[:8]}},
            {"name": "C03/const/7_not_square", "status": "ok" if not sq else "fail", "backend": "exhaustive",
             "clause": "7^((P-1)/2) != 1 mod P: no point with x = 0", "inputs": {}}]


def small_fields(seed, tier):
    """the property's own bounded domain: every element/pair of F_p for p <= 31 and every pair of points of
    y^2 = x^3 + 7 over those fields: FieldElement/Point agree with independent integer arithmetic, and the
    points form a commutative group under Point.__add__ with __rmul__ = repeated addition"""
    from buidl.pecc import FieldElement, Point
    ev, fails = 0, []
    samples = []
    primes = [5, 7, 11, 13, 17, 19, 23, 29, 31] if tier == "thorough" else [5, 7, 11, 13, 17, 19, 23]
    for p in primes:
        # field
        for a in range(p):
            for b in range(p):
                x, y = FieldElement(a, p), FieldElement(b, p)
                ev += 1
                ok = (x + y).num == (a + b) % p and (x - y).num == (a - b) % p and (x * y).num == (a * b) % p
                if b:
                    ok = ok and ((x / y) * y).num == a
                for n in (-2, -1, 0, 1, 2, 3, p - 1, p):
                    ok = ok and (x ** n).num == (pow(a, n % (p - 1), p))
                if not ok:
                    fails.append({"what": "FieldElement arithmetic wrong in F_%d for (%d,%d)" % (p, a, b), "inputs": {"p": p, "a": a, "b": b}, "violated": ["field"]})
        # curve points
        if (4 * 0 + 27 * 49) % p == 0:
            continue
        A, B = FieldElement(0, p), FieldElement(7 % p, p)
        pts = [Point(None, None, A, B)]
        for xv in range(p):
            for yv in range(p):
                if (yv * yv - xv ** 3 - 7) % p == 0:
                    pts.append(Point(FieldElement(xv, p), FieldElement(yv, p), A, B))

        def key(q):
            return None if q.x is None else (q.x.num, q.y.num)

        def ref_add(u, v):
            if u is None:
                return v
            if v is None:
                return u
            (x1, y1), (x2, y2) = u, v
            if x1 == x2 and (y1 + y2) % p == 0:
                return None
            lam = (3 * x1 * x1) * pow(2 * y1, p - 2, p) % p if u == v else (y2 - y1) * pow(x2 - x1, p - 2, p) % p
            x3 = (lam * lam - x1 - x2) % p
            return (x3, (lam * (x1 - x3) - y1) % p)
        table = {}
        for u in pts:
            for v in pts:
                ev += 1
                try:
                    w = key(u + v)
                except Exception as e:
                    w = "raise:" + type(e).__name__
                table[(key(u), key(v))] = w
                if w != ref_add(key(u), key(v)):
                    fails.append({"what": "Point.__add__ differs from the affine group law on y^2=x^3+7 over F_%d: %s + %s" % (p, key(u), key(v)),
                                  "inputs": {"p": p, "u": key(u), "v": key(v), "got": str(w)}, "violated": ["add"]})
        keys = [key(q) for q in pts]
        # closure, commutativity, associativity, inverse
        for u in keys:
            for v in keys:
                if table[(u, v)] != table[(v, u)] or table[(u, v)] not in keys:
                    fails.append({"what": "group law (closure/commutativity) fails over F_%d" % p, "inputs": {"p": p, "u": u, "v": v}, "violated": ["group"]})
                for w in keys[:12]:
                    ev += 1
                    if table[(table[(u, v)], w)] != table[(u, table[(v, w)])]:
                        fails.append({"what": "associativity fails over F_%d" % p, "inputs": {"p": p, "u": u, "v": v, "w": w}, "violated": ["assoc"]})
        n = len(pts)
        for q in pts[1:6]:
            acc = None
            for k in range(0, 2 * n + 2):
                ev += 1
                if key(k * q) != acc:
                    fails.append({"what": "Point.__rmul__(%d) != repeated addition over F_%d" % (k, p), "inputs": {"p": p, "k": k, "q": key(q)}, "violated": ["rmul"]})
                    break
                acc = ref_add(acc, key(q))
        if len(samples) < 2:
            samples.append({"p": p, "points": n})
    return {"evaluations": ev, "distinct": ev, "failures": fails[:5], "samples": samples,
            "bound": "all elements and pairs of F_p and all point pairs (associativity: all pairs x 12 third points) of y^2=x^3+7 for p in %s; scalars 0..2*#E+1" % primes}


def s256_scalars(seed, tier):
    """S256Point scalar multiplication against the independent reference for the scalars the property names"""
    import random
    from buidl.pecc import G, N, S256Point
    import verif.specs as s
    rng = random.Random(seed)
    ks = [0, 1, 2, 3, N - 1, N, N + 1, 2 * N, 2**256 - 1, 2**256, -1, -2] + [rng.getrandbits(rng.choice([16, 128, 256, 300])) for _ in range(6 if tier == "quick" else 60)]
    ev, fails = 0, []
    for k in ks:
        ev += 1
        want = s.curve.mul_G(k % N)
        got = k * G
        g = None if got.x is None else (got.x.num, got.y.num)
        if g != want:
            fails.append({"what": "k*G differs from the reference for k=%d" % k, "inputs": {"k": str(k)}, "violated": ["rmul"]})
    a, b = rng.randrange(1, N), rng.randrange(1, N)
    ev += 2
    if s.curve.pt(a * G + b * G) != s.curve.mul_G((a + b) % N) or s.curve.pt(a * (b * G)) != s.curve.mul_G(a * b % N):
        fails.append({"what": "(a+b)G / a(bG) law fails", "inputs": {"a": str(a), "b": str(b)}, "violated": ["law"]})
    return {"evaluations": ev, "distinct": ev, "failures": fails, "samples": [{"k": str(ks[4])}],
            "bound": "boundary scalars 0,1,2,3,N-1,N,N+1,2N,2^256-1,2^256,-1,-2 and seeded random scalars up to 300 bits"}


TABLES = [("lean-point-add", lean_point_add), ("lean-static-lemmas", lean_static_lemmas), ("two-torsion-free", two_torsion_free)]
BOUNDED = [("rt-contracts", fuzz_job(CONTRACTS)), ("small-fields", small_fields), ("s256-scalars", s256_scalars)]
JOB_TIMEOUT = {"quick": 400, "thorough": 1500}
CATEGORY = "proof"
TECHNIQUE = ("contract-based deductive verification: formulas of the real Point.__add__ extracted by abstract-field symbolic execution and proved equal to "
             "Mathlib's WeierstrassCurve.Affine.Point addition in Lean 4 (so the group axioms are inherited); pyvc + z3 + zn_ring for FieldElement arithmetic and SEC/x-only encodings; "
             "exhaustive small-field group-law tables as bounded companion")
TRUSTED_BASE = ["pyvc symbolic executor incl. abstract-field mode (verif/pyvc/fieldmode.py)", "Lean 4.33 kernel + Mathlib", "z3 5.1", "zn_ring",
                "FieldElement methods implement Z/p arithmetic (own contracts fe_op#*, s256_div) -- used when Point.__add__ is run over an abstract field",
                "discrete-log model for the encoding round trips (A-PRIME)", "spec verif/specs/curve.py"]
ASSUMPTIONS = ["A-ENGINE", "A-SPEC", "A-PRIME (N prime and the group order: not proved here)",
               "curve nonsingular and characteristic != 2 (hypotheses of the Lean theorems; true for secp256k1 and for the generic class over F_p, p not in {2,3,7}, b=7)",
               "Point.__rmul__ (double-and-add loop) == nsmul is proved for every coefficient >= 0 by a loop invariant over an abstract commutative monoid; the monoid-law instances and the step lemma c*Q = (c/2)*(Q+Q) + (c%2)*Q handed to z3 are Lean/Mathlib facts (lean/Lemmas.lean: nsmul_binary_step); negative coefficients do not terminate on the generic class (termination is not verified); S256Point.__rmul__ reduces mod N first, which is correct because N is the group order (A-PRIME)",
               "(a+b)G = aG + bG and a(bG) = (ab)G then follow from Mathlib's add_nsmul / mul_nsmul for the group of section C03.3 (library lemmas, not re-derived here)",
               "FieldElement.__pow__ for symbolic exponents: bounded only", "cecc.py back end not verified", "termination not verified"]
EXPLANATION = ("Scalar multiplication: the double-and-add loop of the real Point.__rmul__ equals nsmul for all coefficients >= 0 (invariant result + coef*current == coefficient*self). "
               "Group law: the six paths of the real Point.__add__ (chord, tangent, inverse, doubling a 2-torsion point, and the two constructor on-curve checks, "
               "which are proved unreachable) are Mathlib's point addition (Lean); identity cases by inspection of the extracted result. Field arithmetic and SEC / x-only "
               "encodings: all inputs, pyvc+z3. Exhaustive small-field tables and boundary scalars on secp256k1 as bounded companion.")
LEVEL_TEXT = ("Point addition formulas of the real code proved equal to Mathlib's elliptic-curve group addition for every field and curve (Lean), FieldElement "
              "add/sub/mul/div and the SEC/x-only codecs proved for all inputs (accepting exactly prefixes 02/03/04 with the right length); scalar "
              "multiplication by double-and-add proved equal to nsmul for every non-negative coefficient by an inductive loop invariant in an abstract commutative monoid.")
LEVEL_NOTE = "Lean/Mathlib trusted; curve nonsingular, char != 2; A-PRIME (order N, cyclic) for encodings and for reducing scalars mod N; FieldElement.__pow__ with symbolic exponent bounded only; termination not verified; cecc unverified"
