"""Concrete (run-time) evaluation of the same contracts on the real functions under CPython:
replay of solver counterexamples, and the bounded companion of every contract."""
import ast
import builtins
import copy
import importlib
import io
import random
import traceback

import verif.specs as specs


class _Implies(ast.NodeTransformer):
    def __init__(self):
        self.olds = []

    def visit_Call(self, node):
        self.generic_visit(node)
        if isinstance(node.func, ast.Name) and node.func.id == "implies" and len(node.args) == 2:
            return ast.BoolOp(op=ast.Or(), values=[ast.UnaryOp(op=ast.Not(), operand=node.args[0]), node.args[1]])
        if isinstance(node.func, ast.Name) and node.func.id == "old" and len(node.args) == 1:
            k = len(self.olds)
            self.olds.append(node.args[0])
            return ast.Subscript(value=ast.Name(id="_old", ctx=ast.Load()), slice=ast.Constant(k), ctx=ast.Load())
        return node


_cache = {}


def compile_clause(text):
    if text not in _cache:
        tr = _Implies()
        tree = tr.visit(ast.parse(text.strip(), mode="eval"))
        ast.fix_missing_locations(tree)
        olds = []
        for o in tr.olds:
            e = ast.Expression(body=o)
            ast.fix_missing_locations(e)
            olds.append(compile(e, "<old>", "eval"))
        _cache[text] = (compile(tree, "<clause>", "eval"), olds)
    return _cache[text]


def build_value(v):
    """model/JSON value -> real Python object"""
    if isinstance(v, dict):
        if "__stream__" in v:
            return io.BytesIO(build_value(v["__stream__"]))
        if "__point_xy__" in v:
            from buidl.pecc import S256Point
            x, y = build_value(v["__point_xy__"])
            return S256Point(x, y)
        if "__point__" in v:
            from buidl.pecc import G
            return build_value(v["__point__"]) * G
        if "__tint__" in v:
            mod, _, cn = v["__tint__"].rpartition(".")
            return getattr(importlib.import_module(mod), cn)(build_value(v["value"]))
        if "__class__" in v:
            mod, _, cn = v["__class__"].rpartition(".")
            cls = importlib.import_module(mod)
            for part in cn.split("."):
                cls = getattr(cls, part)
            o = cls.__new__(cls)
            for k, x in v["fields"].items():
                setattr(o, k, build_value(x))
            return o
        if "__dict__" in v:
            return {build_value(a): build_value(b) for a, b in v["__dict__"]}
        return {k: build_value(x) for k, x in v.items()}
    if isinstance(v, list):
        return [build_value(x) for x in v]
    if isinstance(v, tuple):
        return tuple(build_value(x) for x in v)
    return v


class Outcome:
    def __init__(self):
        self.kind = "pre"
        self.exc = None
        self.result = None


def run_concrete(c, inputs, want_trace=False):
    """Run the real function of contract c on concrete inputs.
    -> dict(status = 'ok' | 'violated' | 'pre-false' | 'error', violated=[clauses], outcome=...)"""
    env = {k: build_value(v) for k, v in inputs.items()}
    for k, kind in c.params.items():
        if isinstance(kind, tuple) and kind and kind[0] == "const_cls":
            from verif.pyvc.verifier import resolve
            env[k] = resolve(kind[1])
        elif isinstance(kind, tuple) and kind and kind[0] == "const" and k not in env:
            env[k] = kind[1]
    out = Outcome()

    def returns():
        return out.kind == "return"

    def raises(*classes):
        if out.kind != "raise":
            return False
        return isinstance(out.exc, classes) if classes else True
    glob = {"spec": specs, "returns": returns, "raises": raises, "__builtins__": builtins}
    try:
        if c.setup is not None and hasattr(c.setup, "conc"):
            c.setup.conc(env, glob)
    except Exception as e:
        return {"status": "pre-false", "why": "setup raised %r" % (e,)}
    for r in c.requires:
        code, olds = compile_clause(r)
        try:
            if not eval(code, glob, env):
                return {"status": "pre-false", "why": r}
        except Exception as e:
            return {"status": "pre-false", "why": "%s raised %r" % (r, e)}
    fn = c.fn
    import inspect
    names = c.args or [p for p in inspect.signature(fn).parameters if p in env]
    old_env = {}
    for k, v in env.items():
        try:
            old_env[k] = copy.deepcopy(v)
        except Exception:
            old_env[k] = v
    args = [env[n] for n in names]
    try:
        out.result = fn(*args)
        out.kind = "return"
    except Exception as e:        # the code under test may raise anything
        out.kind = "raise"
        out.exc = e
    env["result"] = out.result
    violated = []
    for exc_name, cond in c.raises.items():
        cls = getattr(builtins, exc_name)
        code, _ = compile_clause(cond)
        try:
            want = bool(eval(code, glob, old_env))
        except Exception as e:
            violated.append("raises(%s) iff %s  [condition raised %r]" % (exc_name, cond, e))
            continue
        got = out.kind == "raise" and isinstance(out.exc, cls)
        if want != got:
            violated.append("raises(%s) iff %s" % (exc_name, cond))
    if out.kind == "raise" and c.raises and not any(isinstance(out.exc, getattr(builtins, n)) for n in c.raises):
        violated.append("unexpected %s" % type(out.exc).__name__)
    for e in c.ensures:
        code, olds = compile_clause(e)
        try:
            env["_old"] = [eval(o, glob, old_env) for o in olds]
            ok = bool(eval(code, glob, env))
        except (RecursionError, MemoryError) as ex:
            # a limit of the checker's own spec evaluation, never evidence about the code under test
            return {"status": "pre-false", "why": "spec evaluation hit an interpreter limit: %r" % (ex,)}
        except Exception as ex:
            ok = False
            e = "%s  [evaluation raised %r]" % (e, ex)
        if not ok:
            violated.append(e)
    res = {"status": "violated" if violated else "ok", "violated": violated,
           "outcome": out.kind + ((":" + type(out.exc).__name__) if out.exc is not None else "")}
    if out.kind == "return":
        res["result"] = repr(out.result)[:200]
    return res
