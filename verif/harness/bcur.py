"""C20 harnesses: BCUR / bc32 / CBOR as a user calls them (payloads are bytes here; the library's API is base64 text)."""
from binascii import a2b_base64, b2a_base64

from buidl.bech32 import cbor_encode, cbor_decode, bc32encode, bc32decode, convertbits
from buidl.bcur import BCURSingle, BCURMulti, bcur_encode, bcur_decode


def _b64(payload):
    return b2a_base64(payload).strip().decode()


def cbor_rt(d):
    return cbor_decode(cbor_encode(d))


def bc32_rt(d):
    return bc32decode(bc32encode(d))


def bc32_accepts(s):
    """decoded bytes, or None when the decoder returns None or raises"""
    try:
        return bc32decode(s)
    except Exception:
        return None


def cb_rt(d):
    """bytes -> 5-bit groups -> bytes"""
    return convertbits(convertbits(d, 8, 5), 5, 8, False)


def bcur_rt(payload):
    enc, h = bcur_encode(payload)
    return bcur_decode(enc, h), bcur_decode(enc)


def single_encode(payload, use_checksum):
    return BCURSingle(text_b64=_b64(payload)).encode(use_checksum=use_checksum)


def single_parse(s):
    return a2b_base64(BCURSingle.parse(s).text_b64)


def single_accepts(s):
    try:
        return a2b_base64(BCURSingle.parse(s).text_b64)
    except Exception:
        return None


def multi_encode(payload, max_size_per_chunk):
    return BCURMulti(text_b64=_b64(payload)).encode(max_size_per_chunk=max_size_per_chunk)


def multi_encode_full(payload, max_size_per_chunk):
    """(parts, the object's single bc32 encoding, its digest string)"""
    o = BCURMulti(text_b64=_b64(payload))
    return o.encode(max_size_per_chunk=max_size_per_chunk), o.encoded, o.enc_hash


def multi_encoded(payload):
    o = BCURMulti(text_b64=_b64(payload))
    return o.encoded, o.enc_hash


def multi_parse(parts):
    return a2b_base64(BCURMulti.parse(list(parts)).text_b64)


def multi_accepts(parts):
    """payload if the real parser accepts the list of parts, None if it raises"""
    try:
        return a2b_base64(BCURMulti.parse(list(parts)).text_b64)
    except Exception:
        return None


def multi_roundtrip(payload, max_size_per_chunk):
    return a2b_base64(BCURMulti.parse(BCURMulti(text_b64=_b64(payload)).encode(max_size_per_chunk=max_size_per_chunk)).text_b64)
