"""API-level harnesses for C14 (BIP39 / PBKDF2): straight-line compositions of the real functions as a user
calls them.  Nothing is re-implemented here; index <-> word translation goes through the real `BIP39` list."""
import hashlib
import hmac

from buidl.hd import HDPrivateKey
from buidl.helper import hmac_sha512_kdf
from buidl.mnemonic import BIP39, bytes_to_mnemonic, mnemonic_to_bytes
from buidl.pbkdf2 import PBKDF2


def pbkdf2_sha512_read(passphrase, salt, iterations, n):
    """one read of n bytes from the vendored PBKDF2 with HMAC-SHA512"""
    return PBKDF2(passphrase, salt, iterations, macmodule=hmac, digestmodule=hashlib.sha512).read(n)


def pbkdf2_sha1_read(passphrase, salt, iterations, n):
    """the vendored PBKDF2 with its defaults (HMAC-SHA1)"""
    return PBKDF2(passphrase, salt, iterations).read(n)


def pbkdf2_sha512_read2(passphrase, salt, iterations, n1, n2):
    """two consecutive reads: the stream must continue where it stopped"""
    p = PBKDF2(passphrase, salt, iterations, macmodule=hmac, digestmodule=hashlib.sha512)
    a = p.read(n1)
    b = p.read(n2)
    return a + b


def kdf(msg, salt):
    return hmac_sha512_kdf(msg, salt)


def mnemonic_indices(b, num_bits):
    """word indices of bytes_to_mnemonic(b, num_bits), looked up in the real word list"""
    return [BIP39[w] for w in bytes_to_mnemonic(b, num_bits).split()]


def mnemonic_roundtrip(b, num_bits):
    return mnemonic_to_bytes(bytes_to_mnemonic(b, num_bits))


def sentence(idx, prefix_mask=0):
    """the sentence made of the real words with the given indices; bit i of prefix_mask set = word i is
    abbreviated to its first four letters"""
    return " ".join(BIP39[i][:4] if (prefix_mask >> k) & 1 else BIP39[i] for k, i in enumerate(idx))


def decode_indices(idx, prefix_mask=0):
    return mnemonic_to_bytes(sentence(idx, prefix_mask))


def master_from_indices(idx, password, prefix_mask=0):
    """(seed-derived master secret, chain code, depth, xprv) of HDPrivateKey.from_mnemonic"""
    k = HDPrivateKey.from_mnemonic(sentence(idx, prefix_mask), password=password)
    return (k.private_key.secret, k.chain_code, k.depth, k.xprv())
