"""API-level harnesses: the call a user of the library writes (so descriptor/binding errors such
as a missing @classmethod are part of what is verified).  Each harness is a few lines of
straight-line Python over the real code and is part of the trusted base."""
from buidl.network import PongMessage, PingMessage, VersionMessage, GetDataMessage


def pong_parse(s):
    return PongMessage.parse(s)


def ping_parse(s):
    return PingMessage.parse(s)


def version_default(timestamp):
    """VersionMessage built with its default nonce, then serialised"""
    return VersionMessage(timestamp=timestamp).serialize()


def getdata_build(n, t0, h0, t1, h1):
    """the API a user writes: add_data() per entry (the first n of the two given), then serialize()"""
    msg = GetDataMessage()
    if n >= 1:
        msg.add_data(t0, h0)
    if n >= 2:
        msg.add_data(t1, h1)
    return msg.serialize()
