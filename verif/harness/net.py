"""API-level harnesses: the call a user of the library writes (so descriptor/binding errors such
as a missing @classmethod are part of what is verified).  Each harness is a few lines of
straight-line Python over the real code and is part of the trusted base."""
from buidl.network import PongMessage, PingMessage, VersionMessage


def pong_parse(s):
    return PongMessage.parse(s)


def ping_parse(s):
    return PingMessage.parse(s)


def version_default(timestamp):
    """VersionMessage built with its default nonce, then serialised"""
    return VersionMessage(timestamp=timestamp).serialize()
