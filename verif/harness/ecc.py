"""API-level compositions over the real ecc code"""
from buidl.pecc import PrivateKey, S256Point, Signature, SchnorrSignature, G, N


def sign_then_verify(d, z):
    pk = PrivateKey(d)
    sig = pk.sign(z)
    return pk.point.verify(z, sig)


def sign_rs(d, z):
    sig = PrivateKey(d).sign(z)
    return sig.r, sig.s


def verify_rs(pub, z, r, s):
    return pub.verify(z, Signature(r, s))


def der_roundtrip(r, s):
    sig = Signature.parse(Signature(r, s).der())
    return sig.r, sig.s


def der_of(r, s):
    return Signature(r, s).der()
