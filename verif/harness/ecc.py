"""API-level compositions over the real ecc code"""
from buidl.pecc import PrivateKey, S256Point, Signature, SchnorrSignature, G, N


def sign_then_verify(d, z):
    pk = PrivateKey(d)
    sig = pk.sign(z)
    return pk.point.verify(z, sig)


def sign_rs(d, z):
    sig = PrivateKey(d).sign(z)
    return sig.r, sig.s


def verify_rs(pub, z, r, s):
    return pub.verify(z, Signature(r, s))


def der_roundtrip(r, s):
    sig = Signature.parse(Signature(r, s).der())
    return sig.r, sig.s


def der_of(r, s):
    return Signature(r, s).der()


def schnorr_sign_bytes(d, msg, aux):
    return PrivateKey(d).sign_schnorr(msg, aux).serialize()


def schnorr_verify_bytes(pub, msg, sig):
    """verification as a user receives it: 64 signature bytes"""
    return pub.verify_schnorr(msg, SchnorrSignature.parse(sig))


def schnorr_sign_then_verify(d, msg, aux):
    pk = PrivateKey(d)
    sig = pk.sign_schnorr(msg, aux)
    return pk.point.verify_schnorr(msg, sig)


def schnorr_sig_init(r_point, s):
    return SchnorrSignature(r_point, s).s


def tagged(tag, msg):
    from buidl.hash import hash_challenge  # noqa: the active (pure-python) back end
    from buidl.phash import tagged_hash
    return tagged_hash(tag, msg)
