"""API-level compositions over the real ecc code"""
from buidl.pecc import PrivateKey, S256Point, Signature, SchnorrSignature, G, N


def sign_then_verify(d, z):
    pk = PrivateKey(d)
    sig = pk.sign(z)
    return pk.point.verify(z, sig)


def sign_rs(d, z):
    sig = PrivateKey(d).sign(z)
    return sig.r, sig.s


def verify_rs(pub, z, r, s):
    return pub.verify(z, Signature(r, s))


def der_roundtrip(r, s):
    sig = Signature.parse(Signature(r, s).der())
    return sig.r, sig.s


def der_of(r, s):
    return Signature(r, s).der()


def schnorr_sign_bytes(d, msg, aux):
    return PrivateKey(d).sign_schnorr(msg, aux).serialize()


def schnorr_verify_bytes(pub, msg, sig):
    """verification as a user receives it: 64 signature bytes"""
    return pub.verify_schnorr(msg, SchnorrSignature.parse(sig))


def schnorr_verify_xonly(pk32, msg, sig):
    """verification under a key RECEIVED as 32 bytes (as tapscript OP_CHECKSIG and taproot key-path spending receive it):
    the bytes are lifted by S256Point.parse_xonly, then verify_schnorr; any exception counts as 'invalid'"""
    return S256Point.parse_xonly(pk32).verify_schnorr(msg, SchnorrSignature.parse(sig))


def schnorr_sign_then_verify(d, msg, aux):
    pk = PrivateKey(d)
    sig = pk.sign_schnorr(msg, aux)
    return pk.point.verify_schnorr(msg, sig)


def schnorr_verify_history(d, msg, aux, flips):
    """history on ONE public-key object: verify the honest signature, then a series of altered signatures (bit `f` of the
    64 bytes flipped, for each f in flips) and an altered message, then the honest signature again
    -> (first verdict, [verdicts of the altered ones], last verdict, key unchanged)"""
    pk = PrivateKey(d)
    sig = pk.sign_schnorr(msg, aux).serialize()
    pub = pk.point
    x0, y0 = pub.x.num, pub.y.num
    first = pub.verify_schnorr(msg, SchnorrSignature.parse(sig))
    mids = []
    for f in flips:
        bad = bytearray(sig)
        bad[f // 8] ^= 1 << (f % 8)
        try:
            mids.append(pub.verify_schnorr(msg, SchnorrSignature.parse(bytes(bad))))
        except ValueError:
            mids.append(False)          # an r or s that cannot be parsed is a rejection
    mids.append(pub.verify_schnorr(bytes([msg[0] ^ 1]) + msg[1:], SchnorrSignature.parse(sig)))
    last = pub.verify_schnorr(msg, SchnorrSignature.parse(sig))
    return first, mids, last, (pub.x.num, pub.y.num) == (x0, y0)


def schnorr_sig_init(r_point, s):
    return SchnorrSignature(r_point, s).s


def tagged(tag, msg):
    from buidl.hash import hash_challenge  # noqa: the active (pure-python) back end
    from buidl.phash import tagged_hash
    return tagged_hash(tag, msg)


# ---------------------------------------------------------------------------- C03
from buidl.pecc import FieldElement, Point, S256Field  # noqa: E402


def fe_op(op, a, b, p):
    x, y = FieldElement(a, p), FieldElement(b, p)
    if op == "add":
        r = x + y
    elif op == "sub":
        r = x - y
    elif op == "mul":
        r = x * y
    else:
        r = b * x          # __rmul__ with an integer coefficient
    return r.num, r.prime


def fe_new(a, p):
    return FieldElement(a, p).num


def s256_div(a, b):
    return (S256Field(a) / S256Field(b)).num


def parse_then_sec(b):
    p = S256Point.parse(b)
    return p.sec(len(b) == 33)


def parse_coords(b):
    """coordinates of the point a SEC string decodes to (a rejected string raises)"""
    p = S256Point.parse(b)
    if p.x is None:
        # the decoder handed back the point at infinity: no SEC string encodes it, so this is an ACCEPTED non-point
        # (reported as the impossible coordinates (-1, -1), which every clause about decoded coordinates refutes)
        return -1, -1
    return p.x.num, p.y.num


def sec_then_parse(pub, compressed):
    q = S256Point.parse(pub.sec(compressed))
    return q.x.num, q.y.num


def xonly_then_parse(pub):
    q = S256Point.parse(pub.xonly())
    return q.x.num, q.y.num


def der_roundtrip_bytes(rb, sb):
    """r and s given by their 32 big-endian bytes (every value below 2^256): encode, decode"""
    r, s = int.from_bytes(rb, "big"), int.from_bytes(sb, "big")
    sig = Signature.parse(Signature(r, s).der())
    return sig.r, sig.s


def der_of_bytes(rb, sb):
    return Signature(int.from_bytes(rb, "big"), int.from_bytes(sb, "big")).der()
