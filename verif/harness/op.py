"""C07 harnesses: each opcode function of buidl.op called the way Script.evaluate calls it, on a stack
built from separately named elements (so that the elements can be symbolic while the list structure is
concrete).  `depth` selects how many of e0..e6 are on the stack: stack = [e0..e6][7 - depth:], so e6 is
always the top.  The harness returns (ok, stack_after, altstack_after).  Straight-line code over the real
functions; part of the trusted base."""
from buidl import op
from buidl.script import Script
from buidl.timelock import Locktime, Sequence
from buidl.tx import Tx, TxIn

def run_op_nop(depth, e0, e1, e2, e3, e4, e5, e6):
    stack = [e0, e1, e2, e3, e4, e5, e6][7 - depth:]
    ok = op.op_nop(stack)
    return ok, stack, []


def run_op_verify(depth, e0, e1, e2, e3, e4, e5, e6):
    stack = [e0, e1, e2, e3, e4, e5, e6][7 - depth:]
    ok = op.op_verify(stack)
    return ok, stack, []


def run_op_return(depth, e0, e1, e2, e3, e4, e5, e6):
    stack = [e0, e1, e2, e3, e4, e5, e6][7 - depth:]
    ok = op.op_return(stack)
    return ok, stack, []


def run_op_2drop(depth, e0, e1, e2, e3, e4, e5, e6):
    stack = [e0, e1, e2, e3, e4, e5, e6][7 - depth:]
    ok = op.op_2drop(stack)
    return ok, stack, []


def run_op_2dup(depth, e0, e1, e2, e3, e4, e5, e6):
    stack = [e0, e1, e2, e3, e4, e5, e6][7 - depth:]
    ok = op.op_2dup(stack)
    return ok, stack, []


def run_op_3dup(depth, e0, e1, e2, e3, e4, e5, e6):
    stack = [e0, e1, e2, e3, e4, e5, e6][7 - depth:]
    ok = op.op_3dup(stack)
    return ok, stack, []


def run_op_2over(depth, e0, e1, e2, e3, e4, e5, e6):
    stack = [e0, e1, e2, e3, e4, e5, e6][7 - depth:]
    ok = op.op_2over(stack)
    return ok, stack, []


def run_op_2rot(depth, e0, e1, e2, e3, e4, e5, e6):
    stack = [e0, e1, e2, e3, e4, e5, e6][7 - depth:]
    ok = op.op_2rot(stack)
    return ok, stack, []


def run_op_2swap(depth, e0, e1, e2, e3, e4, e5, e6):
    stack = [e0, e1, e2, e3, e4, e5, e6][7 - depth:]
    ok = op.op_2swap(stack)
    return ok, stack, []


def run_op_ifdup(depth, e0, e1, e2, e3, e4, e5, e6):
    stack = [e0, e1, e2, e3, e4, e5, e6][7 - depth:]
    ok = op.op_ifdup(stack)
    return ok, stack, []


def run_op_depth(depth, e0, e1, e2, e3, e4, e5, e6):
    stack = [e0, e1, e2, e3, e4, e5, e6][7 - depth:]
    ok = op.op_depth(stack)
    return ok, stack, []


def run_op_drop(depth, e0, e1, e2, e3, e4, e5, e6):
    stack = [e0, e1, e2, e3, e4, e5, e6][7 - depth:]
    ok = op.op_drop(stack)
    return ok, stack, []


def run_op_dup(depth, e0, e1, e2, e3, e4, e5, e6):
    stack = [e0, e1, e2, e3, e4, e5, e6][7 - depth:]
    ok = op.op_dup(stack)
    return ok, stack, []


def run_op_nip(depth, e0, e1, e2, e3, e4, e5, e6):
    stack = [e0, e1, e2, e3, e4, e5, e6][7 - depth:]
    ok = op.op_nip(stack)
    return ok, stack, []


def run_op_over(depth, e0, e1, e2, e3, e4, e5, e6):
    stack = [e0, e1, e2, e3, e4, e5, e6][7 - depth:]
    ok = op.op_over(stack)
    return ok, stack, []


def run_op_pick(depth, e0, e1, e2, e3, e4, e5, e6):
    stack = [e0, e1, e2, e3, e4, e5, e6][7 - depth:]
    ok = op.op_pick(stack)
    return ok, stack, []


def run_op_roll(depth, e0, e1, e2, e3, e4, e5, e6):
    stack = [e0, e1, e2, e3, e4, e5, e6][7 - depth:]
    ok = op.op_roll(stack)
    return ok, stack, []


def run_op_rot(depth, e0, e1, e2, e3, e4, e5, e6):
    stack = [e0, e1, e2, e3, e4, e5, e6][7 - depth:]
    ok = op.op_rot(stack)
    return ok, stack, []


def run_op_swap(depth, e0, e1, e2, e3, e4, e5, e6):
    stack = [e0, e1, e2, e3, e4, e5, e6][7 - depth:]
    ok = op.op_swap(stack)
    return ok, stack, []


def run_op_tuck(depth, e0, e1, e2, e3, e4, e5, e6):
    stack = [e0, e1, e2, e3, e4, e5, e6][7 - depth:]
    ok = op.op_tuck(stack)
    return ok, stack, []


def run_op_size(depth, e0, e1, e2, e3, e4, e5, e6):
    stack = [e0, e1, e2, e3, e4, e5, e6][7 - depth:]
    ok = op.op_size(stack)
    return ok, stack, []


def run_op_equal(depth, e0, e1, e2, e3, e4, e5, e6):
    stack = [e0, e1, e2, e3, e4, e5, e6][7 - depth:]
    ok = op.op_equal(stack)
    return ok, stack, []


def run_op_equalverify(depth, e0, e1, e2, e3, e4, e5, e6):
    stack = [e0, e1, e2, e3, e4, e5, e6][7 - depth:]
    ok = op.op_equalverify(stack)
    return ok, stack, []


def run_op_1add(depth, e0, e1, e2, e3, e4, e5, e6):
    stack = [e0, e1, e2, e3, e4, e5, e6][7 - depth:]
    ok = op.op_1add(stack)
    return ok, stack, []


def run_op_1sub(depth, e0, e1, e2, e3, e4, e5, e6):
    stack = [e0, e1, e2, e3, e4, e5, e6][7 - depth:]
    ok = op.op_1sub(stack)
    return ok, stack, []


def run_op_negate(depth, e0, e1, e2, e3, e4, e5, e6):
    stack = [e0, e1, e2, e3, e4, e5, e6][7 - depth:]
    ok = op.op_negate(stack)
    return ok, stack, []


def run_op_abs(depth, e0, e1, e2, e3, e4, e5, e6):
    stack = [e0, e1, e2, e3, e4, e5, e6][7 - depth:]
    ok = op.op_abs(stack)
    return ok, stack, []


def run_op_not(depth, e0, e1, e2, e3, e4, e5, e6):
    stack = [e0, e1, e2, e3, e4, e5, e6][7 - depth:]
    ok = op.op_not(stack)
    return ok, stack, []


def run_op_0notequal(depth, e0, e1, e2, e3, e4, e5, e6):
    stack = [e0, e1, e2, e3, e4, e5, e6][7 - depth:]
    ok = op.op_0notequal(stack)
    return ok, stack, []


def run_op_add(depth, e0, e1, e2, e3, e4, e5, e6):
    stack = [e0, e1, e2, e3, e4, e5, e6][7 - depth:]
    ok = op.op_add(stack)
    return ok, stack, []


def run_op_sub(depth, e0, e1, e2, e3, e4, e5, e6):
    stack = [e0, e1, e2, e3, e4, e5, e6][7 - depth:]
    ok = op.op_sub(stack)
    return ok, stack, []


def run_op_booland(depth, e0, e1, e2, e3, e4, e5, e6):
    stack = [e0, e1, e2, e3, e4, e5, e6][7 - depth:]
    ok = op.op_booland(stack)
    return ok, stack, []


def run_op_boolor(depth, e0, e1, e2, e3, e4, e5, e6):
    stack = [e0, e1, e2, e3, e4, e5, e6][7 - depth:]
    ok = op.op_boolor(stack)
    return ok, stack, []


def run_op_numequal(depth, e0, e1, e2, e3, e4, e5, e6):
    stack = [e0, e1, e2, e3, e4, e5, e6][7 - depth:]
    ok = op.op_numequal(stack)
    return ok, stack, []


def run_op_numequalverify(depth, e0, e1, e2, e3, e4, e5, e6):
    stack = [e0, e1, e2, e3, e4, e5, e6][7 - depth:]
    ok = op.op_numequalverify(stack)
    return ok, stack, []


def run_op_numnotequal(depth, e0, e1, e2, e3, e4, e5, e6):
    stack = [e0, e1, e2, e3, e4, e5, e6][7 - depth:]
    ok = op.op_numnotequal(stack)
    return ok, stack, []


def run_op_lessthan(depth, e0, e1, e2, e3, e4, e5, e6):
    stack = [e0, e1, e2, e3, e4, e5, e6][7 - depth:]
    ok = op.op_lessthan(stack)
    return ok, stack, []


def run_op_greaterthan(depth, e0, e1, e2, e3, e4, e5, e6):
    stack = [e0, e1, e2, e3, e4, e5, e6][7 - depth:]
    ok = op.op_greaterthan(stack)
    return ok, stack, []


def run_op_lessthanorequal(depth, e0, e1, e2, e3, e4, e5, e6):
    stack = [e0, e1, e2, e3, e4, e5, e6][7 - depth:]
    ok = op.op_lessthanorequal(stack)
    return ok, stack, []


def run_op_greaterthanorequal(depth, e0, e1, e2, e3, e4, e5, e6):
    stack = [e0, e1, e2, e3, e4, e5, e6][7 - depth:]
    ok = op.op_greaterthanorequal(stack)
    return ok, stack, []


def run_op_min(depth, e0, e1, e2, e3, e4, e5, e6):
    stack = [e0, e1, e2, e3, e4, e5, e6][7 - depth:]
    ok = op.op_min(stack)
    return ok, stack, []


def run_op_max(depth, e0, e1, e2, e3, e4, e5, e6):
    stack = [e0, e1, e2, e3, e4, e5, e6][7 - depth:]
    ok = op.op_max(stack)
    return ok, stack, []


def run_op_within(depth, e0, e1, e2, e3, e4, e5, e6):
    stack = [e0, e1, e2, e3, e4, e5, e6][7 - depth:]
    ok = op.op_within(stack)
    return ok, stack, []


def run_op_ripemd160(depth, e0, e1, e2, e3, e4, e5, e6):
    stack = [e0, e1, e2, e3, e4, e5, e6][7 - depth:]
    ok = op.op_ripemd160(stack)
    return ok, stack, []


def run_op_sha1(depth, e0, e1, e2, e3, e4, e5, e6):
    stack = [e0, e1, e2, e3, e4, e5, e6][7 - depth:]
    ok = op.op_sha1(stack)
    return ok, stack, []


def run_op_sha256(depth, e0, e1, e2, e3, e4, e5, e6):
    stack = [e0, e1, e2, e3, e4, e5, e6][7 - depth:]
    ok = op.op_sha256(stack)
    return ok, stack, []


def run_op_hash160(depth, e0, e1, e2, e3, e4, e5, e6):
    stack = [e0, e1, e2, e3, e4, e5, e6][7 - depth:]
    ok = op.op_hash160(stack)
    return ok, stack, []


def run_op_hash256(depth, e0, e1, e2, e3, e4, e5, e6):
    stack = [e0, e1, e2, e3, e4, e5, e6][7 - depth:]
    ok = op.op_hash256(stack)
    return ok, stack, []


def run_op_0(depth, e0, e1, e2, e3, e4, e5, e6):
    stack = [e0, e1, e2, e3, e4, e5, e6][7 - depth:]
    ok = op.op_0(stack)
    return ok, stack, []


def run_op_1negate(depth, e0, e1, e2, e3, e4, e5, e6):
    stack = [e0, e1, e2, e3, e4, e5, e6][7 - depth:]
    ok = op.op_1negate(stack)
    return ok, stack, []


def run_op_1(depth, e0, e1, e2, e3, e4, e5, e6):
    stack = [e0, e1, e2, e3, e4, e5, e6][7 - depth:]
    ok = op.op_1(stack)
    return ok, stack, []


def run_op_2(depth, e0, e1, e2, e3, e4, e5, e6):
    stack = [e0, e1, e2, e3, e4, e5, e6][7 - depth:]
    ok = op.op_2(stack)
    return ok, stack, []


def run_op_3(depth, e0, e1, e2, e3, e4, e5, e6):
    stack = [e0, e1, e2, e3, e4, e5, e6][7 - depth:]
    ok = op.op_3(stack)
    return ok, stack, []


def run_op_4(depth, e0, e1, e2, e3, e4, e5, e6):
    stack = [e0, e1, e2, e3, e4, e5, e6][7 - depth:]
    ok = op.op_4(stack)
    return ok, stack, []


def run_op_5(depth, e0, e1, e2, e3, e4, e5, e6):
    stack = [e0, e1, e2, e3, e4, e5, e6][7 - depth:]
    ok = op.op_5(stack)
    return ok, stack, []


def run_op_6(depth, e0, e1, e2, e3, e4, e5, e6):
    stack = [e0, e1, e2, e3, e4, e5, e6][7 - depth:]
    ok = op.op_6(stack)
    return ok, stack, []


def run_op_7(depth, e0, e1, e2, e3, e4, e5, e6):
    stack = [e0, e1, e2, e3, e4, e5, e6][7 - depth:]
    ok = op.op_7(stack)
    return ok, stack, []


def run_op_8(depth, e0, e1, e2, e3, e4, e5, e6):
    stack = [e0, e1, e2, e3, e4, e5, e6][7 - depth:]
    ok = op.op_8(stack)
    return ok, stack, []


def run_op_9(depth, e0, e1, e2, e3, e4, e5, e6):
    stack = [e0, e1, e2, e3, e4, e5, e6][7 - depth:]
    ok = op.op_9(stack)
    return ok, stack, []


def run_op_10(depth, e0, e1, e2, e3, e4, e5, e6):
    stack = [e0, e1, e2, e3, e4, e5, e6][7 - depth:]
    ok = op.op_10(stack)
    return ok, stack, []


def run_op_11(depth, e0, e1, e2, e3, e4, e5, e6):
    stack = [e0, e1, e2, e3, e4, e5, e6][7 - depth:]
    ok = op.op_11(stack)
    return ok, stack, []


def run_op_12(depth, e0, e1, e2, e3, e4, e5, e6):
    stack = [e0, e1, e2, e3, e4, e5, e6][7 - depth:]
    ok = op.op_12(stack)
    return ok, stack, []


def run_op_13(depth, e0, e1, e2, e3, e4, e5, e6):
    stack = [e0, e1, e2, e3, e4, e5, e6][7 - depth:]
    ok = op.op_13(stack)
    return ok, stack, []


def run_op_14(depth, e0, e1, e2, e3, e4, e5, e6):
    stack = [e0, e1, e2, e3, e4, e5, e6][7 - depth:]
    ok = op.op_14(stack)
    return ok, stack, []


def run_op_15(depth, e0, e1, e2, e3, e4, e5, e6):
    stack = [e0, e1, e2, e3, e4, e5, e6][7 - depth:]
    ok = op.op_15(stack)
    return ok, stack, []


def run_op_16(depth, e0, e1, e2, e3, e4, e5, e6):
    stack = [e0, e1, e2, e3, e4, e5, e6][7 - depth:]
    ok = op.op_16(stack)
    return ok, stack, []


def run_op_toaltstack(depth, e0, e1, e2, e3, e4, e5, e6, adepth, a0, a1):
    stack = [e0, e1, e2, e3, e4, e5, e6][7 - depth:]
    alt = [a0, a1][2 - adepth:]
    ok = op.op_toaltstack(stack, alt)
    return ok, stack, alt


def run_op_fromaltstack(depth, e0, e1, e2, e3, e4, e5, e6, adepth, a0, a1):
    stack = [e0, e1, e2, e3, e4, e5, e6][7 - depth:]
    alt = [a0, a1][2 - adepth:]
    ok = op.op_fromaltstack(stack, alt)
    return ok, stack, alt


# ---------------------------------------------------------------------------- conditionals
def run_op_if(depth, e6, items):
    """items: the commands after the OP_IF (a fresh copy is spliced in place by op_if)"""
    stack = [e6][1 - depth:]
    items = list(items)
    ok = op.op_if(stack, items)
    return ok, stack, items


def run_op_notif(depth, e6, items):
    stack = [e6][1 - depth:]
    items = list(items)
    ok = op.op_notif(stack, items)
    return ok, stack, items


# ---------------------------------------------------------------------------- number codec
def num_roundtrip(n):
    return op.decode_num(op.encode_num(n))


# ---------------------------------------------------------------------------- timelocks
def make_tx(version, locktime, sequence):
    """one-input transaction context built through the public constructors"""
    return Tx(version, [TxIn(bytes(32), 0, None, sequence)], [], locktime)


def run_cltv(depth, e6, version, locktime, sequence):
    stack = [e6][1 - depth:]
    ok = op.op_checklocktimeverify(stack, make_tx(version, locktime, sequence), 0)
    return ok, stack, []


def run_csv(depth, e6, version, locktime, sequence):
    stack = [e6][1 - depth:]
    ok = op.op_checksequenceverify(stack, make_tx(version, locktime, sequence), 0)
    return ok, stack, []


def locktime_new(n):
    return int(Locktime(n))


def locktime_is_comparable(a, b):
    return Locktime(a).is_comparable(Locktime(b))


def locktime_lt(a, b):
    return Locktime(a) < Locktime(b)


def locktime_kind(a):
    """(block_height(), mtp())"""
    return Locktime(a).block_height(), Locktime(a).mtp()


def sequence_new(n):
    return int(Sequence(n))


def seq_flags(a):
    s = Sequence(a)
    return bool(s.is_relative()), bool(s.is_relative_time()), bool(s.is_relative_block()), bool(s.is_max()), bool(s.is_rbf_able())


def seq_amounts(a):
    s = Sequence(a)
    return s.relative_blocks(), s.relative_time()


def seq_is_comparable(a, b):
    return bool(Sequence(a).is_comparable(Sequence(b)))


def seq_lt(a, b):
    return Sequence(a) < Sequence(b)


# ---------------------------------------------------------------------------- Script.evaluate
class DummyIn:
    """input without witness data (what evaluate looks at before the first command)"""

    def __init__(self, sequence):
        self.witness = None
        self.sequence = sequence


class DummyTx:
    def __init__(self, version, locktime, sequence):
        self.version = version
        self.locktime = locktime
        self.tx_ins = [DummyIn(sequence)]


def eval_push1(x):
    """the script `<x>`: accepted iff x is a true value"""
    return Script([x]).evaluate(DummyTx(1, 0, 0), 0)


def eval_push2(x, y):
    return Script([x, y]).evaluate(DummyTx(1, 0, 0), 0)


def eval_push_op(x, opcode):
    """`<x> OPCODE`"""
    return Script([x, opcode]).evaluate(DummyTx(1, 0, 0), 0)


def eval_empty():
    return Script([]).evaluate(DummyTx(1, 0, 0), 0)


def eval_program(cmds, version, locktime, sequence):
    """whole-program run used by the bounded companion: a real Tx context, exceptions count as reject
    (reported separately by the caller)"""
    return Script(list(cmds)).evaluate(make_tx(version, locktime, sequence), 0)
