"""API-level compositions over the real BIP32 code (buidl/hd.py, buidl/blinding.py) for property C08.
Nodes are built with the real constructors from plain fields, so that contracts can quantify over
every secret / point, chain code, depth, parent fingerprint and child number."""
from io import BytesIO

from buidl.blinding import blind_xpub, combine_bip32_paths
from buidl.hd import HDPrivateKey, HDPublicKey, is_valid_bip32_path, ltrim_path
from buidl.pecc import PrivateKey


def mk_priv(k, c, depth, fp, num, network="mainnet", priv_version=None, pub_version=None):
    return HDPrivateKey(PrivateKey(k), c, depth, fp, num, network, priv_version, pub_version)


def mk_pub(K, c, depth, fp, num, network="mainnet", pub_version=None):
    return HDPublicKey(K, c, depth, fp, num, network, pub_version)


def priv_fields(n):
    """what a private node is: secret, chain code, depth, parent fingerprint, child number and the
    public twin it carries (point, chain code, depth, parent fingerprint, child number)"""
    p = n.pub
    return (n.private_key.secret, n.chain_code, n.depth, n.parent_fingerprint, n.child_number,
            p.point, p.chain_code, p.depth, p.parent_fingerprint, p.child_number)


def pub_fields(p):
    return (p.point, p.chain_code, p.depth, p.parent_fingerprint, p.child_number)


# ---------------------------------------------------------------------------- derivation
def from_seed(seed, network):
    n = HDPrivateKey.from_seed(seed, network=network)
    return priv_fields(n) + (n.network, n.priv_version, n.pub.pub_version)


def priv_child(k, c, depth, fp, num, i):
    return priv_fields(mk_priv(k, c, depth, fp, num).child(i))


def pub_child(K, c, depth, fp, num, i):
    return pub_fields(mk_pub(K, c, depth, fp, num).child(i))


def child_keeps_versions(k, c, i, network, priv_version, pub_version):
    """network and both version fields are inherited by private and public children"""
    n = mk_priv(k, c, 0, b"\x00\x00\x00\x00", 0, network, priv_version, pub_version)
    a = n.child(i)
    out = (a.network, a.priv_version, a.pub.pub_version, a.pub.network, a.private_key.network)
    if i < 0x80000000:
        b = n.pub.child(i)
        out = out + (b.network, b.pub_version)
    return out


def consistency(k, c, depth, fp, num, i):
    """N(CKDpriv(parent, i)) against CKDpub(N(parent), i) on the real objects"""
    n = mk_priv(k, c, depth, fp, num)
    a = n.child(i).pub
    b = n.pub.child(i)
    return pub_fields(a) + pub_fields(b) + (a.sec() == b.sec(), a.fingerprint() == b.fingerprint(),
                                            a.network == b.network and a.pub_version == b.pub_version)


def priv_child2(k, c, depth, fp, num, i, j):
    return priv_fields(mk_priv(k, c, depth, fp, num).child(i).child(j))


def pub_child2(K, c, depth, fp, num, i, j):
    return pub_fields(mk_pub(K, c, depth, fp, num).child(i).child(j))


def consistency2(k, c, depth, fp, num, i, j):
    n = mk_priv(k, c, depth, fp, num)
    a = n.child(i).child(j).pub
    b = n.pub.child(i).child(j)
    return pub_fields(a) + pub_fields(b)


def fingerprint_pub(K):
    return mk_pub(K, bytes(32), 0, bytes(4), 0).fingerprint()


def fingerprint_priv(k):
    return mk_priv(k, bytes(32), 0, bytes(4), 0).fingerprint()


# ---------------------------------------------------------------------------- 78-byte codec
def priv_raw(k, c, depth, fp, num, version):
    return mk_priv(k, c, depth, fp, num).raw_serialize(version)


def pub_raw(K, c, depth, fp, num, network, pub_version):
    """raw_serialize() (memoised; always the plain xpub/tpub version of the network) twice, and
    _serialize with the node's own version"""
    p = mk_pub(K, c, depth, fp, num, network, pub_version)
    first = p.raw_serialize()
    return (first, p.raw_serialize(), p._serialize(p.pub_version))


def pub_child_after_serialize(K, c, depth, fp, num, i):
    """history: the parent is serialised first (its memo HDPublicKey._raw is filled), then the child is derived;
    the child's serialisation must be the child's own 78 bytes"""
    p = mk_pub(K, c, depth, fp, num)
    p.raw_serialize()
    ch = p.child(i)
    return (ch.raw_serialize(),) + pub_fields(ch)


def priv_child_after_serialize(k, c, depth, fp, num, i):
    """the same through a private node: parent and its public twin serialised, then child(i)"""
    n = mk_priv(k, c, depth, fp, num)
    n.pub.raw_serialize()
    ch = n.child(i)
    return (ch.pub.raw_serialize(),) + priv_fields(ch)


def priv_raw_parse(raw):
    n = HDPrivateKey.raw_parse(BytesIO(raw))
    return (n.priv_version, n.depth, n.parent_fingerprint, n.child_number, n.chain_code,
            n.private_key.secret, n.network, n.pub.pub_version)


def pub_raw_parse(raw):
    p = HDPublicKey.raw_parse(BytesIO(raw))
    return (p.pub_version, p.depth, p.parent_fingerprint, p.child_number, p.chain_code, p.point, p.network)


def priv_parse_parts(version, rest):
    """raw_parse of the 78 bytes version || rest (4 + 74)"""
    return priv_raw_parse(version + rest)


def pub_parse_parts(version, rest):
    return pub_raw_parse(version + rest)


def pub_parse_point(version, meta, K):
    """raw_parse of version || 41 bytes of depth/fingerprint/child number/chain code || the SEC form of a point"""
    return pub_raw_parse(version + meta + K.sec())


def priv_raw_roundtrip(k, c, depth, fp, num, version):
    raw = mk_priv(k, c, depth, fp, num).raw_serialize(version)
    n = HDPrivateKey.raw_parse(BytesIO(raw))
    return (n.raw_serialize(n.priv_version) == raw,) + priv_fields(n) + (n.priv_version, n.network)


def pub_raw_roundtrip(K, c, depth, fp, num, version):
    raw = mk_pub(K, c, depth, fp, num)._serialize(version)
    p = HDPublicKey.raw_parse(BytesIO(raw))
    return (p._serialize(p.pub_version) == raw,) + pub_fields(p) + (p.pub_version, p.network)


# ---------------------------------------------------------------------------- text level (bounded companion)
def xprv_roundtrip(k, c, depth, fp, num, network, priv_version, pub_version):
    """xprv()/xpub() strings of a node with the given SLIP-132 versions, parsed back"""
    n = mk_priv(k, c, depth, fp, num, network, priv_version, pub_version)
    sprv, spub = n.xprv(), n.xpub()
    a = HDPrivateKey.parse(sprv)
    b = HDPublicKey.parse(spub)
    return {"xprv": sprv, "xpub": spub, "xprv_again": a.xprv(), "xpub_again": b.xpub(),
            "a": priv_fields(a), "b": pub_fields(b), "a_network": a.network, "b_network": b.network,
            "a_priv_version": a.priv_version, "b_pub_version": b.pub_version,
            "a_xpub": a.xpub(), "a_pub_version": a.pub.pub_version}


def parse_text(s):
    """import of an arbitrary string as an extended key: the payload it stands for when re-exported"""
    try:
        n = HDPrivateKey.parse(s)
        return ("prv", n.raw_serialize(n.priv_version))
    except Exception:
        p = HDPublicKey.parse(s)
        return ("pub", p._serialize(p.pub_version))


# ---------------------------------------------------------------------------- paths
def traverse_priv(seed, path):
    return priv_fields(HDPrivateKey.from_seed(seed).traverse(path))


def traverse_pub(seed, path):
    return pub_fields(HDPrivateKey.from_seed(seed).pub.traverse(path))


def traverse_split(seed, a, b, public):
    """traverse(a + b) against traverse(a).traverse('m' + b), b = '' or '/i/j...'"""
    root = HDPrivateKey.from_seed(seed)
    if public:
        root = root.pub
    whole = root.traverse(a + b)
    parts = root.traverse(a).traverse("m" + b)
    if public:
        return pub_fields(whole) + pub_fields(parts)
    return priv_fields(whole) + priv_fields(parts)


def blind(seed, a, b, version):
    """blind_xpub on the xpub found at path a of the wallet of `seed`; next to it the key found at the
    combined path from the root"""
    root = HDPrivateKey.from_seed(seed)
    start = root.traverse(a).xpub(version)
    out = blind_xpub(start, a, b)
    full = out["blinded_full_path"]
    return (out["blinded_child_xpub"], full, root.traverse(full).xpub(version), combine_bip32_paths(a, b))
