"""API-level harnesses for C18 (straight-line code over the real functions; part of the trusted base)."""
from io import BytesIO

from buidl.bloomfilter import BloomFilter
from buidl.compactfilter import (
    CFHeadersMessage,
    CFilterMessage,
    CompactFilter,
    decode_gcs,
    decode_golomb,
    encode_gcs,
    encode_golomb,
    hashed_items,
    pack_bits,
    serialize_gcs,
    unpack_bits,
)
from buidl.helper import murmur3
from buidl.siphash import SipHash_2_4


class _Raw:
    """stand-in for a Script: CompactFilter.__contains__ only calls raw_serialize()"""

    def __init__(self, raw):
        self.raw = raw

    def raw_serialize(self):
        return self.raw


# ---- SipHash
def siphash(key, data):
    return SipHash_2_4(key, data).hash()


def siphash_split(key, a, b):
    """incremental interface: the hash of a || b fed in two pieces"""
    return SipHash_2_4(key).update(a).update(b).hash()


def siphash_digest(key, data):
    return SipHash_2_4(key, data).digest()


# ---- MurmurHash3 (fixed lengths for the bit-vector mode: one function per tail shape)
def murmur3_seeded(data, seed):
    return murmur3(data, seed=seed)


# ---- Golomb-Rice
def golomb_round_trip(x, p):
    bits = encode_golomb(x, p)
    n = len(bits)
    rest = list(bits) + [1, 0, 1]            # trailing bits must be left alone
    return decode_golomb(rest, p), n, rest


def golomb_packed(x, p):
    return pack_bits(encode_golomb(x, p))


def golomb_unpacked(x, p):
    """decode from the packed byte string, as decode_gcs does"""
    return decode_golomb(unpack_bits(pack_bits(encode_golomb(x, p))), p)


def pack_unpack(data):
    return pack_bits(unpack_bits(data))


def unpack_pack8(b0, b1, b2, b3, b4, b5, b6, b7):
    return unpack_bits(pack_bits([b0, b1, b2, b3, b4, b5, b6, b7]))


def pack_bits5(b0, b1, b2, b3, b4):
    """5 bits: padded with three zero bits on the right"""
    return pack_bits([b0, b1, b2, b3, b4])


# ---- GCS
def gcs_round_trip(key, items):
    data = encode_gcs(key, list(items))
    return decode_gcs(key, data), data


def serialize_gcs3(a, b, c):
    """three ascending values"""
    return serialize_gcs([a, b, c])


def cf_members(key, items, queries):
    """which of `queries` the filter built from `items` reports as present (CompactFilter.parse path)"""
    cf = CompactFilter.parse(key, encode_gcs(key, list(items)))
    return [(_Raw(q) in cf) for q in queries]


def cfilter_msg_members(block_hash, items, queries):
    """the same through the network message: key = first 16 bytes of the little-endian block hash"""
    key = block_hash[::-1][:16]
    data = encode_gcs(key, list(items))
    msg = CFilterMessage.parse(BytesIO(b"\x00" + block_hash[::-1] + _varstr(data)))
    return [(_Raw(q) in msg) for q in queries], msg.filter_bytes, msg.hash()


def cf_reserialize(key, items):
    """parse then serialize: a codec round trip must give the bytes back"""
    data = encode_gcs(key, list(items))
    return CompactFilter.parse(key, data).serialize(), data


def _varstr(b):
    n = len(b)
    if n < 0xFD:
        return bytes([n]) + b
    if n <= 0xFFFF:
        return b"\xfd" + n.to_bytes(2, "little") + b
    return b"\xfe" + n.to_bytes(4, "little") + b


def cfheaders_last(filter_type, stop_hash, prev, h1, h2, h3):
    return CFHeadersMessage(filter_type, stop_hash, prev, [h1, h2, h3]).last_header


def cfheaders_parse_last(s):
    return CFHeadersMessage.parse(s).last_header


# ---- bloom
def bloom_add(size, function_count, tweak, item):
    bf = BloomFilter(size, function_count, tweak)
    bf.add(item)
    return bf.bit_field


def bloom_add_items(size, function_count, tweak, items):
    bf = BloomFilter(size, function_count, tweak)
    for it in items:
        bf.add(it)
    return bf.filter_bytes(), bf.filterload().serialize(), bf.filterload(flag=0).command


def bloom_add_keeps(size, function_count, tweak, first, second):
    """bits set by `first` survive adding `second`"""
    bf = BloomFilter(size, function_count, tweak)
    bf.add(first)
    before = list(bf.bit_field)
    bf.add(second)
    return before, list(bf.bit_field)


# ---- hash_to_range arithmetic and constants
def range_of_hash(h, f):
    """the expression of hash_to_range with the SipHash value given"""
    return h * f >> 64


def golomb_m():
    from buidl.compactfilter import GOLOMB_M, GOLOMB_P
    return GOLOMB_M, GOLOMB_P


def cf_hash(key, values):
    """filter hash of a CompactFilter built from already hashed (ascending or not) values"""
    return CompactFilter(key, list(values)).hash()
