"""API-level harnesses for C05 (signature hashes).

A spending transaction is built through the constructors from the neutral representation of
verif/specs/txwire.py, the spent outputs (`spent[k] = (amount, script_pubkey_commands)` for input k) are preset
on the inputs the way the library's own tests do it (`_value`, `_script_pubkey`), then one of the digest methods
is called.  History harnesses run several queries and edits on ONE object.  Part of the trusted base."""
from buidl.script import RedeemScript, Script, ScriptPubKey, WitnessScript
from buidl.timelock import Locktime, Sequence
from buidl.tx import Tx, TxIn, TxOut
from buidl.witness import Witness

from .txcodec import build_script, build_tx, build_txin, build_txout


def build_spending_tx(tx, spent, segwit=True):
    t = build_tx(tx, segwit)
    k = 0
    for ti in t.tx_ins:
        ti._value = spent[k][0]
        ti._script_pubkey = build_script(spent[k][1], ScriptPubKey)
        k = k + 1
    return t


# ---------------------------------------------------------------------------- single queries
def legacy(tx, spent, i, hash_type):
    """scriptCode = the spent scriptPubKey"""
    return build_spending_tx(tx, spent).sig_hash_legacy(i, hash_type=hash_type)


def legacy_redeem(tx, spent, i, redeem, hash_type):
    """P2SH: scriptCode = the redeem script"""
    return build_spending_tx(tx, spent).sig_hash_legacy(i, RedeemScript(list(redeem)), hash_type=hash_type)


def bip143_p2wpkh(tx, spent, i, hash_type):
    return build_spending_tx(tx, spent).sig_hash_bip143(i, hash_type=hash_type)


def bip143_p2sh_p2wpkh(tx, spent, i, h160, hash_type):
    return build_spending_tx(tx, spent).sig_hash_bip143(i, redeem_script=RedeemScript([0, h160]), hash_type=hash_type)


def bip143_p2wsh(tx, spent, i, witness_script, hash_type):
    return build_spending_tx(tx, spent).sig_hash_bip143(i, witness_script=WitnessScript(list(witness_script)), hash_type=hash_type)


def bip341(tx, spent, i, ext_flag, hash_type):
    return build_spending_tx(tx, spent).sig_hash_bip341(i, ext_flag=ext_flag, hash_type=hash_type)


def dispatch(tx, spent, i, hash_type):
    """Tx.sig_hash: the library picks the algorithm from the spent output, scriptSig and witness"""
    return build_spending_tx(tx, spent).sig_hash(i, hash_type)


# ---------------------------------------------------------------------------- two-step histories (symbolic)
def bip143_after_output_edit(tx, spent, i, hash_type, k, new_amount):
    t = build_spending_tx(tx, spent)
    t.sig_hash_bip143(i, hash_type=1)
    t.tx_outs[k].amount = new_amount
    return t.sig_hash_bip143(i, hash_type=hash_type)


def bip143_after_sequence_edit(tx, spent, i, hash_type, k, new_sequence):
    t = build_spending_tx(tx, spent)
    t.sig_hash_bip143(i, hash_type=1)
    t.tx_ins[k].sequence = Sequence(new_sequence)
    return t.sig_hash_bip143(i, hash_type=hash_type)


def bip143_after_prevout_edit(tx, spent, i, hash_type, k, new_index):
    t = build_spending_tx(tx, spent)
    t.sig_hash_bip143(i, hash_type=1)
    t.tx_ins[k].prev_index = new_index
    return t.sig_hash_bip143(i, hash_type=hash_type)


def bip341_after_output_edit(tx, spent, i, hash_type, k, new_amount):
    t = build_spending_tx(tx, spent)
    t.sig_hash_bip341(i, hash_type=0)
    t.tx_outs[k].amount = new_amount
    return t.sig_hash_bip341(i, hash_type=hash_type)


def bip341_after_sequence_edit(tx, spent, i, hash_type, k, new_sequence):
    t = build_spending_tx(tx, spent)
    t.sig_hash_bip341(i, hash_type=0)
    t.tx_ins[k].sequence = Sequence(new_sequence)
    return t.sig_hash_bip341(i, hash_type=hash_type)


def bip341_after_spent_amount_edit(tx, spent, i, hash_type, k, new_value):
    t = build_spending_tx(tx, spent)
    t.sig_hash_bip341(i, hash_type=0)
    t.tx_ins[k]._value = new_value
    return t.sig_hash_bip341(i, hash_type=hash_type)


def legacy_after_output_edit(tx, spent, i, hash_type, k, new_amount):
    t = build_spending_tx(tx, spent)
    t.sig_hash_legacy(i, hash_type=1)
    t.tx_outs[k].amount = new_amount
    return t.sig_hash_legacy(i, hash_type=hash_type)


def bip341_fresh_helper_calls(tx, spent):
    """the five BIP341 midstate accessors on a fresh object, each called first on its own copy"""
    return (build_spending_tx(tx, spent).sha_prevouts(), build_spending_tx(tx, spent).sha_amounts(),
            build_spending_tx(tx, spent).sha_script_pubkeys(), build_spending_tx(tx, spent).sha_sequences(),
            build_spending_tx(tx, spent).sha_outputs())


# ---------------------------------------------------------------------------- general histories (bounded companion)
def query(t, q):
    """q = (algorithm, input index, hash type, extra)"""
    alg, i, ht, extra = q
    if alg == "legacy":
        return t.sig_hash_legacy(i, hash_type=ht)
    if alg == "legacy_redeem":
        return t.sig_hash_legacy(i, RedeemScript(list(extra)), hash_type=ht)
    if alg == "bip143":
        return t.sig_hash_bip143(i, hash_type=ht)
    if alg == "bip143_wsh":
        return t.sig_hash_bip143(i, witness_script=WitnessScript(list(extra)), hash_type=ht)
    if alg == "bip341":
        return t.sig_hash_bip341(i, ext_flag=extra, hash_type=ht)
    if alg == "sig_hash":
        return t.sig_hash(i, ht)
    raise ValueError(alg)


def edit(t, e):
    """one edit through plain attribute/list operations, as calling code does them"""
    kind = e[0]
    if kind == "out_amount":
        t.tx_outs[e[1]].amount = e[2]
    elif kind == "out_script":
        t.tx_outs[e[1]].script_pubkey = build_script(e[2], ScriptPubKey)
    elif kind == "out_replace":
        t.tx_outs[e[1]] = build_txout(e[2])
    elif kind == "out_append":
        t.tx_outs.append(build_txout(e[1]))
    elif kind == "out_pop":
        t.tx_outs.pop()
    elif kind == "sequence":
        t.tx_ins[e[1]].sequence = Sequence(e[2])
    elif kind == "locktime":
        t.locktime = Locktime(e[1])
    elif kind == "version":
        t.version = e[1]
    elif kind == "prev_index":
        t.tx_ins[e[1]].prev_index = e[2]
    elif kind == "prev_tx":
        t.tx_ins[e[1]].prev_tx = e[2]
    elif kind == "in_append":
        ti = build_txin(e[1])
        ti._value = e[2][0]
        ti._script_pubkey = build_script(e[2][1], ScriptPubKey)
        t.tx_ins.append(ti)
    elif kind == "in_pop":
        t.tx_ins.pop()
    elif kind == "spent_value":
        t.tx_ins[e[1]]._value = e[2]
    elif kind == "spent_script":
        t.tx_ins[e[1]]._script_pubkey = build_script(e[2], ScriptPubKey)
    elif kind == "witness":
        t.tx_ins[e[1]].witness = Witness(list(e[2]))
    else:
        raise ValueError(kind)


def history(tx, spent, steps):
    """run `steps` (("q", query) | ("e", edit)) on one object; -> list of answers of the queries
    (an exception is reported as ("raise", type name))"""
    t = build_spending_tx(tx, spent)
    answers = []
    for s in steps:
        if s[0] == "q":
            try:
                answers.append(query(t, s[1]))
            except Exception as ex:      # noqa: the digest call failed; the caller compares with the spec
                answers.append(("raise", type(ex).__name__))
        else:
            edit(t, s[1])
    return answers
