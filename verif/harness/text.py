"""C09 harnesses: the calls a user of the library writes for address / key text encodings.
Straight-line code over the real API (part of the trusted base)."""
from buidl.bech32 import (bech32_polymod, convertbits, group_32, encode_bech32_checksum, decode_bech32,
                          bech32_create_checksum, bech32_verify_checksum, bech32m_create_checksum,
                          bech32m_verify_checksum)
from buidl.helper import encode_base58, encode_base58_checksum, raw_decode_base58, decode_base58
from buidl.script import (P2PKHScriptPubKey, P2SHScriptPubKey, P2WPKHScriptPubKey, P2WSHScriptPubKey,
                          P2TRScriptPubKey, address_to_script_pubkey)
from buidl.tx import TxOut
from buidl.pecc import PrivateKey

SPK_CLASS = {"p2pkh": P2PKHScriptPubKey, "p2sh": P2SHScriptPubKey, "p2wpkh": P2WPKHScriptPubKey,
             "p2wsh": P2WSHScriptPubKey, "p2tr": P2TRScriptPubKey}


# ---- BCH checksum on fixed-length symbol lists (symbolic 5-bit values)
def polymod7(v0, v1, v2, v3, v4, v5, v6):
    return bech32_polymod([v0, v1, v2, v3, v4, v5, v6])


def polymod_list(values):
    return bech32_polymod(list(values))


def cb58_8(v0, v1, v2, v3, v4, v5, v6, v7):
    """8 five-bit groups -> 5 bytes, no padding allowed"""
    return convertbits([v0, v1, v2, v3, v4, v5, v6, v7], 5, 8, False)


def cb58_4(v0, v1, v2, v3):
    """4 five-bit groups = 2 bytes + 4 padding bits which must be zero"""
    return convertbits([v0, v1, v2, v3], 5, 8, False)


def cb58_2(v0, v1):
    """2 five-bit groups = 1 byte + 2 padding bits"""
    return convertbits([v0, v1], 5, 8, False)


def checksum_roundtrip(hrp, data, m):
    """verify(create) for the bech32 (m=False) or bech32m (m=True) constant; also the cross check must fail"""
    data = list(data)
    if m:
        chk = bech32m_create_checksum(hrp, data)
        return bech32m_verify_checksum(hrp, data + chk), bech32_verify_checksum(hrp, data + chk), chk
    chk = bech32_create_checksum(hrp, data)
    return bech32_verify_checksum(hrp, data + chk), bech32m_verify_checksum(hrp, data + chk), chk


# ---- base58check
def b58check_roundtrip(payload):
    return raw_decode_base58(encode_base58_checksum(payload))


def b58check_accepts(s):
    """payload if the real decoder accepts s, None if it raises"""
    try:
        return raw_decode_base58(s)
    except Exception:
        return None


# ---- segwit addresses
def segwit_roundtrip(spk, network):
    return decode_bech32(encode_bech32_checksum(spk, network))


def segwit_accepts(addr):
    """[network, version, program] if the real decoder accepts, None if it raises"""
    try:
        return decode_bech32(addr)
    except Exception:
        return None


# ---- scriptPubKey <-> address
def spk_address(kind, h, network):
    return SPK_CLASS[kind](h).address(network)


def spk_raw(kind, h):
    return SPK_CLASS[kind](h).raw_serialize()


def addr_to_spk(addr):
    return address_to_script_pubkey(addr).raw_serialize()


def addr_after_addr(first, second):
    """history: address_to_script_pubkey(first) -- accepted or not -- and THEN address_to_script_pubkey(second) in the same
    process -> the script of `second` (a rejected `second` raises); whatever the first call left behind (a memo keyed by a
    normalised spelling, say) must not decide the second"""
    try:
        address_to_script_pubkey(first)
    except Exception:      # noqa
        pass
    return address_to_script_pubkey(second).raw_serialize()


def txout_spk(addr):
    return TxOut.to_address(addr, 0).script_pubkey.raw_serialize()


def addr_roundtrip(kind, h, network):
    """script -> address -> script (address_to_script_pubkey) -> address"""
    a = SPK_CLASS[kind](h).address(network)
    back = address_to_script_pubkey(a)
    return type(back).__name__, back.raw_serialize(), back.address(network), a


def txout_roundtrip(kind, h, network):
    a = SPK_CLASS[kind](h).address(network)
    back = TxOut.to_address(a, 21).script_pubkey
    return type(back).__name__, back.raw_serialize(), back.address(network), a


# ---- WIF
def wif_of(secret, compressed, network):
    return PrivateKey(secret, network=network, compressed=compressed).wif(compressed)


def wif_parse(s):
    k = PrivateKey.parse(s)
    return k.secret, k.compressed, k.network == "mainnet"


def wif_roundtrip(secret, compressed, network):
    k = PrivateKey.parse(PrivateKey(secret, network=network, compressed=compressed).wif(compressed))
    return k.secret, k.compressed, k.network
