"""C16 harnesses: wsh(sortedmulti) descriptors as a user builds / parses / derives addresses from them."""
from buidl.descriptor import P2WSHSortedMulti, calc_core_checksum, calc_poly_mod


def _records(records):
    return [{"xfp": xfp, "path": path, "xpub_parent": xpub, "account_index": idx} for xfp, path, xpub, idx in records]


def build(m, records, sort=True):
    """str() of the descriptor built from key records [(xfp, path, xpub, account_index)]"""
    return str(P2WSHSortedMulti(m, _records(records), sort_key_records=sort))


def parse_str(text):
    return str(P2WSHSortedMulti.parse(text))


def parse_accepts(text):
    """str(parsed) if the real parser accepts, None if it raises"""
    try:
        return str(P2WSHSortedMulti.parse(text))
    except Exception:
        return None


def parse_state(text):
    d = P2WSHSortedMulti.parse(text)
    return d.quorum_m, [(r["xfp"], r["path"], r["xpub_parent"], r["account_index"]) for r in d.key_records], d.network, d.checksum


def address(m, records, offset, is_change):
    return P2WSHSortedMulti(m, _records(records)).get_address(offset=offset, is_change=is_change)


def address_of_text(text, offset, is_change):
    return P2WSHSortedMulti.parse(text).get_address(offset=offset, is_change=is_change)


def checksum(text):
    return calc_core_checksum(text)
