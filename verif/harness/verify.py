"""C06 harnesses.

Part 1: tiny straight-line functions over the real API, executed symbolically by pyvc (and
concretely by the bounded companion).
Part 2: spend builders for the bounded companion: a *spend description* (plain data, see
verif/specs/authorise.py) is signed through the repository's own sign_* / get_sig_* / finalize_*
API; `run_verify` rebuilds a fresh Tx object from a description and calls the real
`Tx.verify_input`.  No network: every input carries its prevout (`_value`, `_script_pubkey`).
"""
import contextlib
import hashlib
import io
import itertools

from buidl.ecc import PrivateKey, S256Point
from buidl.script import RedeemScript, Script, WitnessScript
from buidl.taproot import ControlBlock, MultiSigTapScript, TapBranch, TapLeaf
from buidl.timelock import Locktime, Sequence
from buidl.witness import Witness


# ------------------------------------------------------------------------------------------------
# Part 1: symbolic harnesses
# ------------------------------------------------------------------------------------------------
def witness_has_annex0():
    return bool(Witness([]).has_annex())


def witness_has_annex1(a):
    return bool(Witness([a]).has_annex())


def witness_has_annex2(a, b):
    return bool(Witness([a, b]).has_annex())


def witness_has_annex3(a, b, c):
    return bool(Witness([a, b, c]).has_annex())


def cb_parse_fields(b):
    """ControlBlock.parse as evaluate() calls it -> (leaf version, parity, internal key x, path)"""
    cb = ControlBlock.parse(b)
    return cb.tapleaf_version, cb.parity, cb.internal_pubkey.xonly(), cb.hashes


def cb_roundtrip(b):
    return ControlBlock.parse(b).serialize()


def cb_serialize(version, parity, x, h0, h1):
    """serialize of a control block whose internal key is the x-only key x (two path elements)"""
    return ControlBlock(version, parity, S256Point.parse_xonly(x), [h0, h1]).serialize()


def cb_merkle_root0(version, x):
    return ControlBlock(version, 0, None, []).merkle_root(Script([x, 0xAC]))


def cb_merkle_root1(version, x, h0):
    return ControlBlock(version, 0, None, [h0]).merkle_root(Script([x, 0xAC]))


def cb_merkle_root2(version, x, h0, h1):
    return ControlBlock(version, 0, None, [h0, h1]).merkle_root(Script([x, 0xAC]))


def cb_merkle_root3(version, x, h0, h1, h2):
    return ControlBlock(version, 0, None, [h0, h1, h2]).merkle_root(Script([x, 0xAC]))


def spec_multisig_walk_vs_injection(m, n, v00, v01, v02, v10, v11, v12, v20, v21, v22):
    """spec lemma: the consensus walk and the declarative order-preserving-injection reading of
    CHECKMULTISIG agree, for a symbolic validity matrix"""
    from verif.specs.authorise import multisig_authorised, multisig_injection_exists
    v = [[v00, v01, v02], [v10, v11, v12], [v20, v21, v22]]
    sigs = list(range(m))
    keys = list(range(n))
    return multisig_authorised(sigs, keys, lambda s, k: v[s][k]) == multisig_injection_exists(sigs, keys, lambda s, k: v[s][k])


def real_checkmultisig_with_oracle(m, n, v):
    """the REAL buidl.op.op_checkmultisig run with the ECDSA layer replaced by the boolean oracle
    v[i][j] = "signature i verifies under key j" (script order).  Only the names S256Point and
    Signature inside buidl.op are swapped for the duration of the call (concrete runs only).
    -> (return value, final stack)"""
    import buidl.op as op

    class _Pt:
        def __init__(self, j):
            self.j = j

        @classmethod
        def parse(cls, sec):
            return cls(sec[0])

        def verify(self, z, sig):
            return bool(v[sig.i][self.j])

    class _Sig:
        @classmethod
        def parse(cls, der):
            o = cls()
            o.i = der[0]
            return o

    class _Tx:
        def sig_hash(self, input_index, hash_type):
            return 0
    stack = [b""] + [bytes([i, 1]) for i in range(m)] + [op.encode_num(m)] + [bytes([j]) for j in range(n)] + [op.encode_num(n)]
    saved = op.S256Point, op.Signature
    op.S256Point, op.Signature = _Pt, _Sig
    try:
        with contextlib.redirect_stdout(io.StringIO()):
            r = op.op_checkmultisig(stack, _Tx(), 0)
    finally:
        op.S256Point, op.Signature = saved
    return r, stack


# ------------------------------------------------------------------------------------------------
# Part 2: spend builders (concrete)
# ------------------------------------------------------------------------------------------------
N = 0xFFFFFFFFFFFFFFFFFFFFFFFFFFFFFFFEBAAEDCE6AF48A03BBFD25E8CD0364141


def _h(*parts):
    return hashlib.sha256(b"|".join(p if isinstance(p, bytes) else str(p).encode() for p in parts)).digest()


def det_key(seed, tag):
    """deterministic private key"""
    return PrivateKey(int.from_bytes(_h("C06-key", seed, tag), "big") % (N - 1) + 1, network="signet")


def build_tx(desc):
    from verif.specs.authorise import build_tx as b
    return b(desc)


def copy_desc(desc):
    return {"version": desc["version"], "locktime": desc["locktime"], "segwit": desc["segwit"], "index": desc["index"],
            "ins": [dict(d, script_sig=list(d["script_sig"]), witness=list(d["witness"]), spk=list(d["spk"])) for d in desc["ins"]],
            "outs": [dict(o, spk=list(o["spk"])) for o in desc["outs"]]}


def _cmds_json(cmds):
    return [c if isinstance(c, int) else c.hex() for c in cmds]


def desc_json(desc):
    """JSON-serialisable replay record: the description itself, the spending transaction's hex when
    the repository can serialise it, and the prevout of the verified input"""
    out = {"version": desc["version"], "locktime": desc["locktime"], "segwit": desc["segwit"], "index": desc["index"],
           "ins": [{"prev_tx": d["prev_tx"].hex(), "prev_index": d["prev_index"], "sequence": d["sequence"],
                    "script_sig": _cmds_json(d["script_sig"]), "witness": [w.hex() for w in d["witness"]],
                    "amount": d["amount"], "spk": _cmds_json(d["spk"])} for d in desc["ins"]],
           "outs": [{"amount": o["amount"], "spk": _cmds_json(o["spk"])} for o in desc["outs"]]}
    try:
        out["tx_hex"] = build_tx(desc).serialize().hex()
    except Exception as e:
        out["tx_hex"] = "unserialisable by the repository: %r" % (e,)
    d = desc["ins"][desc["index"]]
    try:
        out["prevout_script_hex"] = Script(list(d["spk"])).raw_serialize().hex()
    except Exception:
        pass
    out["prevout_amount"] = d["amount"]
    return out


def desc_unjson(j):
    def cm(cs):
        return [c if isinstance(c, int) else bytes.fromhex(c) for c in cs]
    return {"version": j["version"], "locktime": j["locktime"], "segwit": j["segwit"], "index": j["index"],
            "ins": [{"prev_tx": bytes.fromhex(d["prev_tx"]), "prev_index": d["prev_index"], "sequence": d["sequence"],
                     "script_sig": cm(d["script_sig"]), "witness": [bytes.fromhex(w) for w in d["witness"]],
                     "amount": d["amount"], "spk": cm(d["spk"])} for d in j["ins"]],
            "outs": [{"amount": o["amount"], "spk": cm(o["spk"])} for o in j["outs"]]}


def run_verify(desc):
    """fresh Tx from the description -> "True" | "False" | "raise:<Exception>" """
    try:
        tx = build_tx(desc)
        with contextlib.redirect_stdout(io.StringIO()):
            r = tx.verify_input(desc["index"])
        return "True" if r else "False"
    except Exception as e:
        return "raise:" + type(e).__name__


def run_verify_obj(tx, index):
    try:
        with contextlib.redirect_stdout(io.StringIO()):
            r = tx.verify_input(index)
        return "True" if r else "False"
    except Exception as e:
        return "raise:" + type(e).__name__


def skeleton(seed, spk_cmds, n_in=1, n_out=1, index=0, segwit=True, amount=None, locktime=0, version=2):
    """unsigned spending transaction: input `index` spends the funding output (spk_cmds, amount);
    the other inputs spend unrelated P2WPKH outputs and stay unsigned"""
    ins = []
    for k in range(n_in):
        other = [0x00, _h("C06-other-prog", seed, k)[:20]]
        ins.append({"prev_tx": _h("C06-prev", seed, k), "prev_index": (k * 3 + seed) % 4,
                    "script_sig": [], "sequence": 0xFFFFFFFE - k, "witness": [],
                    "amount": (amount if amount is not None else 100000 + 1000 * seed) if k == index else 50000 + k,
                    "spk": list(spk_cmds) if k == index else other})
    outs = []
    for k in range(n_out):
        outs.append({"amount": 20000 + 7 * k + seed, "spk": [0x00, _h("C06-out-prog", seed, k)[:20 if k % 2 == 0 else 32]]})
    return {"version": version, "locktime": locktime, "segwit": segwit, "index": index, "ins": ins, "outs": outs}


def _pull(desc, tx):
    """copy what the signing API wrote into the live object back into the description"""
    i = desc["index"]
    desc["ins"][i]["script_sig"] = list(tx.tx_ins[i].script_sig.commands)
    desc["ins"][i]["witness"] = list(tx.tx_ins[i].witness.items)


class Spend:
    """an honest spend: desc (signed), live tx object, and everything a mutation needs"""

    def __init__(self, kind, desc, tx, **meta):
        self.kind, self.desc, self.tx = kind, desc, tx
        self.api_result = meta.pop("api_result", None)
        self.__dict__.update(meta)
        self.meta = meta


def _quiet(fn, *a, **k):
    with contextlib.redirect_stdout(io.StringIO()):
        return fn(*a, **k)


def spend_single(kind, seed, **shape):
    """P2PKH / P2WPKH / P2SH-P2WPKH, signed with Tx.sign_input (which dispatches to sign_p2pkh /
    sign_p2wpkh / sign_p2sh_p2wpkh)"""
    priv = det_key(seed, "owner")
    foreign = det_key(seed, "foreign")
    if shape.pop("uncompressed", False):
        priv = PrivateKey(priv.secret, network="signet", compressed=False)
    if kind == "p2pkh":
        spk, redeem = priv.point.p2pkh_script(compressed=priv.compressed), None
    elif kind == "p2wpkh":
        spk, redeem = priv.point.p2wpkh_script(), None
    else:
        redeem = priv.point.p2sh_p2wpkh_redeem_script()
        spk = redeem.script_pubkey()
    desc = skeleton(seed, spk.commands, segwit=(kind != "p2pkh"), **shape)
    tx = build_tx(desc)
    ok = _quiet(tx.sign_input, desc["index"], priv, redeem_script=redeem)
    _pull(desc, tx)
    where = ("script_sig", 0) if kind == "p2pkh" else ("witness", 0)
    keyloc = ("script_sig", 1) if kind == "p2pkh" else ("witness", 1)

    def sign_as(k, d):
        """signature by private key k over description d (same template), via the repository API"""
        t = build_tx(d)
        if kind == "p2pkh":
            return t.get_sig_legacy(d["index"], k)
        return t.get_sig_segwit(d["index"], k, redeem_script=redeem)
    return Spend(kind, desc, tx, api_result=ok, privs=[priv], foreign=foreign, sigs=[where], keyloc=keyloc,
                 sign_as=sign_as, redeem=redeem, m=1, n=1)


def spend_multisig(kind, seed, m, n, signers=None, **shape):
    """P2SH / P2WSH / P2SH-P2WSH m-of-n, signatures from get_sig_legacy / get_sig_segwit, input
    finalised with finalize_p2sh_multisig / finalize_p2wsh_multisig / finalize_p2sh_p2wsh_multisig"""
    privs = [det_key(seed, "ms%d" % j) for j in range(n)]
    foreign = det_key(seed, "foreign")
    signers = list(signers) if signers is not None else list(range(m))
    secs = [p.point.sec() for p in privs]
    if kind == "p2sh-ms":
        script = RedeemScript.create_p2sh_multisig(m, [s.hex() for s in secs], sort_keys=False)
        spk = script.script_pubkey()
    else:
        script = WitnessScript([0x50 + m, *secs, 0x50 + n, 0xAE])
        spk = script.script_pubkey() if kind == "p2wsh-ms" else script.script_pubkey().redeem_script().script_pubkey()
    desc = skeleton(seed, spk.commands, segwit=(kind != "p2sh-ms"), **shape)
    i = desc["index"]

    def sign_as(k, d):
        t = build_tx(d)
        if kind == "p2sh-ms":
            return t.get_sig_legacy(d["index"], k, redeem_script=script)
        return t.get_sig_segwit(d["index"], k, witness_script=script)
    tx = build_tx(desc)
    if kind == "p2sh-ms":
        sigs = [tx.get_sig_legacy(i, privs[j], redeem_script=script) for j in signers]
        tx.tx_ins[i].finalize_p2sh_multisig(sigs, script)
        locs = [("script_sig", 1 + t) for t in range(m)]
    else:
        sigs = [tx.get_sig_segwit(i, privs[j], witness_script=script) for j in signers]
        if kind == "p2wsh-ms":
            tx.tx_ins[i].finalize_p2wsh_multisig(sigs, script)
        else:
            tx.tx_ins[i].finalize_p2sh_p2wsh_multisig(sigs, script)
        locs = [("witness", 1 + t) for t in range(m)]
    _pull(desc, tx)
    return Spend(kind, desc, tx, privs=privs, foreign=foreign, sigs=locs, signers=signers, sign_as=sign_as,
                 script=script, m=m, n=n)


def tap_tree(seed, shape):
    """shape: list of leaf specs (k, n); returns (root node, [leaf objects], [[privs per leaf]])"""
    leaves, leaf_privs = [], []
    for li, (k, n) in enumerate(shape):
        privs = [det_key(seed, "leaf%d-%d" % (li, j)) for j in range(n)]
        ts = MultiSigTapScript([p.point for p in privs], k)
        leaves.append(ts.tap_leaf())
        leaf_privs.append(privs)
    root = TapBranch.combine(leaves) if len(leaves) > 1 else leaves[0]
    return root, leaves, leaf_privs


def spend_p2tr_key(seed, tree_shape=None, hash_type=0, **shape):
    """key path spend, signed with Tx.sign_p2tr_keypath and the repository's tweaked private key"""
    internal = det_key(seed, "internal")
    foreign = det_key(seed, "foreign")
    if tree_shape:
        root, _, _ = tap_tree(seed, tree_shape)
        mr = root.hash()
    else:
        mr = b""
    spk = internal.point.p2tr_script(mr)
    desc = skeleton(seed, spk.commands, segwit=True, **shape)
    tx = build_tx(desc)
    tweaked = internal.tweaked_key(mr)
    ok = _quiet(tx.sign_p2tr_keypath, desc["index"], tweaked, hash_type=hash_type)
    _pull(desc, tx)

    def sign_as(k, d):
        t = build_tx(d)
        t.tx_ins[d["index"]].witness = Witness([])
        return t.get_sig_taproot(d["index"], k, hash_type=hash_type)
    return Spend("p2tr-key", desc, tx, api_result=ok, privs=[tweaked], foreign=foreign, sigs=[("witness", 0)],
                 sign_as=sign_as, internal=internal, merkle_root=mr, m=1, n=1)


def spend_p2tr_script(seed, tree_shape, leaf_index=0, signers=None, **shape):
    """script path spend of leaf `leaf_index` (a k-of-n MultiSigTapScript; 1-of-1 is `<x> CHECKSIG`)
    through initialize_p2tr_multisig / get_sig_taproot(ext_flag=1) / finalize_p2tr_multisig"""
    internal = det_key(seed, "internal")
    foreign = det_key(seed, "foreign")
    root, leaves, leaf_privs = tap_tree(seed, tree_shape)
    leaf, privs = leaves[leaf_index], leaf_privs[leaf_index]
    k, n = tree_shape[leaf_index]
    mr = root.hash()
    spk = internal.point.p2tr_script(mr)
    desc = skeleton(seed, spk.commands, segwit=True, **shape)
    i = desc["index"]
    tx = build_tx(desc)
    cb = root.control_block(internal.point, leaf)
    tx.initialize_p2tr_multisig(i, cb, leaf.tap_script)
    signers = list(signers) if signers is not None else list(range(k))
    sigs = [tx.get_sig_taproot(i, privs[j], ext_flag=1) if j in signers else b"" for j in range(n)]
    ok = _quiet(tx.finalize_p2tr_multisig, i, sigs)
    _pull(desc, tx)
    w = desc["ins"][i]["witness"]
    # the witness is [sig for point n-1, ..., sig for point 0, script, control block] with points sorted
    sig_locs = [("witness", t) for t in range(len(w) - 2) if len(w[t])]

    def sign_as(key, d):
        t = build_tx(d)
        return t.get_sig_taproot(d["index"], key, ext_flag=1)
    return Spend("p2tr-script", desc, tx, api_result=ok, privs=privs, foreign=foreign, sigs=sig_locs,
                 sign_as=sign_as, internal=internal, merkle_root=mr, root=root, leaves=leaves,
                 leaf_privs=leaf_privs, leaf=leaf, leaf_index=leaf_index, cb=cb, m=k, n=n,
                 cb_loc=len(w) - 1, script_loc=len(w) - 2, tree_shape=tree_shape, seed=seed)


def subsets(n, m):
    return list(itertools.combinations(range(n), m))
