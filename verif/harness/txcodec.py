"""API-level harnesses for C04 (transaction wire codec, txid, fetcher).

Every function is a few straight-line calls of the library's public API, the way a user writes them;
inputs are plain Python data in the neutral representation of verif/specs/txwire.py
(tx = (version, ins, outs, locktime); ins[k] = (prev_txid_be, prev_index, script_sig, sequence, witness_items);
outs[k] = (amount, script_pubkey); scripts = command lists or verbatim bytes).  Results are plain data too, so
that contract clauses compare them with the spec without touching library objects.
Part of the trusted base."""
import contextlib
import io
from io import BytesIO

import buidl.tx as _txmod
from buidl.script import Script, ScriptPubKey
from buidl.timelock import Locktime, Sequence
from buidl.tx import Tx, TxIn, TxOut, TxFetcher
from buidl.witness import Witness


# ---------------------------------------------------------------------------- builders (API calls only)
def build_script(s, cls=Script):
    if isinstance(s, bytes):
        return cls.parse(raw=s)
    return cls(list(s))


def build_txin(i):
    ti = TxIn(i[0], i[1], build_script(i[2]), i[3])
    ti.witness = Witness(list(i[4]))
    return ti


def build_txout(o):
    return TxOut(o[0], build_script(o[1], ScriptPubKey))


def build_tx(tx, segwit):
    ins = []
    for i in tx[1]:
        ins.append(build_txin(i))
    outs = []
    for o in tx[2]:
        outs.append(build_txout(o))
    return Tx(tx[0], ins, outs, tx[3], network="mainnet", segwit=segwit)


# ---------------------------------------------------------------------------- views (fields as plain data)
def script_view(s):
    """(commands, raw): what the parser produced"""
    return (list(s.commands), s.raw)


def txin_view(ti):
    return (ti.prev_tx, ti.prev_index, script_view(ti.script_sig), ti.sequence.serialize(), list(ti.witness.items))


def txout_view(to):
    return (to.amount, script_view(to.script_pubkey))


def tx_view(t):
    ins = []
    for ti in t.tx_ins:
        ins.append(txin_view(ti))
    outs = []
    for to in t.tx_outs:
        outs.append(txout_view(to))
    return (t.version, ins, outs, t.locktime.serialize(), t.segwit)


# ---------------------------------------------------------------------------- Script
def ser_one_push(x):
    return Script([x]).raw_serialize()


def ser_cmds(cmds):
    return Script(list(cmds)).raw_serialize()


def script_serialize(cmds):
    return Script(list(cmds)).serialize()


def script_parse(s):
    return script_view(Script.parse(s))


def script_parse_reser(s):
    """parse, then serialise again (with the length prefix)"""
    return Script.parse(s).serialize()


def script_roundtrip(cmds):
    """serialise a script built through the API, parse it back"""
    return script_view(Script.parse(BytesIO(Script(list(cmds)).serialize())))


# ---------------------------------------------------------------------------- Witness / Locktime / Sequence
def witness_ser(items):
    return Witness(list(items)).serialize()


def witness_parse(s):
    return list(Witness.parse(s).items)


def locktime_ser(n):
    return Locktime(n).serialize()


def sequence_ser(n):
    return Sequence(n).serialize()


def locktime_parse(s):
    return Locktime.parse(s).serialize()


def sequence_parse(s):
    return Sequence.parse(s).serialize()


# ---------------------------------------------------------------------------- TxIn / TxOut
def txin_ser(i):
    return build_txin(i).serialize()


def txout_ser(o):
    return build_txout(o).serialize()


def txin_parse(s):
    return txin_view(TxIn.parse(s))


def txout_parse(s):
    return txout_view(TxOut.parse(s))


# ---------------------------------------------------------------------------- Tx
def tx_ser(tx, segwit):
    """Tx.serialize() of a transaction built through the API"""
    return build_tx(tx, segwit).serialize()


def tx_ser_legacy(tx, segwit):
    return build_tx(tx, segwit).serialize_legacy()


def tx_hash(tx, segwit):
    return build_tx(tx, segwit).hash()


def tx_id(tx, segwit):
    return build_tx(tx, segwit).id()


def tx_parse(s):
    return tx_view(Tx.parse(s))


def tx_parse_reser(s):
    """parse a transaction, serialise it again"""
    return Tx.parse(s).serialize()


def tx_parse_hash(s):
    return Tx.parse(s).hash()


def tx_roundtrip(tx, segwit):
    """serialise a transaction built through the API and parse it back"""
    return tx_view(Tx.parse(BytesIO(build_tx(tx, segwit).serialize())))


# ---------------------------------------------------------------------------- TxFetcher
class _Response:
    def __init__(self, body):
        self.body = body

    def read(self):
        return self.body


def fetch_raw(tx_id_bytes, raw, network="mainnet"):
    """TxFetcher.fetch(tx_id) when the server answers with the hex of `raw` (any bytes): the hash of the
    transaction object the fetcher hands back.  The network call (`buidl.tx.urlopen`) is the only thing
    replaced; the class-level cache is emptied first so that the answer comes from the server."""
    saved_urlopen = _txmod.urlopen
    saved_cache = TxFetcher.cache
    TxFetcher.cache = {}
    _txmod.urlopen = lambda req: _Response((raw.hex() + "\n").encode("utf-8"))
    try:
        with contextlib.redirect_stdout(io.StringIO()):        # Script.parse prints a diagnostic for odd scripts
            return TxFetcher.fetch(tx_id_bytes.hex(), network=network).hash()
    finally:
        _txmod.urlopen = saved_urlopen
        TxFetcher.cache = saved_cache


def fetch_text(tx_id, text, network="mainnet"):
    """same with an arbitrary response body (text); returns the id of what fetch returned"""
    saved_urlopen = _txmod.urlopen
    saved_cache = TxFetcher.cache
    TxFetcher.cache = {}
    _txmod.urlopen = lambda req: _Response(text)
    try:
        with contextlib.redirect_stdout(io.StringIO()):
            return TxFetcher.fetch(tx_id, network=network).id()
    finally:
        _txmod.urlopen = saved_urlopen
        TxFetcher.cache = saved_cache


def fetch_twice(tx_id_bytes, raw, network="mainnet"):
    """history: the server answers `raw` for the request (fetch may refuse it), then the SAME id is fetched
    again while the network is down.  Returns the list of hashes of every transaction object the fetcher
    handed back during the history plus the keys/hashes left in the cache: [(requested id, returned hash)...]"""
    saved_urlopen = _txmod.urlopen
    saved_cache = TxFetcher.cache
    TxFetcher.cache = {}
    out = []
    try:
        with contextlib.redirect_stdout(io.StringIO()):
            _txmod.urlopen = lambda req: _Response((raw.hex() + "\n").encode("utf-8"))
            try:
                out.append((tx_id_bytes, TxFetcher.fetch(tx_id_bytes.hex(), network=network).hash()))
            except Exception:
                pass

            def down(req):
                raise OSError("network is down")
            _txmod.urlopen = down
            try:
                out.append((tx_id_bytes, TxFetcher.fetch(tx_id_bytes.hex(), network=network).hash()))
            except Exception:
                pass
            for k, v in TxFetcher.cache.items():
                out.append((bytes.fromhex(k), v.hash()))
        return out
    finally:
        _txmod.urlopen = saved_urlopen
        TxFetcher.cache = saved_cache
