"""API-level harnesses for C17 (straight-line code over the real functions; part of the trusted base).
Lists cannot be contract parameters, so list-valued APIs are wrapped for fixed small lengths."""
from buidl.block import Block
from buidl.helper import (
    bit_field_to_bytes,
    bits_to_target,
    bytes_to_bit_field,
    merkle_parent_level,
    merkle_root,
)
from buidl.merkleblock import MerkleBlock
from buidl.network import HeadersMessage


# ---- merkle_root on lists of 1..5 hashes
def merkle_root1(a):
    return merkle_root([a])


def merkle_root2(a, b):
    return merkle_root([a, b])


def merkle_root3(a, b, c):
    return merkle_root([a, b, c])


def merkle_root4(a, b, c, d):
    return merkle_root([a, b, c, d])


def merkle_root5(a, b, c, d, e):
    return merkle_root([a, b, c, d, e])


# ---- merkle_parent_level: returns (result, the caller's list after the call)
def parent_level1(a):
    xs = [a]
    return merkle_parent_level(xs), xs


def parent_level2(a, b):
    xs = [a, b]
    return merkle_parent_level(xs), xs


def parent_level3(a, b, c):
    xs = [a, b, c]
    return merkle_parent_level(xs), xs


def parent_level4(a, b, c, d):
    xs = [a, b, c, d]
    return merkle_parent_level(xs), xs


def parent_level5(a, b, c, d, e):
    xs = [a, b, c, d, e]
    return merkle_parent_level(xs), xs


def merkle_root3_twice(a, b, c):
    """the root of the same caller-owned list computed twice (a pure function gives equal results)"""
    xs = [a, b, c]
    r1 = merkle_root(xs)
    r2 = merkle_root(xs)
    return r1, r2, xs


def validate_merkle_root3(header, a, b, c):
    """Block.validate_merkle_root with three transaction hashes (display order, as Block.parse stores them)"""
    header.tx_hashes = [a, b, c]
    return header.validate_merkle_root()


# ---- compact bits
def bits_to_target_exp(mantissa3, exponent):
    """bits_to_target on the 4-byte field mantissa(3, little-endian) || exponent"""
    return bits_to_target(mantissa3 + bytes([exponent]))


# ---- bit fields
def bit_field_round_trip(data):
    return bit_field_to_bytes(bytes_to_bit_field(data))


def bit_field8(b0, b1, b2, b3, b4, b5, b6, b7):
    return bit_field_to_bytes([b0, b1, b2, b3, b4, b5, b6, b7])


def bit_field16(b0, b1, b2, b3, b4, b5, b6, b7, c0, c1, c2, c3, c4, c5, c6, c7):
    bits = [b0, b1, b2, b3, b4, b5, b6, b7, c0, c1, c2, c3, c4, c5, c6, c7]
    return bytes_to_bit_field(bit_field_to_bytes(bits)), bits


# ---- header chains
def headers_valid1(a):
    return HeadersMessage([a]).is_valid()


def headers_valid2(a, b):
    return HeadersMessage([a, b]).is_valid()


def headers_valid3(a, b, c):
    return HeadersMessage([a, b, c]).is_valid()


# ---- merkle block as a user validates one received from the network
def merkleblock_check(s):
    """parse + is_valid + proved_txs -> (valid, proved ids in display order)"""
    mb = MerkleBlock.parse(s)
    ok = mb.is_valid()
    return ok, list(mb.proved_txs())


def merkleblock_single(header, leaf):
    """one-transaction block: the proof is the single leaf with its flag bit set"""
    mb = MerkleBlock(header, 1, [leaf], b"\x01")
    ok = mb.is_valid()
    return ok, list(mb.proved_txs())


def merkleblock_two(header, total_flags, h0, h1):
    """two-transaction block, both leaves given: flag bits 1,1,1 = 0x07 (total_flags selects the flag byte)"""
    mb = MerkleBlock(header, 2, [h0, h1], bytes([total_flags]))
    ok = mb.is_valid()
    return ok, list(mb.proved_txs())
