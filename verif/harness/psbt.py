"""C10/C11 harnesses over the real PSBT API (buidl/psbt.py, psbt_helper.py, tx.py).

Part 1: tiny straight-line functions (the call a user writes) that carry contracts.
Part 2: deterministic wallet/PSBT builders and the drivers of the bounded jobs (the properties' own quantifiers:
        wallets m-of-n, script kinds, numbers of inputs/outputs, signer subsets, sign/combine orders, the
        tampering catalogue).  Everything here only CALLS the library; every judgement is made by the independent
        spec functions of verif/specs/psbt.py.
"""
import base64
import contextlib
import copy
import hashlib
import io
import itertools
import time
from io import BytesIO

from buidl.hd import HDPrivateKey, HDPublicKey
from buidl.helper import serialize_key_value, encode_varstr
from buidl.psbt import PSBT, PSBTIn, PSBTOut, NamedHDPublicKey, NamedPublicKey
from buidl.script import (RedeemScript, WitnessScript, Script, P2PKHScriptPubKey, P2WPKHScriptPubKey,
                          P2SHScriptPubKey)
from buidl.tx import Tx, TxIn, TxOut
from buidl.witness import Witness

import verif.specs.psbt as S

# =========================================================================== part 1: contract harnesses


def kv(key, value):
    return serialize_key_value(key, value)


def fee_2x2(v0, v1, a0, a1):
    """Tx.fee on a 2-in/2-out transaction whose input values are preset (no fetcher involved)"""
    i0 = TxIn(b"\x01" * 32, 0)
    i0._value = v0
    i1 = TxIn(b"\x02" * 32, 1)
    i1._value = v1
    return Tx(2, [i0, i1], [TxOut(a0, Script()), TxOut(a1, Script())], 0).fee()


def named_pub_record(prefix, sec, raw_path):
    """derivation record as parsed from (key, value) and emitted again"""
    pt = NamedPublicKey.parse(prefix + sec, BytesIO(encode_varstr(raw_path)))
    return pt.serialize(prefix)


def named_hd_record(xpub78, raw_path):
    """global xpub record as parsed from (key, value) and emitted again"""
    hd = NamedHDPublicKey.parse(b"\x01" + xpub78, BytesIO(encode_varstr(raw_path)))
    return hd.serialize()


def out_map_roundtrip(s):
    """PSBTOut.parse / serialize on one output map (stream s) of a non-standard (bare) output"""
    return PSBTOut.parse(s, TxOut(0, Script([0x6A]))).serialize()


def in_map_roundtrip(s):
    """PSBTIn.parse / serialize on one input map (stream s) without UTXO data"""
    return PSBTIn.parse(s, TxIn(b"\x07" * 32, 0)).serialize()


def psbt_stream_roundtrip(s):
    """PSBT.parse on a stream, then serialize"""
    return PSBT.parse(s, network="testnet").serialize()


def psbt_roundtrip(raw):
    """(first serialisation, serialisation after parsing it again, base64 round trip) of a serialised PSBT"""
    p = PSBT.parse(BytesIO(raw), network="testnet")
    s1 = p.serialize()
    s2 = PSBT.parse(BytesIO(s1), network="testnet").serialize()
    s3 = PSBT.parse_base64(p.serialize_base64(), network="testnet").serialize()
    return s1, s2, s3


def combine_raw(a, b):
    x = PSBT.parse(BytesIO(a), network="testnet")
    x.combine(PSBT.parse(BytesIO(b), network="testnet"))
    return x.serialize()


def finalize_extract(raw):
    """finalize + extract; returns the network serialisation of the final transaction"""
    p = PSBT.parse(BytesIO(raw), network="testnet")
    p.finalize()
    with _quiet():
        return p.final_tx().serialize()


def describe(raw, xfps, xpubs):
    """review summary with an explicit hdpubkey_map ({xfp hex: xpub string}); reduced to the C11 observables"""
    p = PSBT.parse(BytesIO(raw), network="testnet")
    d = p.describe_basic_multisig({x: HDPublicKey.parse(k) for x, k in zip(xfps, xpubs)})
    return (d["total_input_sats"], d["total_output_sats"], d["tx_fee_sats"], d["spend_sats"], d["change_sats"],
            [bool(o["is_change"]) for o in d["outputs_desc"]])


# =========================================================================== part 2: builders
NET = "testnet"
H = 0x80000000
BASE = "m/48'/1'/0'/2'"
BASE_IDX = [48 + H, 1 + H, 0 + H, 2 + H]
FEE = 5000
KINDS_MULTI = ("p2sh", "p2wsh", "p2sh-p2wsh")
KINDS_SINGLE = ("p2pkh", "p2wpkh", "p2sh-p2wpkh")
IO_COMBOS = [(1, 1), (2, 2), (3, 3), (1, 2), (2, 3), (3, 1), (1, 3), (2, 1), (3, 2)]

_cache = {}


@contextlib.contextmanager
def _quiet():
    with contextlib.redirect_stdout(io.StringIO()):
        yield


def root(i):
    k = ("root", i)
    if k not in _cache:
        _cache[k] = HDPrivateKey.from_seed(b"verif C10/C11 deterministic cosigner seed %d" % i, network=NET)
    return _cache[k]


def acct(i):
    k = ("acct", i)
    if k not in _cache:
        _cache[k] = root(i).traverse(BASE)
    return _cache[k]


def child(i, a, b):
    k = ("child", i, a, b)
    if k not in _cache:
        ka = ("branch", i, a)
        if ka not in _cache:
            _cache[ka] = acct(i).child(a)
        _cache[k] = _cache[ka].child(b)
    return _cache[k]


def named(i, a, b):
    """NamedHDPublicKey of cosigner i at BASE/a/b (root fingerprint + full path recorded)"""
    k = ("named", i, a, b)
    if k not in _cache:
        _cache[k] = NamedHDPublicKey.from_hd_pub(HDPublicKey.parse(child(i, a, b).xpub()), root(i).fingerprint().hex(),
                                                 BASE + "/%d/%d" % (a, b))
    return _cache[k]


def acct_xpub(i):
    return acct(i).xpub()


def spec_wallet(m, ids):
    return {"m": m, "cosigners": [{"fp": root(i).fingerprint(), "xpub": acct(i).pub.raw_serialize(), "base": list(BASE_IDX)}
                                  for i in ids]}


def hdpubkey_map(ids):
    return {root(i).fingerprint().hex(): HDPublicKey.parse(acct_xpub(i)) for i in ids}


def wallet_script(kind, m, ids, a, b):
    """-> (named keys, RedeemScript|None, WitnessScript|None, scriptPubKey) of the wallet at BASE/a/b"""
    nm = [named(i, a, b) for i in ids]
    if kind in KINDS_SINGLE:
        h160 = nm[0].hash160()
        if kind == "p2pkh":
            return nm, None, None, P2PKHScriptPubKey(h160)
        if kind == "p2wpkh":
            return nm, None, None, P2WPKHScriptPubKey(h160)
        red = RedeemScript([0, h160])
        return nm, red, None, red.script_pubkey()
    cmds = [0x50 + m] + sorted(x.sec() for x in nm) + [0x50 + len(nm), 174]
    if kind == "p2sh":
        red = RedeemScript(cmds)
        return nm, red, None, red.script_pubkey()
    wit = WitnessScript(cmds)
    if kind == "p2wsh":
        return nm, None, wit, wit.script_pubkey()
    red = RedeemScript(list(wit.script_pubkey().commands))
    return nm, red, wit, red.script_pubkey()


def _foreign_spk(j):
    if j % 3 == 0:
        return P2WPKHScriptPubKey(bytes([0x20 + j]) * 20)
    if j % 3 == 1:
        return P2PKHScriptPubKey(bytes([0x30 + j]) * 20)
    return P2SHScriptPubKey(bytes([0x40 + j]) * 20)


def funding_tx(j, spk, amount):
    """the transaction whose output (j % 2) funds input j; for j == 2 it is itself a segwit-serialised tx"""
    tin = TxIn(hashlib.sha256(b"funding %d" % j).digest(), j)
    outs = [TxOut(amount, spk), TxOut(7000 + j, P2PKHScriptPubKey(b"\x11" * 20))]
    if j % 2 == 1:
        outs.reverse()
    tx = Tx(2, [tin], outs, 0, network=NET, segwit=(j == 2))
    if j == 2:
        tin.witness = Witness([b"\x01\x02", b"\x03"])
    return tx


class Case:
    pass


def build_case(m, n, kind, n_in, n_out, has_change=True, change_pos=None, with_xpubs=False, segwit_flag=False,
               id_offset=0, reuse_address=False, idx_base=0, same_dest=False):
    """honest PSBT of the wallet (cosigners id_offset..id_offset+n-1): created, then updated.
    idx_base: first address index used (inputs at 0/idx_base+j, change at 1/idx_base);
    same_dest: every payment output goes to the SAME address (amounts differ)"""
    c = Case()
    ids = list(range(id_offset, id_offset + n))
    c.m, c.n, c.kind, c.ids, c.n_in, c.n_out, c.has_change = m, n, kind, ids, n_in, n_out, has_change
    tx_lookup, pubkey_lookup, redeem_lookup, witness_lookup = {}, {}, {}, {}

    def add_lookups(nm, red, wit):
        for x in nm:
            pubkey_lookup[x.sec()] = x
            pubkey_lookup[x.hash160()] = x
        if red is not None:
            redeem_lookup[red.hash160()] = red
        if wit is not None:
            witness_lookup[wit.sha256()] = wit
    tx_ins, total = [], 0
    c.funding = []
    for j in range(n_in):
        nm, red, wit, spk = wallet_script(kind, m, ids, 0, idx_base + (0 if reuse_address else j))
        amount = 100000 + 1000 * j
        prev = funding_tx(j, spk, amount)
        tx_lookup[prev.hash()] = prev
        add_lookups(nm, red, wit)
        tx_ins.append(TxIn(prev.hash(), j % 2))
        total += amount
        c.funding.append(prev)
    outs = [TxOut(10000 + 100 * j, _foreign_spk(0 if same_dest else j)) for j in range(n_out - (1 if has_change else 0))]
    c.change_index = None
    if has_change:
        nm, red, wit, spk = wallet_script(kind, m, ids, 1, idx_base)
        add_lookups(nm, red, wit)
        pos = (n_out - 1) if change_pos is None else change_pos % n_out
        outs.insert(pos, TxOut(0, spk))
        c.change_index = pos
        outs[pos].amount = total - FEE - sum(o.amount for o in outs)
    else:
        outs[-1].amount = total - FEE - sum(o.amount for o in outs[:-1])
    tx = Tx(2, tx_ins, outs, 0, network=NET, segwit=segwit_flag)
    c.total_in = total
    c.out_amounts = [o.amount for o in outs]
    c.lookups = (tx_lookup, pubkey_lookup, redeem_lookup, witness_lookup)
    p = PSBT.create(tx)
    c.created = p.serialize()
    p.update(tx_lookup, pubkey_lookup, redeem_lookup, witness_lookup)
    if with_xpubs:
        hd = {}
        for i in ids:
            x = NamedHDPublicKey.from_hd_pub(HDPublicKey.parse(acct_xpub(i)), root(i).fingerprint().hex(), BASE)
            hd[x.raw_serialize()] = x
        p.hd_pubs = hd
    c.psbt = p
    c.updated = p.serialize()
    c.wallet = spec_wallet(m, ids)
    c.label = "%d-of-%d %s %din/%dout%s%s" % (m, n, kind, n_in, n_out, "" if has_change else " nochange",
                                               " xpubs" if with_xpubs else "")
    return c


def parse(raw):
    return PSBT.parse(BytesIO(raw), network=NET)


def b64(raw):
    return base64.b64encode(raw).decode("ascii")


# =========================================================================== recorder
class Rec:
    def __init__(self, bound):
        self.n = 0
        self.distinct = set()
        self.failures = []
        self.samples = []
        self.counts = {}
        self.bound = bound
        self.notes = []
        self.tag = ""
        self.t0 = time.time()

    def check(self, check_id, ok, inputs, violated, key=None):
        """one evaluation of an executable clause; `inputs` is a dict or a thunk returning one"""
        self.n += 1
        self.distinct.add((check_id, key if key is not None else self.n))
        if ok:
            if len(self.samples) < 3 and self.n % 11 == 1:
                inp = inputs() if callable(inputs) else inputs
                self.samples.append({"check": check_id, "inputs": _short(inp), "outcome": "ok"})
            return True
        k = self.counts.get(check_id, 0) + 1
        self.counts[check_id] = k
        if k <= 1:      # one witness per clause and job; the total is kept in failure_counts
            inp = inputs() if callable(inputs) else inputs
            self.failures.append({"what": check_id, "inputs": dict(inp, check=check_id, tag=self.tag),
                                  "violated": violated if isinstance(violated, list) else [violated]})
        return False

    def result(self):
        out = {"evaluations": self.n, "distinct": len(self.distinct), "failures": self.failures,
               "samples": self.samples, "bound": self.bound, "failure_counts": dict(self.counts)}
        if self.notes:
            out["notes"] = self.notes[:20]
        return out


def _short(d):
    return {k: (v if not isinstance(v, str) or len(v) < 200 else v[:200] + "...") for k, v in d.items()}


def outcome(fn, *a, **kw):
    """('ok', value) | ('raise', 'ExcName: text')"""
    try:
        with _quiet():
            return "ok", fn(*a, **kw)
    except Exception as e:   # the code under test may raise anything
        return "raise", "%s: %s" % (type(e).__name__, str(e).replace("\n", " ")[:160])


# =========================================================================== C10 drivers
UNK_GLOBAL = {b"\xfc\x05verif\x01": b"proprietary-value", b"\x0a": b"", b"\xf0key": b"\x00" * 3}
UNK_IN = {b"\x09": b"por-commitment", b"\x0f\x01\x02": b"\xff" * 70, b"\xfcX": b""}
UNK_OUT = {b"\x03": b"\x01", b"\xfc\x02ab": b"x" * 300}


def roundtrip_checks(rec, raw, stage, label, expect_state=None, full_b64=False):
    """(a) of C10 on one serialisation the library produced: parse/serialise identity, base64, spec agreement"""
    inp = lambda: {"stage": stage, "case": label, "psbt": b64(raw)}   # noqa: E731
    st, p = outcome(parse, raw)
    if not rec.check("C10.a.reparse", st == "ok", inp, "library cannot parse its own serialisation: %s" % (p,), key=(stage, raw)):
        return None
    s2 = p.serialize()
    rec.check("C10.a.roundtrip-identical", s2 == raw, inp, "parse(serialize(x)).serialize() != serialize(x)", key=(stage, raw))
    if stage.startswith(("created", "updated", "helper")) or stage.startswith("finalized") and full_b64:
        st64, p64 = outcome(lambda: PSBT.parse_base64(p.serialize_base64(), network=NET).serialize())
    else:       # parse_base64 == parse(BytesIO(base64_decode(.))): the decoding half is checked, the parse was done above
        from buidl.helper import base64_decode
        st64, p64 = outcome(lambda: base64_decode(p.serialize_base64()))
    rec.check("C10.a.base64", st64 == "ok" and p64 == raw and p.serialize_base64() == b64(raw), inp,
              "base64 round trip differs", key=(stage, raw))
    sst, state = outcome(S.psbt_parse, raw)
    ok = rec.check("C10.a.spec-valid", sst == "ok", inp, "emitted bytes are not a valid BIP174 PSBT per spec: %s" % (state,), key=(stage, raw))
    if ok:
        rec.check("C10.a.spec-canonical", S.psbt_ser(state) == raw, inp, "emission order differs from the promised (sorted) order", key=(stage, raw))
        if expect_state is not None:
            rec.check("C10.a.state", state == expect_state, inp, "abstract state differs from the expected state", key=(stage, raw))
    rec.check("C10.b.unsigned-tx-legacy", S.is_legacy_unsigned_tx(S.global_tx_bytes(raw)), inp,
              "global unsigned tx is not the non-witness serialisation with empty scriptSigs", key=(stage, raw))
    return p


def inject_unknowns(raw, tag=b""):
    st = S.psbt_parse(raw)
    st["unknown"].update({k + tag: v for k, v in UNK_GLOBAL.items()})
    for i in st["inputs"]:
        i["unknown"].update({k + tag: v for k, v in UNK_IN.items()})
    for o in st["outputs"]:
        o["unknown"].update({k + tag: v for k, v in UNK_OUT.items()})
    return S.psbt_ser(st)


def subsets(n):
    for r in range(n + 1):
        for t in itertools.combinations(range(n), r):
            yield t


def workflow(rec, case, tier, max_perms=None):
    """create -> update -> sign (every subset, every order) -> combine (every order) -> finalize -> extract"""
    label, n, m = case.label, case.n, case.m
    roundtrip_checks(rec, case.created, "created", label)
    roundtrip_checks(rec, case.updated, "updated", label)
    # unknown records (global / per input / per output) must survive every later stage
    base = inject_unknowns(case.updated)
    base_state = S.psbt_parse(base)
    p0 = roundtrip_checks(rec, base, "updated+unknown", label, base_state)
    if p0 is None:
        return
    # each cosigner signs a copy on its own
    signed_raw, signed_obj, signed_state = [], [], []
    for k, i in enumerate(case.ids):
        c = copy.deepcopy(p0)
        st, r = outcome(c.sign, root(i))
        if not rec.check("C10.c.sign", st == "ok" and r is True, {"case": label, "signer": k, "psbt": b64(base)},
                         "sign() did not sign: %s" % (r,)):
            return
        raw = c.serialize()
        if k == 0:      # the other signing entry point gives the same bytes
            c2 = copy.deepcopy(p0)
            privs = [root(i).traverse(np_.root_path).private_key for pin in c2.psbt_ins for np_ in pin.named_pubs.values()
                     if np_.root_fingerprint == root(i).fingerprint()]
            st2, _ = outcome(c2.sign_with_private_keys, privs)
            rec.check("C10.c.sign-entrypoints-agree", st2 == "ok" and c2.serialize() == raw,
                      {"case": label, "psbt": b64(base)}, "sign_with_private_keys result differs from sign")
        raw_u = raw
        po = roundtrip_checks(rec, raw_u, "signed-by-%d" % k, label)
        if po is None:
            return
        # a signer-specific unknown record, to make combining non-trivial
        stt = S.psbt_parse(raw_u)
        stt["unknown"][b"\xf1signer%d" % k] = b"note-%d" % k
        stt["inputs"][0]["unknown"][b"\xf2" + bytes([k])] = bytes([k]) * 5
        raw_u = S.psbt_ser(stt)
        st3, po = outcome(parse, raw_u)
        if not rec.check("C10.a.reparse", st3 == "ok", {"case": label, "stage": "signed+note", "psbt": b64(raw_u)}, "cannot parse: %s" % (po,)):
            return
        signed_raw.append(raw_u)
        signed_obj.append(po)
        signed_state.append(stt)
    # signatures are exactly: one per input per signer, each over the key of that signer
    for k, stt in enumerate(signed_state):
        okc = all(len(i["partial_sigs"]) == 1 for i in stt["inputs"])
        rec.check("C10.c.one-sig-per-input", okc, {"case": label, "signer": k, "psbt": b64(signed_raw[k])}, "a signer must add exactly one signature per input")

    cap = max_perms if max_perms is not None else (24 if tier == "thorough" else 6)
    combined_obj = {(): p0}
    seq_cache = {}
    for T in subsets(n):
        if not T:
            continue
        expect_state = S.merge_all([base_state] + [signed_state[k] for k in T])
        expect = S.psbt_ser(expect_state)
        perms = list(itertools.permutations(T))
        if len(perms) > cap:
            perms = perms[:cap // 2] + perms[-(cap - cap // 2):]
        for pi in perms:
            inp = lambda: {"case": label, "order": list(pi), "parts": [b64(signed_raw[k]) for k in pi], "expected": b64(expect)}  # noqa: E731
            # (i) left fold of combine in this order
            a = copy.deepcopy(signed_obj[pi[0]])
            st, r = "ok", None
            for k in pi[1:]:
                st, r = outcome(a.combine, copy.deepcopy(signed_obj[k]))
                if st != "ok":
                    break
            got = a.serialize() if st == "ok" else None
            rec.check("C10.c.combine-order-independent", got == expect, inp,
                      "combined PSBT differs from the merge of the parts (order %s): %s" % (list(pi), r), key=("comb", label, pi))
            if pi == perms[0] and got is not None:
                combined_obj[T] = a
            # (ii) right fold (tree shape): x1 + (x2 + (x3 ...))
            if len(pi) >= 3:
                b = copy.deepcopy(signed_obj[pi[-1]])
                for k in reversed(pi[1:-1]):
                    nb = copy.deepcopy(signed_obj[k])
                    nb.combine(b)
                    b = nb
                a2 = copy.deepcopy(signed_obj[pi[0]])
                a2.combine(b)
                rec.check("C10.c.combine-associative", a2.serialize() == expect, inp, "right-nested combine differs", key=("combr", label, pi))
        # (iii) sequential signing of ONE psbt passed from signer to signer, in every order (prefix-shared:
        #       the PSBT signed in order pi is the PSBT signed in order pi[:-1], then signed by pi[-1])
        seq_expect = S.psbt_ser(S.merge_all([base_state] + [_strip_notes(signed_state[k], base_state) for k in T]))
        for pi in perms:
            a = _signed_in_order(seq_cache, p0, case, pi)
            rec.check("C10.c.sign-order-independent", a.serialize() == seq_expect,
                      lambda: {"case": label, "order": list(pi), "base": b64(base), "expected": b64(seq_expect)},
                      "PSBT signed in order %s differs from the expected state" % (list(pi),), key=("seq", label, pi))
        if T in combined_obj:
            roundtrip_checks(rec, expect, "combined-%s" % ("".join(map(str, T))), label, expect_state)

    # finalize + extract: succeeds exactly when >= m distinct cosigners signed
    final_by_T = {}
    for T in subsets(n):
        if T not in combined_obj:
            continue
        obj = copy.deepcopy(combined_obj[T])
        before = obj.serialize()
        state = S.psbt_parse(before)
        inp = lambda: {"case": label, "signers": list(T), "m": m, "psbt": b64(before)}   # noqa: E731
        need = m if case.kind in KINDS_MULTI else 1
        st, r = outcome(obj.finalize)
        if len(T) < need:
            okr = st == "raise" and r.startswith("RuntimeError")
            rec.check("C10.c.finalize-below-threshold-raises", okr, inp, "finalize with %d < %d signers: %s %s" % (len(T), need, st, r))
            rec.check("C10.c.failed-finalize-leaves-psbt-unchanged", obj.serialize() == before, inp, "PSBT changed by a failing finalize()")
            st2, r2 = outcome(obj.final_tx)
            rec.check("C10.c.final_tx-below-threshold-raises", st2 == "raise", inp, "final_tx returned a transaction with %d < %d signers" % (len(T), need))
            continue
        if not rec.check("C10.c.finalize-at-threshold", st == "ok", inp, "finalize raised with %d >= %d signers: %s" % (len(T), need, r)):
            continue
        fraw = obj.serialize()
        exp_final = S.finalize(state)
        gst, gstate = outcome(S.psbt_parse, fraw)
        rec.check("C10.c.finalized-state", gst == "ok" and S.normalise_final(gstate) == exp_final, inp,
                  "finalized PSBT differs from the BIP174 finalizer result (m signatures in script order, metadata cleared, unknowns kept)")
        st2, tx = outcome(obj.final_tx)
        if rec.check("C10.c.final_tx-at-threshold", st2 == "ok", inp, "final_tx raised with %d >= %d signers: %s" % (len(T), need, tx)):
            traw = tx.serialize()
            rec.check("C10.c.final-tx-bytes", traw == S.extract(exp_final), lambda: dict(inp(), tx=traw.hex()), "extracted tx differs from the spec extractor")
            with _quiet():
                vs = all(tx.verify_input(k) for k in range(len(tx.tx_ins)))
            rec.check("C10.c.final-tx-verifies", vs, lambda: dict(inp(), tx=traw.hex()), "an input of the final transaction does not verify")
            final_by_T[T] = traw
        pf = roundtrip_checks(rec, fraw, "finalized-%s" % ("".join(map(str, T))), label)
        if pf is not None and T in final_by_T and (len(T) == need or tier == "thorough"):
            st3, tx3 = outcome(pf.final_tx)
            rec.check("C10.c.extract-after-reload", st3 == "ok" and tx3.serialize() == final_by_T[T],
                      lambda: {"case": label, "psbt": b64(fraw)}, "final_tx of the re-loaded finalized PSBT differs: %s" % (tx3 if st3 != "ok" else "bytes",))


def _signed_in_order(cache, p0, case, pi):
    if not pi:
        return p0
    if pi not in cache:
        a = copy.deepcopy(_signed_in_order(cache, p0, case, pi[:-1]))
        outcome(a.sign, root(case.ids[pi[-1]]))
        cache[pi] = a
    return cache[pi]


def _strip_notes(state, base_state):
    st = copy.deepcopy(state)
    st["unknown"] = dict(base_state["unknown"])
    for i, bi in zip(st["inputs"], base_state["inputs"]):
        i["unknown"] = dict(bi["unknown"])
    return st


def configs(kinds, ns, tier, ms=None, quick_combos=1):
    """(m, n, kind, n_in, n_out, idx): every m<=n; quick: one (inputs, outputs) combination per wallet, cycling
    through all nine; thorough: all nine for n <= 3, five for n == 4"""
    idx = 0
    for kind in kinds:
        for n in ns:
            for m in range(1, n + 1):
                if ms is not None and m not in ms:
                    continue
                idx += 1
                if tier == "thorough":
                    combos = IO_COMBOS if n <= 3 else IO_COMBOS[:5]
                else:
                    k0 = (idx * 4 + KINDS_MULTI.index(kind) * 3 + n) % 9
                    combos = [IO_COMBOS[k0], IO_COMBOS[(k0 + 4) % 9]][:quick_combos]
                for (a, b) in combos:
                    yield m, n, kind, a, b, idx


def job_workflow(kinds, ns, ms=None, quick_skip=False):
    def run(seed, tier):
        rec = Rec("wallets m-of-n for n in %s%s, kinds %s; %s; every signer subset; %s orders of combine (left and right "
                  "nested) and of sequential signing; finalize/extract for every subset; unknown records in every map"
                  % (list(ns), "" if ms is None else " m in %s" % list(ms), list(kinds),
                     "all 9 (inputs, outputs) in 1..3 x 1..3 (5 for n=4)" if tier == "thorough" else "one (inputs, outputs) pair per wallet, cycling over 1..3 x 1..3",
                     "all" if tier == "thorough" else "up to 6 per subset"))
        rec.tag = "workflow"
        if quick_skip and tier != "thorough":
            rec.bound = "n = 4 wallets are explored in the thorough tier only"
            return rec.result()
        for m, n, kind, a, b, idx in configs(kinds, ns, tier, ms):
            case = build_case(m, n, kind, a, b, change_pos=idx + seed, with_xpubs=(idx % 3 == 0 and a == 1), id_offset=seed % 3)
            workflow(rec, case, tier)
        return rec.result()
    return run


def job_single_key(seed, tier):
    rec = Rec("single-key wallets p2pkh, p2wpkh, p2sh-p2wpkh; 1..3 inputs x 1..2 outputs; signer subsets {} and {key}")
    rec.tag = "single-key"
    for kind in KINDS_SINGLE:
        for a in (1, 2, 3):
            for b in ((1, 2) if tier == "thorough" else (1 + (a % 2),)):
                case = build_case(1, 1, kind, a, b, change_pos=a + seed, with_xpubs=(a == 1), id_offset=seed % 3)
                workflow(rec, case, tier)
    return rec.result()


def job_segwit_flag(seed, tier):
    """(b): PSBT.create from a Tx built with segwit=True"""
    rec = Rec("PSBT.create(Tx(..., segwit=True)) for p2wsh, p2sh-p2wsh, p2wpkh, p2sh-p2wpkh wallets, 1..2 inputs; created and updated stages")
    rec.tag = "segwit-flag"
    for kind, m, n in (("p2wsh", 2, 2), ("p2sh-p2wsh", 1, 2), ("p2wpkh", 1, 1), ("p2sh-p2wpkh", 1, 1)):
        for a in (1, 2):
            case = build_case(m, n, kind, a, 2, segwit_flag=True, id_offset=seed % 3)
            roundtrip_checks(rec, case.created, "created(segwit Tx)", case.label)
            roundtrip_checks(rec, case.updated, "updated(segwit Tx)", case.label)
    return rec.result()


def job_helper_c11(seed, tier):
    return job_helper(seed, tier, combine=False)


def job_helper(seed, tier, combine=True):
    """create_multisig_psbt (p2sh) -> serialise -> signer parses and signs -> coordinator combines into its object"""
    from buidl.psbt_helper import create_multisig_psbt
    rec = Rec("create_multisig_psbt p2sh wallets 1-of-2, 2-of-2, 2-of-3 with change; coordinator object combined with each signer's parsed copy, both directions")
    rec.tag = "helper"
    for m, n in ((1, 2), (2, 2), (2, 3)):
        ids = list(range(seed % 3, seed % 3 + n))
        nm, red, _, spk = wallet_script("p2sh", m, ids, 0, 0)
        prev = funding_tx(0, spk, 100000)
        _, cred, _, cspk = wallet_script("p2sh", m, ids, 1, 0)
        xfp = lambda i: root(i).fingerprint().hex()   # noqa: E731
        kw = dict(public_key_records=[[xfp(i), acct_xpub(i), BASE] for i in ids],
                  input_dicts=[{"quorum_m": m, "path_dict": {xfp(i): BASE + "/0/0" for i in ids},
                                "prev_tx_dict": {"hex": prev.serialize().hex(), "hash_hex": prev.hash().hex(),
                                                 "output_idx": 0, "output_sats": 100000}}],
                  output_dicts=[{"sats": 30000, "address": _foreign_spk(1).address(NET)},
                                {"sats": 65000, "address": cred.address(NET), "quorum_m": m,
                                 "path_dict": {xfp(i): BASE + "/1/0" for i in ids}}],
                  fee_sats=5000)
        label = "helper %d-of-%d p2sh" % (m, n)
        st, p = outcome(create_multisig_psbt, **kw)
        if not rec.check("C10.helper.create", st == "ok", {"case": label}, "create_multisig_psbt raised: %s" % (p,)):
            continue
        raw = p.serialize()
        if combine:
            roundtrip_checks(rec, raw, "helper-created", label)
        wallet = spec_wallet(m, ids)
        hm = hdpubkey_map(ids)
        judge(rec, "C11.helper.describe", raw, S.psbt_parse(raw), wallet, hm, {"case": label}, honest=True)
        sst, rev = outcome(S.review, S.psbt_parse(raw), wallet)
        rec.check("C11.helper.review", sst == "ok" and rev["tx_fee_sats"] == 5000 and rev["is_change"] == [False, True],
                  {"case": label, "psbt": b64(raw)}, "spec review of the helper-built PSBT: %s" % (rev,))
        # C11.4: the builder's own cross-checks (fee, UTXO amount, UTXO hash, change address, input address)
        def bad(name, edit):
            kw2 = copy.deepcopy(kw)
            edit(kw2)
            got = outcome(create_multisig_psbt, **kw2)
            rec.check("C11.helper.rejects." + name, got[0] == "raise", {"case": label, "edit": name},
                      "create_multisig_psbt accepted inconsistent arguments (%s)" % name, key=(label, name))
        bad("fee-off-by-one", lambda k: k.__setitem__("fee_sats", 5001))
        bad("utxo-amount-wrong", lambda k: k["input_dicts"][0]["prev_tx_dict"].__setitem__("output_sats", 100001))
        bad("utxo-hash-wrong", lambda k: k["input_dicts"][0]["prev_tx_dict"].__setitem__("hash_hex", "00" * 32))
        bad("change-address-foreign", lambda k: k["output_dicts"][1].__setitem__("address", _foreign_spk(2).address(NET)))
        bad("change-path-wrong", lambda k: k["output_dicts"][1]["path_dict"].__setitem__(xfp(ids[0]), BASE + "/1/1"))
        bad("change-quorum-wrong", lambda k: k["output_dicts"][1].__setitem__("quorum_m", 2 if m == 1 else 1))
        bad("input-path-wrong", lambda k: k["input_dicts"][0]["path_dict"].__setitem__(xfp(ids[0]), BASE + "/0/1"))
        bad("input-quorum-wrong", lambda k: k["input_dicts"][0].__setitem__("quorum_m", 2 if m == 1 else 1))
        base_state = S.psbt_parse(raw)
        for k, i in enumerate(ids if combine else []):
            signer = parse(raw)
            signer.sign(root(i))
            sraw = signer.serialize()
            expect = S.psbt_ser(S.merge(base_state, S.psbt_parse(sraw)))
            coord = create_multisig_psbt(**kw)
            coord.combine(parse(sraw))
            craw = coord.serialize()
            inp = {"case": label, "signer": k, "created": b64(raw), "signed": b64(sraw), "combined": b64(craw)}
            rec.check("C10.helper.combine-into-created", craw == expect, inp,
                      "coordinator's created PSBT combined with the signer's copy differs from the merge (duplicate global xpub records?)")
            roundtrip_checks(rec, craw, "helper-combined", label)
            other = parse(sraw)
            other.combine(create_multisig_psbt(**kw))
            rec.check("C10.helper.combine-order-independent", other.serialize() == expect,
                      dict(inp, combined=b64(other.serialize())), "signer copy combined with the created PSBT differs from the merge")
    return rec.result()


# ---- (d): invalid data must be rejected when the PSBT is loaded
def _flip(b, pos):
    return b[:pos] + bytes([b[pos] ^ 1]) + b[pos + 1:]


def reject_catalogue(case, signed_state):
    """[(id, mutated state)]: each must be rejected by PSBT.parse (and by validate())"""
    out = []
    st = signed_state
    order = S.sig_order(st["inputs"][0])
    k0 = order[0]

    def mut(fn):
        s2 = copy.deepcopy(st)
        fn(s2)
        return s2
    out.append(("sig-bit-flipped", mut(lambda s: s["inputs"][0]["partial_sigs"].__setitem__(k0, _flip(s["inputs"][0]["partial_sigs"][k0], 12)))))
    if len(order) > 1:
        def swap(s):
            ps = s["inputs"][0]["partial_sigs"]
            ps[order[0]], ps[order[1]] = ps[order[1]], ps[order[0]]
        out.append(("sigs-swapped-between-keys", mut(swap)))
    if len(st["inputs"]) > 1:
        def cross(s):
            a, b = s["inputs"][0]["partial_sigs"], s["inputs"][1]["partial_sigs"]
            ka, kb = S.sig_order(s["inputs"][0])[0], S.sig_order(s["inputs"][1])[0]
            sa, sb = a.pop(ka), b.pop(kb)
            a[ka], b[kb] = sb, sa
        out.append(("sig-of-other-input", mut(cross)))
    out.append(("sig-sighash-byte-changed", mut(lambda s: s["inputs"][0]["partial_sigs"].__setitem__(k0, s["inputs"][0]["partial_sigs"][k0][:-1] + b"\x02"))))
    out.append(("sig-truncated", mut(lambda s: s["inputs"][0]["partial_sigs"].__setitem__(k0, s["inputs"][0]["partial_sigs"][k0][:20]))))

    def no_utxo(s):
        s["inputs"][0]["non_witness_utxo"] = None
        s["inputs"][0]["witness_utxo"] = None
        s["inputs"][0]["partial_sigs"][k0] = _flip(s["inputs"][0]["partial_sigs"][k0], 12)
    out.append(("invalid-sig-with-utxo-removed", mut(no_utxo)))
    other = funding_tx(5, Script([0x51]), 1)
    if st["inputs"][0]["non_witness_utxo"] is not None:
        out.append(("prev-tx-swapped", mut(lambda s: s["inputs"][0].__setitem__("non_witness_utxo", other.serialize()))))

        def amount(s):
            prev, _ = S.tx_parse(s["inputs"][0]["non_witness_utxo"])
            for o in prev["outs"]:
                o["amount"] += 1
            s["inputs"][0]["non_witness_utxo"] = S.tx_ser_legacy(prev)
        out.append(("prev-tx-amount-altered", mut(amount)))
    if st["inputs"][0]["witness_utxo"] is not None:
        def spk(s):
            a, sp = S.txout_parse(s["inputs"][0]["witness_utxo"])
            s["inputs"][0]["witness_utxo"] = S.txout_ser(a, sp[:-1] + bytes([sp[-1] ^ 1]))
        out.append(("witness-utxo-script-altered", mut(spk)))

        def amt(s):
            a, sp = S.txout_parse(s["inputs"][0]["witness_utxo"])
            s["inputs"][0]["witness_utxo"] = S.txout_ser(a + 1, sp)
        out.append(("witness-utxo-amount-altered", mut(amt)))       # BIP143 digest commits to the amount
    foreign = S.multisig_script(1, [S.derive_pub(case.wallet["cosigners"][0]["xpub"], [9, 9])])
    if st["inputs"][0]["redeem_script"] is not None and case.kind in ("p2sh",):
        out.append(("redeem-script-foreign", mut(lambda s: (s["inputs"][0].__setitem__("redeem_script", foreign), s["inputs"][0]["partial_sigs"].clear()))))
    if st["inputs"][0]["witness_script"] is not None:
        out.append(("witness-script-foreign", mut(lambda s: (s["inputs"][0].__setitem__("witness_script", foreign), s["inputs"][0]["partial_sigs"].clear()))))
    if case.kind == "p2sh-p2wsh":
        out.append(("redeem-script-foreign-program", mut(lambda s: (s["inputs"][0].__setitem__("redeem_script", S.p2wsh(b"\x55" * 32)), s["inputs"][0]["partial_sigs"].clear()))))
    return out


# mutations whose acceptance does not contradict the statement of C10 literally but that a loader following
# BIP174 refuses; reported as `notes`, not as failures
def job_reject(kinds):
    def run(seed, tier):
        rec = Rec("signed honest PSBTs (kinds %s, 1-of-1.. 2-of-3, 1..2 inputs), each mutated one thing at a time: invalid / swapped / "
                  "foreign-input / re-flagged / truncated partial signature, invalid signature with UTXO removed, swapped or altered "
                  "previous transaction, altered witness UTXO, foreign redeem/witness script; loaded with PSBT.parse" % (list(kinds),))
        rec.tag = "reject"
        for kind in kinds:
            for (m, n, a) in ((2, 2, 1), (2, 3, 2)) if kind in KINDS_MULTI else ((1, 1, 1), (1, 1, 2)):
                case = build_case(m, n, kind, a, 2, id_offset=seed % 3)
                p = copy.deepcopy(case.psbt)
                for i in case.ids[:2]:
                    p.sign(root(i))
                sraw = p.serialize()
                st = S.psbt_parse(sraw)
                honest = outcome(parse, sraw)
                if not rec.check("C10.d.honest-loads", honest[0] == "ok", {"case": case.label, "psbt": b64(sraw)}, "honest signed PSBT rejected: %s" % (honest[1],)):
                    continue
                for mid, s2 in reject_catalogue(case, st):
                    raw2 = S.psbt_ser(s2)
                    got = outcome(parse, raw2)
                    rec.check("C10.d.rejected-at-load." + mid, got[0] == "raise",
                              {"case": case.label, "mutation": mid, "psbt": b64(raw2), "honest": b64(sraw)},
                              "PSBT with mutation '%s' was accepted by PSBT.parse" % mid, key=(case.label, mid))
                    # the same mutation applied to a loaded object must be caught by validate()
            # address reuse: two inputs controlled by the SAME keys; a signature that is valid for input 0
            # replayed on input 1 (same key, same bytes) is not a signature of input 1
            m2, n2 = ((2, 2) if kind in KINDS_MULTI else (1, 1))
            case = build_case(m2, n2, kind, 2, 2, id_offset=seed % 3, reuse_address=True)
            p = copy.deepcopy(case.psbt)
            for i in case.ids[:2]:
                p.sign(root(i))
            sraw = p.serialize()
            st = S.psbt_parse(sraw)
            if rec.check("C10.d.honest-loads", outcome(parse, sraw)[0] == "ok", {"case": case.label + "/reuse", "psbt": b64(sraw)}, "honest signed PSBT (address reuse) rejected"):
                s2 = copy.deepcopy(st)
                shared = [k for k in s2["inputs"][0]["partial_sigs"] if k in s2["inputs"][1]["partial_sigs"]]
                if shared and s2["inputs"][0]["partial_sigs"][shared[0]] != s2["inputs"][1]["partial_sigs"][shared[0]]:
                    s2["inputs"][1]["partial_sigs"][shared[0]] = s2["inputs"][0]["partial_sigs"][shared[0]]
                    raw2 = S.psbt_ser(s2)
                    got = outcome(parse, raw2)
                    rec.check("C10.d.rejected-at-load.sig-replayed-from-earlier-input", got[0] == "raise",
                              {"case": case.label + "/reuse", "mutation": "sig-replayed-from-earlier-input", "psbt": b64(raw2), "honest": b64(sraw)},
                              "signature of input 0 replayed on input 1 (same key) was accepted by PSBT.parse", key=(case.label, "replay"))
        return rec.result()
    return run


def job_lossless(seed, tier):
    """valid BIP174 PSBTs (spec-built variations of honest ones) that the library accepts: the abstract state must
    survive parse -> serialize (title of C10: 'lossless')"""
    rec = Rec("honest 2-of-3 PSBTs (p2sh, p2wsh, p2sh-p2wsh) re-expressed with admissible BIP174 content: both UTXO records, "
              "sighash type 1/0x81, signature by a key outside the script, 65-byte keys absent; state after parse->serialize compared")
    rec.tag = "lossless"
    for kind in KINDS_MULTI:
        case = build_case(2, 3, kind, 2, 2, id_offset=seed % 3)
        p = copy.deepcopy(case.psbt)
        p.sign(root(case.ids[0]))
        sraw = p.serialize()
        st = S.psbt_parse(sraw)
        variants = []

        def var(name, fn):
            s2 = copy.deepcopy(st)
            fn(s2)
            variants.append((name, s2))
        var("as-signed", lambda s: None)

        def both(s):
            for i, f in enumerate(case.funding):
                tx = S.unsigned_tx_parse(s["tx"])
                prev, _ = S.tx_parse(f.serialize())
                o = prev["outs"][tx["ins"][i]["vout"]]
                s["inputs"][i]["non_witness_utxo"] = f.serialize()
                s["inputs"][i]["witness_utxo"] = S.txout_ser(o["amount"], o["spk"])
        if kind != "p2sh":      # BIP174: a witness UTXO accompanies the full previous tx only for segwit spends
            var("both-utxo-records", both)
        var("sighash-type-1", lambda s: s["inputs"][0].__setitem__("sighash", 1))
        var("sighash-type-0x81", lambda s: s["inputs"][1].__setitem__("sighash", 0x81))
        for name, s2 in variants:
            raw2 = S.psbt_ser(s2)
            got = outcome(parse, raw2)
            inp = {"case": case.label, "variant": name, "psbt": b64(raw2)}
            if not rec.check("C10.a.accepts-valid." + name, got[0] == "ok", inp, "valid PSBT rejected: %s" % (got[1],)):
                continue
            out = got[1].serialize()
            ost = outcome(S.psbt_parse, out)
            rec.check("C10.a.lossless." + name, ost[0] == "ok" and S.normalise_utxo(ost[1]) == S.normalise_utxo(s2), dict(inp, reserialised=b64(out)),
                      "records lost or changed by parse -> serialize", key=(case.label, name))
            roundtrip_checks(rec, out, "reserialised " + name, case.label)
    # degenerate shapes the library itself builds (PSBT.create): zero inputs (Bitcoin Core's createpsbt "[]" "[...]";
    # byte 5 of the unsigned transaction is then 0x00, the position of the BIP144 marker) and zero outputs
    from buidl.tx import Tx as _Tx, TxIn as _TxIn, TxOut as _TxOut
    for n_in, n_out in ((0, 0), (0, 1), (0, 2), (0, 3), (1, 0), (2, 0)):
        tins = [_TxIn(bytes([i + 1]) * 32, i) for i in range(n_in)]
        touts = [_TxOut(1000 * (j + 1), _foreign_spk(j)) for j in range(n_out)]
        for version, locktime in ((2, 0), (1, 0xFFFFFFFF)):
            label = "degenerate %d-in/%d-out v%d" % (n_in, n_out, version)
            got = outcome(lambda: PSBT.create(_Tx(version, tins, touts, locktime, network=NET)).serialize())
            if not rec.check("C10.a.create-degenerate", got[0] == "ok", {"case": label}, "PSBT.create(...).serialize() failed: %s" % (got[1],)):
                continue
            roundtrip_checks(rec, got[1], "created " + label, label)
    # global xpub records: the 78-byte extended key is data, whatever its version bytes / origin path
    case = build_case(2, 2, "p2wsh", 1, 2, with_xpubs=True, id_offset=seed % 3)
    st = S.psbt_parse(case.updated)
    s2 = copy.deepcopy(st)
    s2["xpubs"] = {bytes.fromhex("02575483") + k[4:]: v for k, v in st["xpubs"].items()}      # SLIP-132 Vpub
    xvars = [("xpub-slip132-version", S.psbt_ser(s2), NET)]
    for path, name in (("m/45'/0", "tpub-origin-m45-parsed-without-network"), ("m/48'", "tpub-origin-depth1-parsed-without-network"),
                       ("m", "tpub-master-parsed-without-network")):
        p = parse(case.created)
        hd = {}
        for i in case.ids:
            x = NamedHDPublicKey.from_hd_priv(root(i), path)
            hd[x.raw_serialize()] = x
        p.hd_pubs = hd
        xvars.append((name, p.serialize(), None))
    for name, raw2, net in xvars:
        inp = {"case": case.label, "variant": name, "psbt": b64(raw2), "network_argument": net}
        sst, s2 = outcome(S.psbt_parse, raw2)
        if not rec.check("C10.a.spec-valid", sst == "ok", inp, "not a valid PSBT per spec: %s" % (s2,)):
            continue
        got = outcome(lambda: PSBT.parse(BytesIO(raw2), network=net))
        if not rec.check("C10.a.accepts-valid." + name, got[0] == "ok", inp, "valid PSBT rejected: %s" % (got[1],)):
            continue
        out = got[1].serialize()
        ost = outcome(S.psbt_parse, out)
        rec.check("C10.a.lossless." + name, ost[0] == "ok" and ost[1] == s2, dict(inp, reserialised=b64(out)),
                  "records lost or changed by parse -> serialize (extended-key version bytes rewritten)", key=(case.label, name))
    return rec.result()


# =========================================================================== C11 drivers
def real_review(raw, hmap):
    """('raise', text) | ('ok', summary reduced to the C11 observables)"""
    st, p = outcome(parse, raw)
    if st != "ok":
        return "raise", "load: " + p
    st, d = outcome(p.describe_basic_multisig, hmap)
    if st != "ok":
        return "raise", "describe: " + d
    return "ok", {"total_input_sats": d["total_input_sats"], "total_output_sats": d["total_output_sats"],
                  "tx_fee_sats": d["tx_fee_sats"], "spend_sats": d["spend_sats"], "change_sats": d["change_sats"],
                  "is_change": [bool(o["is_change"]) for o in d["outputs_desc"]]}


def judge(rec, check_id, raw, state, wallet, hmap, inp, honest=False):
    """compare the library's summary with the spec's review of the SAME bytes"""
    real = real_review(raw, hmap)
    try:
        spec = ("ok", S.review(state, wallet))
    except S.Reject as e:
        spec = ("reject", str(e))
    inp = dict(inp, psbt=b64(raw), real=_js(real), spec=_js(spec))
    key = (check_id, raw)
    if honest:
        ok = real[0] == "ok" and spec[0] == "ok" and all(real[1][k] == spec[1][k] for k in real[1])
        rec.check(check_id + ".equals-spec", ok, inp, "summary of an honest PSBT differs from the spec review", key=key)
        if real[0] == "ok":
            r = real[1]
            rec.check(check_id + ".arithmetic", r["spend_sats"] + r["change_sats"] + r["tx_fee_sats"] == r["total_input_sats"]
                      and r["tx_fee_sats"] == r["total_input_sats"] - r["total_output_sats"], inp, "spend + change + fee != inputs", key=key)
        return real, spec
    if real[0] == "raise":
        rec.check(check_id, True, inp, "", key=key)          # rejecting is always faithful
        return real, spec
    r = real[1]
    viol = []
    if spec[0] == "reject":
        viol.append("summarised although the PSBT must be rejected: " + spec[1])
    else:
        s = spec[1]
        for j, (a, b) in enumerate(zip(r["is_change"], s["is_change"])):
            if a and not b:
                viol.append("output %d labelled change but it is not an output of the wallet" % j)
        for k in ("total_input_sats", "tx_fee_sats"):
            if r[k] != s[k]:
                viol.append("%s reported %d, actual %d" % (k, r[k], s[k]))
        if r["change_sats"] > s["change_sats"]:
            viol.append("change_sats reported %d, wallet-owned outputs sum to %d" % (r["change_sats"], s["change_sats"]))
    if r["spend_sats"] + r["change_sats"] + r["tx_fee_sats"] != r["total_input_sats"]:
        viol.append("spend + change + fee != inputs")
    rec.check(check_id, not viol, inp, viol, key=key)
    return real, spec


def _js(x):
    return [x[0], x[1]] if not isinstance(x[1], dict) else [x[0], dict(x[1])]


def tamper_catalogue(case, st):
    """[(id, tampered state)] -- one alteration each of an honest PSBT state (spec-level surgery, then re-serialised)"""
    out = []
    tx = S.unsigned_tx_parse(st["tx"])
    w = case.wallet
    kind = case.kind
    ci = case.change_index

    def mut(fn):
        s2 = copy.deepcopy(st)
        t2 = copy.deepcopy(tx)
        fn(s2, t2)
        s2["tx"] = S.tx_ser_legacy(t2)
        return s2

    def commit(script):
        if kind == "p2sh":
            return S.p2sh(S.hash160(script))
        if kind == "p2wsh":
            return S.p2wsh(S.sha256(script))
        return S.p2sh(S.hash160(S.p2wsh(S.sha256(script))))          # p2sh-p2wsh
    field = "redeem_script" if kind == "p2sh" else "witness_script"
    xp = [c["xpub"] for c in w["cosigners"]]
    fps = [c["fp"] for c in w["cosigners"]]
    n, m = case.n, case.m

    if ci is not None:
        hon = st["outputs"][ci]["bip32"]
        # 1. scriptPubKey swapped, change metadata kept
        for nm, spk in (("p2sh", S.p2sh(b"\x99" * 20)), ("p2wsh", S.p2wsh(b"\x98" * 32)), ("p2tr", b"\x51\x20" + b"\x97" * 32),
                        ("p2wpkh", S.p2wpkh(b"\x96" * 20)), ("p2pkh", S.p2pkh(b"\x95" * 20)), ("bare", b"\x51")):
            out.append(("out-spk-swapped-foreign-" + nm, mut(lambda s, t, spk=spk: t["outs"][ci].__setitem__("spk", spk))))
        # the committed hash belongs to the OTHER commitment type of the same script (p2sh <-> p2wsh)
        script = st["outputs"][ci][field]
        other_spk = S.p2sh(S.hash160(script)) if kind == "p2wsh" else S.p2wsh(S.sha256(script))
        out.append(("out-spk-other-commitment-type", mut(lambda s, t: t["outs"][ci].__setitem__("spk", other_spk))))
        # the honest hash under a DIFFERENT witness version: OP_1 / OP_16 <sha256(script)> is a taproot output key resp. an
        # unknown-version program, OP_1 <hash160(script)> likewise -- none of them commits to the script, the wallet cannot
        # spend them (genuine defect found by a sub-agent of the fourth seed round: the WitnessScript branch of
        # PSBTOut.validate compared commands[1] without looking at the output type; repaired by a fix: commit)
        for vop, vn in ((0x51, "v1"), (0x60, "v16")):
            out.append(("out-spk-honest-sha256-under-witness-%s" % vn,
                        mut(lambda s, t, vop=vop: t["outs"][ci].__setitem__("spk", bytes([vop, 0x20]) + S.sha256(script)))))
            out.append(("out-spk-honest-hash160-under-witness-%s" % vn,
                        mut(lambda s, t, vop=vop: t["outs"][ci].__setitem__("spk", bytes([vop, 0x14]) + S.hash160(script)))))

        # the honest scriptPubKey spelled with a NON-MINIMAL push of the hash (OP_PUSHDATA1): the template rules of BIP16 /
        # BIP141 are byte-exact, so this output is neither P2SH nor a witness program -- whoever knows the script can spend it
        # without any signature -- and must not be summarised as the wallet's change (reported by the C11-E sub-agent)
        def respell(spk):
            if spk[:2] == b"\xa9\x14":
                return b"\xa9\x4c\x14" + spk[2:]
            if spk[:2] in (b"\x00\x20", b"\x00\x14"):
                return b"\x00\x4c" + spk[1:]
            return None
        hon_spk = tx["outs"][ci]["spk"]
        if respell(hon_spk) is not None:
            out.append(("out-spk-honest-hash-nonminimal-push", mut(lambda s, t: t["outs"][ci].__setitem__("spk", respell(hon_spk)))))

        def nest_v(s, t, vop):
            # nested metadata (RedeemScript = P2WSH program of the honest script) under OP_n <hash160(RedeemScript)>
            s["outputs"][ci]["witness_script"] = script
            s["outputs"][ci]["redeem_script"] = S.p2wsh(S.sha256(script))
            t["outs"][ci]["spk"] = bytes([vop, 0x14]) + S.hash160(S.p2wsh(S.sha256(script)))
        out.append(("out-nested-metadata-under-witness-v1-program", mut(lambda s, t: nest_v(s, t, 0x51))))

        # the change metadata re-dressed as nested segwit (RedeemScript = P2WSH program of the honest script, which
        # becomes the WitnessScript): once under a foreign P2SH hash, once under the hash that really commits to it
        def nest(s, t, spk):
            s["outputs"][ci]["witness_script"] = script
            s["outputs"][ci]["redeem_script"] = S.p2wsh(S.sha256(script))
            t["outs"][ci]["spk"] = spk
        out.append(("out-nested-metadata-under-foreign-p2sh", mut(lambda s, t: nest(s, t, S.p2sh(b"\x99" * 20)))))
        out.append(("out-nested-metadata-committing", mut(lambda s, t: nest(s, t, S.p2sh(S.hash160(S.p2wsh(S.sha256(script))))))))

        def set_change(s, t, script, bip32):
            s["outputs"][ci][field] = script
            if kind == "p2sh-p2wsh":
                s["outputs"][ci]["redeem_script"] = S.p2wsh(S.sha256(script))
            s["outputs"][ci]["bip32"] = bip32
            t["outs"][ci]["spk"] = commit(script)
        # 2. metadata pointing to a different quorum (scriptPubKey commits to that script)
        for m2 in range(1, n + 1):
            if m2 != m:
                out.append(("out-quorum-m-%d" % m2, mut(lambda s, t, m2=m2: set_change(s, t, S.multisig_script(m2, sorted(hon)), dict(hon)))))
        extra = S.derive_pub(xp[0], [1, 77])
        out.append(("out-quorum-extra-key", mut(lambda s, t: set_change(s, t, S.multisig_script(m, sorted(list(hon) + [extra])), dict(hon)))))
        out.append(("out-quorum-extra-key-declared", mut(lambda s, t: set_change(
            s, t, S.multisig_script(m, sorted(list(hon) + [extra])), {**hon, extra: fps[0] + S.path_bytes(BASE_IDX + [1, 77])}))))
        if n >= 2:
            fewer = sorted(hon)[:-1]
            out.append(("out-quorum-fewer-keys", mut(lambda s, t: set_change(s, t, S.multisig_script(min(m, n - 1), fewer), {k: hon[k] for k in fewer}))))
            # 3. every key of the "change" script derived from ONE cosigner
            one = {}
            for j in range(n):
                k = S.derive_pub(xp[0], [1, 10 + j])
                one[k] = fps[0] + S.path_bytes(BASE_IDX + [1, 10 + j])
            out.append(("out-all-keys-from-one-cosigner", mut(lambda s, t: set_change(s, t, S.multisig_script(m, sorted(one)), one))))
            # ... the same, but claiming the n distinct fingerprints
            lie = {k: fps[j] + v[4:] for j, (k, v) in enumerate(sorted(one.items()))}
            out.append(("out-one-cosigner-keys-claiming-all-fingerprints", mut(lambda s, t: set_change(s, t, S.multisig_script(m, sorted(lie)), lie))))
            # one honest key replaced by a second key of cosigner 0
            k_last = [k for k, v in hon.items() if v[:4] == fps[-1]][0]
            dup = S.derive_pub(xp[0], [1, 55])
            rep = {k: v for k, v in hon.items() if k != k_last}
            rep[dup] = fps[0] + S.path_bytes(BASE_IDX + [1, 55])
            out.append(("out-one-key-replaced-by-second-key-of-a-cosigner", mut(lambda s, t: set_change(s, t, S.multisig_script(m, sorted(rep)), rep))))
        # 4. wrong derivation path / fingerprint in the change metadata (script unchanged)
        out.append(("out-path-last-index-altered", mut(lambda s, t: s["outputs"][ci].__setitem__("bip32", {k: v[:-4] + S.le(9, 4) for k, v in hon.items()}))))
        out.append(("out-path-branch-altered", mut(lambda s, t: s["outputs"][ci].__setitem__("bip32", {k: v[:-8] + S.le(0, 4) + v[-4:] for k, v in hon.items()}))))
        out.append(("out-path-too-short", mut(lambda s, t: s["outputs"][ci].__setitem__("bip32", {k: v[:12] for k, v in hon.items()}))))
        k0 = sorted(hon)[0]
        out.append(("out-foreign-fingerprint", mut(lambda s, t: s["outputs"][ci]["bip32"].__setitem__(k0, b"\xde\xad\xbe\xef" + hon[k0][4:]))))
        if n >= 2:
            def swapfp(s, t):
                ks = sorted(hon)
                b = s["outputs"][ci]["bip32"]
                b[ks[0]], b[ks[1]] = hon[ks[1]][:4] + hon[ks[0]][4:], hon[ks[0]][:4] + hon[ks[1]][4:]
            out.append(("out-fingerprints-exchanged", mut(swapfp)))
        out.append(("out-derivations-partial", mut(lambda s, t: s["outputs"][ci]["bip32"].pop(k0))))
        # 5. attached script is foreign (derivations kept)
        fkeys = sorted(S.derive_pub(xp[j % n], [3, j]) for j in range(n))
        out.append(("out-script-foreign-hash-mismatch", mut(lambda s, t: s["outputs"][ci].__setitem__(field, S.multisig_script(m, fkeys)))))
        # 6. scripts that merely LOOK like the wallet's multisig
        hk = sorted(hon)
        atk = [S.derive_pub(xp[0], [7, j]) for j in range(n)]
        disguised = bytes([0x50 + m]) + b"".join(b"\x21" + k for k in hk) + b"\x75" * (n + 1) + b"\x51" + \
            b"".join(b"\x21" + k for k in atk) + bytes([0x50 + n, 0xAE])
        out.append(("out-disguised-script-attacker-keys", mut(lambda s, t: set_change(s, t, disguised, dict(hon)))))
        bad_n = bytes([0x50 + m]) + b"".join(b"\x21" + k for k in hk) + bytes([0x50 + n + 1, 0xAE])
        out.append(("out-script-op_n-wrong", mut(lambda s, t: set_change(s, t, bad_n, dict(hon)))))
        # the honest commands in another ORDER (OP_n moved in front of the last key / the whole tail rotated): same multiset of
        # commands, same command count, every key re-derives -- but not an m-of-n script (CHECKMULTISIG reads a key as n)
        if n >= 2:
            moved = bytes([0x50 + m]) + b"".join(b"\x21" + k for k in hk[:-1]) + bytes([0x50 + n]) + b"\x21" + hk[-1] + b"\xae"
            out.append(("out-script-commands-permuted-op_n-before-last-key", mut(lambda s, t: set_change(s, t, moved, dict(hon)))))
        swapped = bytes([0x50 + n]) + b"".join(b"\x21" + k for k in hk) + bytes([0x50 + m, 0xAE])
        if m != n:
            out.append(("out-script-commands-permuted-m-and-n-exchanged", mut(lambda s, t: set_change(s, t, swapped, dict(hon)))))
        front = b"\xae" + bytes([0x50 + m]) + b"".join(b"\x21" + k for k in hk) + bytes([0x50 + n])
        out.append(("out-script-commands-permuted-checkmultisig-first", mut(lambda s, t: set_change(s, t, front, dict(hon)))))
        nonms = bytes([0x50 + m]) + b"".join(b"\x21" + k for k in hk) + bytes([0x50 + n, 0xAF])   # CHECKMULTISIGVERIFY
        out.append(("out-script-not-checkmultisig", mut(lambda s, t: set_change(s, t, nonms, dict(hon)))))
        # 7. a second change output (genuine): at most refused, never mis-added
        if len(tx["outs"]) >= 2:
            oj = [j for j in range(len(tx["outs"])) if j != ci][0]

            def second(s, t):
                keys = {}
                for j in range(n):
                    k = S.derive_pub(xp[j], [1, 1])
                    keys[k] = fps[j] + S.path_bytes(BASE_IDX + [1, 1])
                sc = S.multisig_script(m, sorted(keys))
                s["outputs"][oj][field] = sc
                if kind == "p2sh-p2wsh":
                    s["outputs"][oj]["redeem_script"] = S.p2wsh(S.sha256(sc))
                s["outputs"][oj]["bip32"] = keys
                t["outs"][oj]["spk"] = commit(sc)
            out.append(("out-second-change", mut(second)))
            # a spend output dressed with the change output's metadata
            out.append(("out-spend-dressed-as-change", mut(lambda s, t: s["outputs"].__setitem__(oj, copy.deepcopy(s["outputs"][ci])))))
        # 8. amounts
        out.append(("out-change-amount-lowered", mut(lambda s, t: t["outs"][ci].__setitem__("amount", t["outs"][ci]["amount"] - 40000))))
    out.append(("out-amount-raised", mut(lambda s, t: t["outs"][0].__setitem__("amount", t["outs"][0]["amount"] + 1234))))

    # ---- inputs
    i0 = st["inputs"][0]
    if i0["non_witness_utxo"] is not None:
        prev, _ = S.tx_parse(i0["non_witness_utxo"])
        vout = tx["ins"][0]["vout"]
        spk0 = prev["outs"][vout]["spk"]
        amt0 = prev["outs"][vout]["amount"]

        def prev_amount(s, t):
            p2 = copy.deepcopy(prev)
            p2["outs"][vout]["amount"] += 5000000
            s["inputs"][0]["non_witness_utxo"] = S.tx_ser_witness(p2) if p2["segwit"] else S.tx_ser_legacy(p2)
        out.append(("in-prev-tx-amount-altered", mut(prev_amount)))
        other = funding_tx(6, Script.parse(raw=spk0), amt0)
        out.append(("in-prev-tx-swapped-same-output", mut(lambda s, t: s["inputs"][0].__setitem__("non_witness_utxo", other.serialize()))))
        out.append(("in-extra-witness-utxo-inflated-amount", mut(lambda s, t: s["inputs"][0].__setitem__("witness_utxo", S.txout_ser(amt0 + 5000000, spk0)))))
        out.append(("in-extra-witness-utxo-deflated-amount", mut(lambda s, t: s["inputs"][0].__setitem__("witness_utxo", S.txout_ser(amt0 - 90000, spk0)))))

        def only_w(s, t, delta):
            s["inputs"][0]["non_witness_utxo"] = None
            s["inputs"][0]["witness_utxo"] = S.txout_ser(amt0 + delta, spk0)
        out.append(("in-witness-utxo-instead-of-prev-tx-inflated", mut(lambda s, t: only_w(s, t, 5000000))))
        out.append(("in-witness-utxo-instead-of-prev-tx-same-amount", mut(lambda s, t: only_w(s, t, 0))))
        out.append(("in-outpoint-index-altered", mut(lambda s, t: t["ins"][0].__setitem__("vout", 1 - vout))))
    if i0["witness_utxo"] is not None and i0["non_witness_utxo"] is None:
        a0, sp0 = S.txout_parse(i0["witness_utxo"])
        out.append(("in-witness-utxo-script-foreign", mut(lambda s, t: s["inputs"][0].__setitem__("witness_utxo", S.txout_ser(a0, S.p2wsh(b"\x66" * 32))))))
        # a segwit input carrying BOTH records (a foreign updater may add the full previous tx): the two must agree
        full0 = case.funding[0].serialize()

        def both(s, t, delta):
            s["inputs"][0]["non_witness_utxo"] = full0
            s["inputs"][0]["witness_utxo"] = S.txout_ser(a0 + delta, sp0)
        out.append(("in-both-records-witness-amount-deflated", mut(lambda s, t: both(s, t, -90000))))
        out.append(("in-both-records-witness-amount-inflated", mut(lambda s, t: both(s, t, 5000000))))
        out.append(("in-both-records-agreeing", mut(lambda s, t: both(s, t, 0))))
    fscript = S.multisig_script(m, sorted(S.derive_pub(xp[j % n], [3, j]) for j in range(n)))
    out.append(("in-script-foreign", mut(lambda s, t: s["inputs"][0].__setitem__(field, fscript))))
    ib = i0["bip32"]
    ik0 = sorted(ib)[0]
    out.append(("in-path-altered", mut(lambda s, t: s["inputs"][0]["bip32"].__setitem__(ik0, ib[ik0][:-4] + S.le(8, 4)))))
    out.append(("in-foreign-fingerprint", mut(lambda s, t: s["inputs"][0]["bip32"].__setitem__(ik0, b"\xde\xad\xbe\xef" + ib[ik0][4:]))))
    out.append(("in-derivation-foreign-key", mut(lambda s, t: (s["inputs"][0]["bip32"].pop(ik0), s["inputs"][0]["bip32"].__setitem__(
        S.derive_pub(xp[0], [3, 3]), ib[ik0])))))
    out.append(("in-derivations-partial", mut(lambda s, t: s["inputs"][0]["bip32"].pop(ik0))))
    out.append(("in-no-utxo", mut(lambda s, t: (s["inputs"][0].__setitem__("non_witness_utxo", None), s["inputs"][0].__setitem__("witness_utxo", None)))))
    return out


def job_describe(kind, ns, ms=None, quick_skip=False):
    def run(seed, tier):
        rec = Rec("%s wallets m-of-n for n in %s%s; %s; honest PSBT with change in every position and without change, explicit hdpubkey_map and the "
                  "PSBT's own global xpubs; then the full tampering catalogue (one alteration each, ~45 entries), each judged against "
                  "spec.review of the same bytes" % (kind, list(ns), "" if ms is None else " m in %s" % list(ms),
                                                     "all (inputs, outputs) in 1..3 x 1..3 (5 for n=4)" if tier == "thorough" else "two (inputs, outputs) pairs per wallet"))
        if quick_skip and tier != "thorough":
            rec.bound = "n = 4 wallets are explored in the thorough tier only"
            return rec.result()
        rec.tag = "describe"
        for m, nn, k, a, b, idx in configs((kind,), ns, tier, ms, quick_combos=2):
            ids = list(range(seed % 3, seed % 3 + nn))
            hmap = hdpubkey_map(ids)
            # honest, no change
            if b >= 1:
                c0 = build_case(m, nn, k, a, b, has_change=False, id_offset=seed % 3)
                judge(rec, "C11.honest-nochange", c0.updated, S.psbt_parse(c0.updated), c0.wallet, hmap, {"case": c0.label}, honest=True)
            case = build_case(m, nn, k, a, b, change_pos=idx + seed, id_offset=seed % 3)
            st = S.psbt_parse(case.updated)
            real, spec = judge(rec, "C11.honest", case.updated, st, case.wallet, hmap, {"case": case.label}, honest=True)
            if spec[0] == "ok":
                exp = [j == case.change_index for j in range(b)]
                rec.check("C11.spec-sanity", spec[1]["is_change"] == exp and spec[1]["tx_fee_sats"] == FEE,
                          {"case": case.label}, "spec review of the honest PSBT is not the constructed truth: %s" % (spec[1],))
            if idx % 2 == 0 or tier == "thorough":
                cx = build_case(m, nn, k, a, b, change_pos=idx + seed, with_xpubs=True, id_offset=seed % 3)
                judge(rec, "C11.honest-own-xpubs", cx.updated, S.psbt_parse(cx.updated), cx.wallet, None, {"case": cx.label}, honest=True)
            for tid, s2 in tamper_catalogue(case, st):
                raw2 = S.psbt_ser(s2)
                judge(rec, "C11.tamper." + tid, raw2, s2, case.wallet, hmap, {"case": case.label, "tamper": tid, "honest": b64(case.updated)})
            if idx % 2 == 0 or tier == "thorough":
                # several payments to ONE address (added after seeded change C11-D: spend amounts keyed by address):
                # the summary must still account for every output
                cd = build_case(m, nn, k, 1, 3, change_pos=idx + seed, id_offset=seed % 3, same_dest=True)
                judge(rec, "C11.honest-repeated-destination", cd.updated, S.psbt_parse(cd.updated), cd.wallet, hmap, {"case": cd.label + " same-dest"}, honest=True)
                cd0 = build_case(m, nn, k, 1, 2, has_change=False, id_offset=seed % 3, same_dest=True)
                judge(rec, "C11.honest-repeated-destination-nochange", cd0.updated, S.psbt_parse(cd0.updated), cd0.wallet, hmap, {"case": cd0.label + " same-dest"}, honest=True)
            if case.change_index is not None and (idx % 2 == 0 or tier == "thorough"):
                history_foreign_wallet(rec, case, st, hmap, m, nn, k, a, b, idx + seed, seed % 3)
        return rec.result()
    return run


_fresh_index = [1000]


def history_foreign_wallet(rec, case, st, hmap, m, nn, kind, n_in, n_out, change_pos, id_offset):
    """history entry (added after seeded change C11-C: derived cosigner keys memoised per (fingerprint, path) across
    describe calls): FIRST a self-consistent PSBT of a FOREIGN wallet whose key origins carry the reviewer's fingerprints is
    described through its own global xpubs (a legitimate call whose answer is not judged), THEN the reviewer's PSBT with the
    change output redirected to that foreign wallet's script -- annotated with the reviewer's fingerprints and the same paths --
    is described with the trusted hdpubkey_map.  Whatever the library remembers from the first call must not make the second
    output look like change."""
    fo = id_offset + 5                                        # cosigners 5.. : keys the reviewer does not hold
    # address indexes nothing else in this process has presented before (a memo keyed by fingerprint and path would already
    # hold the reviewer's own keys for the indexes of the honest cases, and the foreign PSBT would then simply be refused)
    _fresh_index[0] += 10
    cx = build_case(m, nn, kind, n_in, n_out, change_pos=change_pos, with_xpubs=True, id_offset=fo, idx_base=_fresh_index[0])
    fst = S.psbt_parse(cx.updated)
    relabel = {root(fo + j).fingerprint(): root(id_offset + j).fingerprint() for j in range(nn)}

    def rl(v):
        return relabel.get(v[:4], v[:4]) + v[4:]
    fst["xpubs"] = {kk: rl(v) for kk, v in fst["xpubs"].items()}
    for sec in fst["inputs"] + fst["outputs"]:
        if sec.get("bip32"):
            sec["bip32"] = {kk: rl(v) for kk, v in sec["bip32"].items()}
    poison_raw = S.psbt_ser(fst)
    field = "redeem_script" if kind == "p2sh" else "witness_script"
    ci = case.change_index
    fch = fst["outputs"][cx.change_index]
    ftx = S.unsigned_tx_parse(fst["tx"])
    s2 = copy.deepcopy(st)
    t2 = S.unsigned_tx_parse(st["tx"])
    s2["outputs"][ci][field] = fch[field]
    s2["outputs"][ci]["bip32"] = dict(fch["bip32"])
    t2["outs"][ci]["spk"] = ftx["outs"][cx.change_index]["spk"]
    s2["tx"] = S.tx_ser_legacy(t2)
    raw2 = S.psbt_ser(s2)
    inp = {"case": case.label, "tamper": "change-to-foreign-wallet-claiming-reviewer-fingerprints", "honest": b64(case.updated),
           "described_before": b64(poison_raw)}
    # (the tampered PSBT must not be shown to the library before the foreign one: a memo would then hold the reviewer's own keys)
    first = real_review(poison_raw, None)
    rec.check("C11.history.foreign-psbt-described-first.sanity", first[0] in ("ok", "raise"), inp, "")
    judge(rec, "C11.history.out-foreign-wallet-after-foreign-psbt-described", raw2, s2, case.wallet, hmap,
          dict(inp, first_call=_js(first)))
    # and the foreign PSBT itself, now under the trusted map: none of its outputs belongs to the reviewer's wallet
    judge(rec, "C11.history.foreign-psbt-under-trusted-map", poison_raw, fst, case.wallet, hmap, dict(inp, first_call=_js(first)))


# =========================================================================== parser strictness (reported as notes)
def _assemble(st, g_extra=b"", in_extra=None, out_extra=None):
    """psbt_ser with raw record bytes appended to chosen maps (lets us build duplicate / ill-sized records)"""
    out = S.PSBT_MAGIC + S.kv(b"\x00", st["tx"])
    for k in sorted(st["xpubs"]):
        out += S.kv(b"\x01" + k, st["xpubs"][k])
    for k in sorted(st["unknown"]):
        out += S.kv(k, st["unknown"][k])
    out += g_extra + b"\x00"
    for j, i in enumerate(st["inputs"]):
        out += S.input_map_ser(i)[:-1] + ((in_extra or {}).get(j, b"")) + b"\x00"
    for j, o in enumerate(st["outputs"]):
        out += S.output_map_ser(o)[:-1] + ((out_extra or {}).get(j, b"")) + b"\x00"
    return out


def malformed_catalogue(case):
    p = copy.deepcopy(case.psbt)
    p.sign(root(case.ids[0]))
    st = S.psbt_parse(inject_unknowns(p.serialize()))
    i0, o0 = st["inputs"][0], st["outputs"][case.change_index]
    xk = sorted(st["xpubs"])[0]
    sk = sorted(i0["partial_sigs"])[0]
    bk = sorted(i0["bip32"])[0]
    ok_ = sorted(o0["bip32"])[0]
    utxo = (b"\x00", i0["non_witness_utxo"]) if i0["non_witness_utxo"] is not None else (b"\x01", i0["witness_utxo"])
    script = (b"\x04", i0["redeem_script"]) if i0["redeem_script"] is not None else (b"\x05", i0["witness_script"])
    oscript = (b"\x00", o0["redeem_script"]) if o0["redeem_script"] is not None else (b"\x01", o0["witness_script"])
    ci = case.change_index
    cat = [
        ("dup-global-unsigned-tx", _assemble(st, g_extra=S.kv(b"\x00", st["tx"]))),
        ("dup-global-xpub", _assemble(st, g_extra=S.kv(b"\x01" + xk, st["xpubs"][xk]))),
        ("dup-global-unknown", _assemble(st, g_extra=S.kv(b"\xf0key", b"other"))),
        ("dup-global-unknown-empty-value", _assemble(st, g_extra=S.kv(b"\x0a", b""))),
        ("dup-input-utxo", _assemble(st, in_extra={0: S.kv(*utxo)})),
        ("dup-input-partial-sig", _assemble(st, in_extra={0: S.kv(b"\x02" + sk, i0["partial_sigs"][sk])})),
        ("dup-input-sighash", _assemble(st, in_extra={0: S.kv(b"\x03", S.le(1, 4)) + S.kv(b"\x03", S.le(1, 4))})),
        ("dup-input-script", _assemble(st, in_extra={0: S.kv(*script)})),
        ("dup-input-bip32", _assemble(st, in_extra={0: S.kv(b"\x06" + bk, i0["bip32"][bk][:4] + S.path_bytes([1, 2]))})),
        ("dup-input-unknown-empty-value", _assemble(st, in_extra={0: S.kv(b"\xfcX", b"")})),
        ("dup-output-script", _assemble(st, out_extra={ci: S.kv(*oscript)})),
        ("dup-output-bip32", _assemble(st, out_extra={ci: S.kv(b"\x02" + ok_, o0["bip32"][ok_][:4] + S.path_bytes([1, 2]))})),
        ("keylen-sighash", _assemble(st, in_extra={0: S.kv(b"\x03\x00", S.le(1, 4))})),
        ("keylen-partial-sig-short", _assemble(st, in_extra={0: S.kv(b"\x02" + sk[:10], i0["partial_sigs"][sk])})),
        ("keylen-input-bip32-short", _assemble(st, in_extra={0: S.kv(b"\x06" + bk[:20], i0["bip32"][bk])})),
        ("keylen-global-xpub-short", _assemble(st, g_extra=S.kv(b"\x01" + xk[:70], st["xpubs"][xk]))),
        ("keylen-global-tx", _assemble(dict(st, tx=st["tx"]), g_extra=b"")[:5] + S.kv(b"\x00\x00", st["tx"]) + _assemble(st)[5 + len(S.kv(b"\x00", st["tx"])):]),
        ("valuelen-sighash-1-byte", _assemble(st, in_extra={0: S.kv(b"\x03", b"\x01")})),
        ("valuelen-bip32-not-multiple-of-4", _assemble(st, in_extra={0: S.kv(b"\x06" + S.derive_pub(case.wallet["cosigners"][0]["xpub"], [4, 4]), b"\x00" * 7)})),
        ("trailing-bytes", _assemble(st) + b"\x00"),
        ("missing-last-output-map", _assemble(st)[:-len(S.output_map_ser(st["outputs"][-1]))]),
    ]
    tx = S.unsigned_tx_parse(st["tx"])
    tx["ins"][0]["script_sig"] = b"\x51"
    cat.append(("unsigned-tx-nonempty-scriptsig", _assemble(dict(st, tx=S.tx_ser_legacy(tx)))))
    return cat


def job_parser_strictness(seed, tier):
    rec = Rec("a signed 2-of-2 p2sh and p2wsh PSBT with global xpubs and unknown records, each given one BIP174-invalid feature "
              "(duplicate key of every record type, wrong key/value sizes, trailing/missing bytes, non-empty scriptSig in the "
              "unsigned tx); acceptance by PSBT.parse is recorded as a NOTE (strictness is not part of the statement of C10)")
    rec.tag = "parser-strictness"
    for kind in ("p2sh", "p2wsh"):
        case = build_case(2, 2, kind, 1, 2, with_xpubs=True, id_offset=seed % 3)
        for mid, raw in malformed_catalogue(case):
            rec.check("C10.strict.spec-rejects." + mid, not S.parses(raw), {"case": case.label, "malformation": mid, "psbt": b64(raw)},
                      "tooling: the spec parser accepts the malformed PSBT", key=(kind, mid))
            got = outcome(parse, raw)
            rec.n += 1
            rec.distinct.add(("real", kind, mid))
            if got[0] == "ok":
                rec.notes.append({"case": case.label, "accepted_malformation": mid, "psbt": b64(raw)})
    return rec.result()
