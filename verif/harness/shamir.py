"""API-level harnesses for C15 (SLIP39): straight-line compositions of the real functions of buidl/shamir.py.
Index <-> word translation goes through the real `SLIP39` list; nothing is re-implemented."""
from buidl.helper import big_endian_to_int
from buidl.shamir import (SLIP39, Share, ShareSet, rs1024_create_checksum, rs1024_polymod, rs1024_verify_checksum)


# ------------------------------------------------------------------ RS1024
def polymod4(v0, v1, v2, v3):
    """the real polymod on four words: the first three make the 30-bit state arbitrary, the fourth
    iteration is then one generic step of the state machine"""
    return rs1024_polymod([v0, v1, v2, v3])


def polymod_xor3(a0, a1, a2, a3, b0, b1, b2, b3):
    """polymod(a) ^ polymod(b) ^ polymod(a ^ b): constant (= polymod(0)) iff the map is GF(2)-affine"""
    return (rs1024_polymod([a0, a1, a2, a3]) ^ rs1024_polymod([b0, b1, b2, b3])
            ^ rs1024_polymod([a0 ^ b0, a1 ^ b1, a2 ^ b2, a3 ^ b3]))


def checksum_then_verify(d0, d1, d2, d3):
    data = [d0, d1, d2, d3]
    return rs1024_verify_checksum(b"shamir", data + rs1024_create_checksum(b"shamir", data))


def polymod(values):
    return rs1024_polymod(list(values))


def create_checksum(data):
    return rs1024_create_checksum(b"shamir", list(data))


def verify_checksum(data):
    return rs1024_verify_checksum(b"shamir", list(data))


# ------------------------------------------------------------------ GF(256)
def gf_mul(a, b):
    """product as the real interpolation code computes it from its tables"""
    if a == 0 or b == 0:
        return 0
    return ShareSet.exp[(ShareSet.log2[a] + ShareSet.log2[b]) % 255]


def interpolate2(x, x0, y0, x1, y1):
    return ShareSet.interpolate(x, [(x0, y0), (x1, y1)])


def interpolate3(x, x0, y0, x1, y1, x2, y2):
    return ShareSet.interpolate(x, [(x0, y0), (x1, y1), (x2, y2)])


def interpolate(x, points):
    return ShareSet.interpolate(x, [(a, bytes(b)) for a, b in points])


# ------------------------------------------------------------------ share <-> mnemonic
def share_indices(share_bit_length, id, exponent, group_index, group_threshold, group_count, member_index,
                  member_threshold, value):
    """word indices of Share(...).mnemonic()"""
    s = Share(share_bit_length, id, exponent, group_index, group_threshold, group_count, member_index,
              member_threshold, value)
    return [SLIP39[w] for w in s.mnemonic().split()]


def words(idx):
    return " ".join(SLIP39[i] for i in idx)


def parse_indices(idx):
    """fields of Share.parse of the mnemonic with the given word indices"""
    s = Share.parse(words(idx))
    return {"id": s.id, "exponent": s.exponent, "group_index": s.group_index, "group_threshold": s.group_threshold,
            "group_count": s.group_count, "member_index": s.member_index, "member_threshold": s.member_threshold,
            "value": s.bytes, "share_bit_length": s.share_bit_length}


def reencode(idx):
    """Share.parse(m).mnemonic() as indices"""
    return [SLIP39[w] for w in Share.parse(words(idx)).mnemonic().split()]


# ------------------------------------------------------------------ encryption
def encrypt(payload, id, exponent, passphrase):
    return ShareSet.encrypt(payload, id, exponent, passphrase)


def decrypt(payload, id, exponent, passphrase):
    """decrypt as reachable from the API: a ShareSet of one share carrying id and exponent"""
    s = Share(len(payload) * 8, id, exponent, 0, 1, 1, 0, 1, big_endian_to_int(payload))
    return ShareSet([s]).decrypt(payload, passphrase)


def crypt_roundtrip(payload, id, exponent, passphrase):
    return decrypt(ShareSet.encrypt(payload, id, exponent, passphrase), id, exponent, passphrase)


def crypt_roundtrip_rev(payload, id, exponent, passphrase):
    return ShareSet.encrypt(decrypt(payload, id, exponent, passphrase), id, exponent, passphrase)


# ------------------------------------------------------------------ whole scheme
def recover_secret_bytes(mnemonics, passphrase):
    """the decrypted master secret of a list of share mnemonics (ShareSet.recover)"""
    return ShareSet([Share.parse(m) for m in mnemonics]).recover(passphrase)


# ------------------------------------------------------------------ consistency checks (two shares, library layout)
def _mk(bits, id, e, gi, gt, gc, mi, mt, value):
    return Share(bits, id, e, gi, gt, gc, mi, mt, value)


def shareset_of2(bits0, id0, e0, gi0, gt0, gc0, mi0, bits1, id1, e1, gi1, gt1, gc1, mi1):
    """ShareSet built from two shares (values 0, member threshold 1); True when the constructor accepts"""
    ShareSet([_mk(bits0, id0, e0, gi0, gt0, gc0, mi0, 1, 0), _mk(bits1, id1, e1, gi1, gt1, gc1, mi1, 1, 0)])
    return True


def recover_of1(bits, id, e, gi, gt, gc, value, passphrase):
    """recover() on a single share of a gt-of-gc split"""
    return ShareSet([_mk(bits, id, e, gi, gt, gc, 0, 1, value)]).recover(passphrase)


def recover_of2(bits, id, e, gt, gc, gi0, gi1, v0, v1, passphrase):
    """recover() on two shares of one gt-of-gc split"""
    return ShareSet([_mk(bits, id, e, gi0, gt, gc, 0, 1, v0), _mk(bits, id, e, gi1, gt, gc, 0, 1, v1)]).recover(passphrase)


def _probe_setcomp(a, b):
    """engine self-test used by verif/contracts/shamir.py: a set comprehension must merge equal elements"""
    return len({x for x in (a, b)})
