"""C12 / C13 harnesses: straight-line compositions of the real taproot / MuSig API.

Part 1 is executed symbolically by pyvc (and concretely by the bounded companion); Part 2 are
concrete builders used only by the bounded jobs of verif/props/C12.py and C13.py."""
from buidl.ecc import G, N, PrivateKey, S256Point, SchnorrSignature
from buidl.helper import int_to_byte
from buidl.script import Script
from buidl.taproot import (ControlBlock, MultiSigTapScript, MuSigTapScript, TapBranch, TapLeaf, TapRootMultiSig,
                           TapScript)


# ------------------------------------------------------------------------------------------------
# Part 1: symbolic harnesses (C12)
# ------------------------------------------------------------------------------------------------
def raw_script(raw):
    """a Script whose serialization is exactly `raw` (what Script.parse keeps for arbitrary bytes)"""
    s = Script([])
    s.raw = raw
    return s


def leaf_hash(version, raw):
    return TapLeaf(raw_script(raw), version).hash()


def leaf_hash_p2pk(version, x):
    """leaf built from commands (the usual construction): <x> OP_CHECKSIG"""
    return TapLeaf(Script([x, 0xAC]), version).hash()


def branch_hash(v1, raw1, v2, raw2):
    return TapBranch(TapLeaf(raw_script(raw1), v1), TapLeaf(raw_script(raw2), v2)).hash()


def branch_hash_swapped(v1, raw1, v2, raw2):
    a, b = TapLeaf(raw_script(raw1), v1), TapLeaf(raw_script(raw2), v2)
    return TapBranch(a, b).hash(), TapBranch(b, a).hash()


def branch3_hashes(raw1, raw2, raw3):
    """the four mirror images of ((1, 2), 3)"""
    a, b, c = (TapLeaf(raw_script(r)) for r in (raw1, raw2, raw3))
    return (TapBranch(TapBranch(a, b), c).hash(), TapBranch(c, TapBranch(a, b)).hash(),
            TapBranch(TapBranch(b, a), c).hash(), TapBranch(c, TapBranch(b, a)).hash())


def tweaked_pub(pub, root):
    return pub.tweaked_key(root)


def tweak_bytes(pub, root):
    return pub.tweak(root)


def even_point(pub):
    return pub.even_point()


def even_secret(d):
    return PrivateKey(d).even_secret()


def tweaked_priv_secret(d, root):
    return PrivateKey(d).tweaked_key(root).secret


def tweaked_priv_vs_pub(d, root):
    """(point of the tweaked private key, tweaked public key)"""
    priv = PrivateKey(d)
    return priv.tweaked_key(root).point, priv.point.tweaked_key(root)


def keypath_sign(d, root, msg, aux):
    """key path spend: sign with the tweaked private key; -> (x-only output key, signature bytes)"""
    priv = PrivateKey(d)
    sig = priv.tweaked_key(root).sign_schnorr(msg, aux)
    return priv.point.tweaked_key(root).xonly(), sig.serialize()


def cb_root0(version, raw):
    return ControlBlock(version, 0, None, []).merkle_root(raw_script(raw))


def cb_root1(version, raw, h0):
    return ControlBlock(version, 0, None, [h0]).merkle_root(raw_script(raw))


def cb_root2(version, raw, h0, h1):
    return ControlBlock(version, 0, None, [h0, h1]).merkle_root(raw_script(raw))


def cb_root3(version, raw, h0, h1, h2):
    return ControlBlock(version, 0, None, [h0, h1, h2]).merkle_root(raw_script(raw))


def cb_external(pub, version, raw, hashes):
    return ControlBlock(version, 0, pub, hashes).external_pubkey(raw_script(raw))


def cb_external0(pub, version, raw):
    return cb_external(pub, version, raw, [])


def cb_external1(pub, version, raw, h0):
    return cb_external(pub, version, raw, [h0])


def cb_external2(pub, version, raw, h0, h1):
    return cb_external(pub, version, raw, [h0, h1])


def cb_external3(pub, version, raw, h0, h1, h2):
    return cb_external(pub, version, raw, [h0, h1, h2])


def _tree(shape, leaves):
    """shape: nested tuples of leaf indices, e.g. ((0, 1), 2)"""
    if isinstance(shape, int):
        return leaves[shape]
    return TapBranch(_tree(shape[0], leaves), _tree(shape[1], leaves))


def tree_control_blocks(pub, shape, datas):
    """build the tree with the real classes from the leaf scripts `<data_i> OP_CHECKSIG`; for every leaf
    (left to right): (control block bytes, external key recomputed from the control block, its parity bit);
    plus the output key of the tree"""
    leaves = [TapLeaf(Script([d, 0xAC])) for d in datas]
    root = _tree(shape, leaves)
    out_key = root.external_pubkey(pub)
    rows = []
    for leaf in leaves:
        cb = root.control_block(pub, leaf)
        ext = cb.external_pubkey(leaf.tap_script)
        rows.append((cb.serialize(), ext, cb.parity))
    return out_key, rows


def tree1(pub, d0):
    leaf = TapLeaf(Script([d0, 0xAC]))
    cb = leaf.control_block(pub)
    return leaf.external_pubkey(pub), [(cb.serialize(), cb.external_pubkey(leaf.tap_script), cb.parity)]


def tree2(pub, d0, d1):
    return tree_control_blocks(pub, (0, 1), [d0, d1])


def tree2_reused(pub_first, pub, d0, d1):
    """history: ONE tree object is first used with another internal key (output key and every control block), then
    with `pub`; what it answers for `pub` must not depend on the earlier use"""
    leaves = [TapLeaf(Script([d, 0xAC])) for d in (d0, d1)]
    root = _tree((0, 1), leaves)
    root.external_pubkey(pub_first)
    for leaf in leaves:
        root.control_block(pub_first, leaf)
    out_key = root.external_pubkey(pub)
    rows = []
    for leaf in leaves:
        cb = root.control_block(pub, leaf)
        rows.append((cb.serialize(), cb.external_pubkey(leaf.tap_script), cb.parity))
    return out_key, rows


def tree2_dup(pub, d0):
    return tree_control_blocks(pub, (0, 1), [d0, d0])


def tree3a_dup01(pub, d0, d2):
    return tree_control_blocks(pub, ((0, 1), 2), [d0, d0, d2])


def tree3a_dup02(pub, d0, d1):
    return tree_control_blocks(pub, ((0, 1), 2), [d0, d1, d0])


def tree3a_dup12(pub, d0, d1):
    return tree_control_blocks(pub, ((0, 1), 2), [d0, d1, d1])


def tree3a_dup012(pub, d0):
    return tree_control_blocks(pub, ((0, 1), 2), [d0, d0, d0])


def tree3b_dup01(pub, d0, d2):
    return tree_control_blocks(pub, (0, (1, 2)), [d0, d0, d2])


def tree3b_dup02(pub, d0, d1):
    return tree_control_blocks(pub, (0, (1, 2)), [d0, d1, d0])


def tree3b_dup12(pub, d0, d1):
    return tree_control_blocks(pub, (0, (1, 2)), [d0, d1, d1])


def tree3b_dup012(pub, d0):
    return tree_control_blocks(pub, (0, (1, 2)), [d0, d0, d0])


def tree3a(pub, d0, d1, d2):
    return tree_control_blocks(pub, ((0, 1), 2), [d0, d1, d2])


def tree3b(pub, d0, d1, d2):
    return tree_control_blocks(pub, (0, (1, 2)), [d0, d1, d2])


def tree4a(pub, d0, d1, d2, d3):
    return tree_control_blocks(pub, ((0, 1), (2, 3)), [d0, d1, d2, d3])


def tree4b(pub, d0, d1, d2, d3):
    return tree_control_blocks(pub, (((0, 1), 2), 3), [d0, d1, d2, d3])


def _ghost_same(p, q):
    """GHOST statement (no effect on any value handed to or returned by the real API): case split on
    P - Q == infinity.  On the branch where it is, the engine learns dlog(P) == dlog(Q) as a rewrite rule;
    it needs that when the code re-parses a point from its x-only bytes (fresh discrete log) and then
    computes with it.  The other branch is explored like any other (and is infeasible when P == Q)."""
    return (p + (-1 * q)).x is None


def leaf_cb_parity_flipped(pub, d0):
    """single-leaf tree: the control block the library builds, with the recorded parity bit flipped;
    -> (output key, key recomputed from the altered block, parity recorded in the altered block,
        serialization of the altered block, serialization of the original)"""
    leaf = TapLeaf(Script([d0, 0xAC]))
    cb = leaf.control_block(pub)
    altered = ControlBlock(cb.tapleaf_version, 1 - cb.parity, cb.internal_pubkey, cb.hashes)
    return leaf.external_pubkey(pub), altered.external_pubkey(leaf.tap_script), altered.parity, altered.serialize(), cb.serialize()


def parse_xonly_of(pub):
    return S256Point.parse_xonly(pub.xonly())


def cb_roundtrip_obj(pub, version, par, hashes):
    """parse(serialize(cb)) -> fields of the parsed block and its re-serialization"""
    cb = ControlBlock(version, par, pub, hashes)
    ser = cb.serialize()
    back = ControlBlock.parse(ser)
    return ser, back.tapleaf_version, back.parity, back.internal_pubkey, back.hashes, back.serialize(), back == cb


def cb_roundtrip0(pub, version, par):
    return cb_roundtrip_obj(pub, version, par, [])


def cb_roundtrip1(pub, version, par, h0):
    return cb_roundtrip_obj(pub, version, par, [h0])


def cb_roundtrip2(pub, version, par, h0, h1):
    return cb_roundtrip_obj(pub, version, par, [h0, h1])


GX32 = bytes.fromhex("79BE667EF9DCBBAC55A06295CE870B07029BFCDB2DCE28D959F2815B16F81798")


def cb_parse_short(b):
    return ControlBlock.parse(b)


def cb_parse_len_gx(first, tail):
    """parse of first || x(G) || tail -> (number of path elements, leaf version, parity, re-serialization)"""
    cb = ControlBlock.parse(first + GX32 + tail)
    return len(cb.hashes), cb.tapleaf_version, cb.parity, cb.serialize()


# ------------------------------------------------------------------------------------------------
# Part 1b: symbolic harnesses (C13)
# ------------------------------------------------------------------------------------------------
def musig_points(ds):
    return [PrivateKey(d).point for d in ds]


def musig_agg(ds):
    """aggregate point for the keys in the given order"""
    return MuSigTapScript(musig_points(ds)).point


def musig_agg2(d1, d2):
    return musig_agg([d1, d2])


def musig_agg3(d1, d2, d3):
    return musig_agg([d1, d2, d3])


def musig_agg2_orders(d1, d2):
    return musig_agg([d1, d2]), musig_agg([d2, d1])


def musig_agg3_orders(d1, d2, d3):
    return (musig_agg([d1, d2, d3]), musig_agg([d1, d3, d2]), musig_agg([d2, d1, d3]),
            musig_agg([d2, d3, d1]), musig_agg([d3, d1, d2]), musig_agg([d3, d2, d1]))


def musig_flow(ds, ks, msg, merkle_root, ghost=False):
    """the two-round signing session as the repository's tests run it: every signer contributes a nonce
    pair and a partial signature, the sum is turned into a signature;
    -> (x-only key the signature is for, 64 signature bytes)"""
    privs = [PrivateKey(d) for d in ds]
    musig = MuSigTapScript([p.point for p in privs])
    if ghost:
        # ghost case split (see _ghost_same): the script re-parsed every key from its x-only bytes
        for q in musig.points:
            for p in privs:
                _ghost_same(q, p.point.even_point())
    nonce_point_pairs = [(k[0] * G, k[1] * G) for k in ks]
    nonce_sums = musig.nonce_sums(nonce_point_pairs)
    r = musig.compute_r(nonce_sums, msg)
    s_sum = 0
    for priv, k in zip(privs, ks):
        kk = musig.compute_k(k, nonce_sums, msg)
        s_sum += musig.sign(priv, kk, r, msg, merkle_root)
    sig = musig.get_signature(s_sum, r, msg, merkle_root)
    if merkle_root:
        key = musig.point.tweaked_key(merkle_root)
    else:
        key = musig.point.even_point()
    return key.xonly(), sig.serialize()


def musig_flow2(d1, d2, k11, k12, k21, k22, msg, root):
    return musig_flow([d1, d2], [(k11, k12), (k21, k22)], msg, root)


def musig_two_sessions(d1, d2, k11, k12, k21, k22, msg, root_a, root_b):
    """history: ONE MuSigTapScript object runs two complete sessions with the same nonces and the same message, first for
    merkle root root_a, then for root_b (b"" = key-path without script tree); whatever the object remembers from the first
    session must not leak into the second -> (key_a, sig_a, key_b, sig_b)"""
    privs = [PrivateKey(d1), PrivateKey(d2)]
    ks = [(k11, k12), (k21, k22)]
    musig = MuSigTapScript([p.point for p in privs])
    out = []
    for root in (root_a, root_b):
        nonce_sums = musig.nonce_sums([(k[0] * G, k[1] * G) for k in ks])
        r = musig.compute_r(nonce_sums, msg)
        s_sum = 0
        for priv, k in zip(privs, ks):
            s_sum += musig.sign(priv, musig.compute_k(k, nonce_sums, msg), r, msg, root)
        sig = musig.get_signature(s_sum, r, msg, root)
        key = musig.point.tweaked_key(root) if root else musig.point.even_point()
        out += [key.xonly(), sig.serialize()]
    return tuple(out)


def musig_flow3(d1, d2, d3, k11, k12, k21, k22, k31, k32, msg, root):
    return musig_flow([d1, d2, d3], [(k11, k12), (k21, k22), (k31, k32)], msg, root)


# ------------------------------------------------------------------------------------------------
# Part 2: concrete builders for the bounded companions (never executed symbolically)
# ------------------------------------------------------------------------------------------------
def all_shapes(n, start=0):
    """every binary tree shape with n leaves, leaves numbered left to right from `start`"""
    if n == 1:
        return [start]
    out = []
    for k in range(1, n):
        for left in all_shapes(k, start):
            for right in all_shapes(n - k, start + k):
                out.append((left, right))
    return out


def build_tree(shape, leaves):
    return _tree(shape, leaves)


def mirror(shape):
    if isinstance(shape, int):
        return shape
    return (mirror(shape[1]), mirror(shape[0]))


def spec_tree(shape, specs):
    """the nested-tuple tree of verif.specs.taproot for leaf specs [(version, script bytes)]"""
    if isinstance(shape, int):
        return specs[shape]
    return (spec_tree(shape[0], specs), spec_tree(shape[1], specs))


def musig_session(privs, nonces, msg, merkle_root=b"", order=None, drop=None, alter=None):
    """run a complete signing session through the real API.
    order: permutation in which the public keys are handed to MuSigTapScript;
    drop: index of a signer whose partial signature is left out; alter: (index, function on the partial sig).
    -> dict(musig, key (point the signature is for), r, s_sum, partials, sig (SchnorrSignature or None), error)"""
    points = [p.point for p in privs]
    if order is not None:
        points = [points[i] for i in order]
    musig = MuSigTapScript(points)
    nonce_points = [(k1 * G, k2 * G) for (k1, k2) in nonces]
    nonce_sums = musig.nonce_sums(nonce_points)
    r = musig.compute_r(nonce_sums, msg)
    partials = []
    for priv, ks in zip(privs, nonces):
        k = musig.compute_k(ks, nonce_sums, msg)
        partials.append(musig.sign(priv, k, r, msg, merkle_root))
    used = list(partials)
    if alter is not None:
        used[alter[0]] = alter[1](used[alter[0]])
    if drop is not None:
        used = [s for i, s in enumerate(used) if i != drop]
    s_sum = sum(used)
    key = musig.point.tweaked_key(merkle_root) if merkle_root else musig.point.even_point()
    out = {"musig": musig, "key": key, "r": r, "s_sum": s_sum, "partials": partials, "sig": None, "error": None}
    try:
        out["sig"] = musig.get_signature(s_sum, r, msg, merkle_root)
    except Exception as e:          # the library reports an invalid aggregate by raising
        out["error"] = e
    return out


def p2tr_spend_tx(script_pubkey, amount=100000, network="signet"):
    """one-input transaction spending a P2TR output whose prevout is preset like the repository's tests do"""
    from buidl.tx import Tx, TxIn, TxOut
    from buidl.script import P2WPKHScriptPubKey
    tx_in = TxIn(bytes.fromhex("11" * 32), 0, sequence=0xFFFFFFFE)
    tx_in._value = amount
    tx_in._script_pubkey = script_pubkey
    tx_out = TxOut(amount - 10000, P2WPKHScriptPubKey(bytes.fromhex("22" * 20)))
    return Tx(2, [tx_in], [tx_out], 0, network=network, segwit=True)
