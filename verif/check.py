"""python3-vt -m verif.check Cxx [--tier quick|thorough] : decide one property.

exit 0  property held on everything explored (KNOWN-FINDING lines allowed)
exit 1  a violation not listed in KNOWN_FINDINGS.jsonl was found (VIOLATION line printed)
Undecided obligations and checker errors never produce exit 1 (see DESIGN 1.4)."""
import argparse
import importlib
import json
import multiprocessing as mp
import os
import sys
import time
import traceback

ROOT = os.path.dirname(os.path.dirname(os.path.abspath(__file__)))
REPO = os.environ.get("VERIF_REPO", "/repo")
if REPO not in sys.path:
    sys.path.insert(0, REPO)
if ROOT not in sys.path:
    sys.path.insert(0, ROOT)
os.environ.setdefault("BUIDL_PYTHON_VERIF", "1")


def _job(spec):
    import contextlib
    import io
    # the library prints diagnostics ("bad op: ...", "mismatch between length ...") while it rejects inputs: keep the
    # check's own stdout for VIOLATION / KNOWN-FINDING / summary lines only
    with contextlib.redirect_stdout(io.StringIO()):
        return _job_inner(spec)


def _job_inner(spec):
    kind, prop, key, tier, seed = spec
    t0 = time.time()
    try:
        from verif.pyvc import verifier
        from verif.pyvc.engine import SRC
        import verif.contracts  # noqa: populate registry
        P = importlib.import_module("verif.props." + prop)
        if kind == "contract":
            c = verifier.REG.contracts[key]
            tmo = 10000 if tier == "quick" else 60000
            res, stats = verifier.verify_contract(c, timeout_ms=tmo)
            return {"kind": kind, "key": key, "results": [r.as_dict() for r in res], "stats": stats,
                    "sources": dict(SRC.used), "wall": time.time() - t0}
        if kind == "table":
            fn = dict(P.TABLES)[key]
            res = fn(tier)
            return {"kind": kind, "key": key, "results": res, "stats": {}, "sources": dict(SRC.used),
                    "wall": time.time() - t0}
        if kind == "bounded":
            fn = dict(P.BOUNDED)[key]
            res = fn(seed, tier)
            res.update({"kind": kind, "key": key, "wall": time.time() - t0})
            return res
    except BaseException as e:   # a crash of the tooling must never look like a defect
        return {"kind": kind, "key": key, "crash": traceback.format_exc(limit=8), "wall": time.time() - t0}


def load_known(prop):
    out = []
    path = os.path.join(ROOT, "KNOWN_FINDINGS.jsonl")
    if os.path.exists(path):
        for line in open(path):
            line = line.strip()
            if not line or line.startswith("#"):
                continue
            try:
                e = json.loads(line)
            except ValueError:
                continue        # "fixed: ..." lines are plain text records and suppress nothing
            if e.get("property") == prop and e.get("kind") == "finding":
                out.append(e)
    return out


def match_known(known, name, inputs):
    from verif.pyvc.verifier import unjson
    for e in known:
        ob = e.get("obligation")
        if ob is None or not (name == ob or name.startswith(ob + "/") or name.startswith(ob)):
            continue
        when = e.get("when", "True")
        env = unjson(inputs) if isinstance(inputs, dict) else {}
        try:
            if eval(when, {"__builtins__": __builtins__}, dict(env)):
                return e
        except Exception:
            if when == "True":
                return e
    return None


def main(argv=None):
    ap = argparse.ArgumentParser()
    ap.add_argument("prop")
    ap.add_argument("--tier", default=os.environ.get("VERIF_TIER", "quick"))
    ap.add_argument("--jobs", type=int, default=int(os.environ.get("VERIF_JOBS", "16")))
    ap.add_argument("--only", default=None, help="substring filter on job keys (debugging)")
    a = ap.parse_args(argv)
    prop, tier = a.prop, a.tier if a.tier in ("quick", "thorough") else "quick"
    seed = int(os.environ.get("VERIF_SEED", "0") or 0)
    t0 = time.time()
    from verif.pyvc import verifier
    import verif.contracts  # noqa
    from verif import rt
    P = importlib.import_module("verif.props." + prop)
    specs = []
    skipped_tier = []
    runtime_only = []
    for k in getattr(P, "CONTRACTS", []):
        if tier in verifier.REG.contracts[k].tiers:
            specs.append(("contract", prop, k, tier, seed))
        elif "runtime-only" in verifier.REG.contracts[k].tiers:
            runtime_only.append(k)
        else:
            skipped_tier.append(k)
    for k, _ in getattr(P, "TABLES", []):
        specs.append(("table", prop, k, tier, seed))
    for k, _ in getattr(P, "BOUNDED", []):
        specs.append(("bounded", prop, k, tier, seed))
    if a.only:
        specs = [s for s in specs if a.only in s[2]]
    job_timeout = getattr(P, "JOB_TIMEOUT", {"quick": 240, "thorough": 1500})[tier]
    # symbolic exploration of one contract stops gracefully (remaining paths undecided) before the pool would kill the job
    os.environ.setdefault("PYVC_WALL_BUDGET_S", str(int(job_timeout * 0.8)))
    outs = []
    ctx = mp.get_context("fork")
    pool = ctx.Pool(max(1, min(a.jobs, len(specs))))
    try:
        nproc = max(1, min(a.jobs, len(specs)))
        t_pool = time.time()
        asyncs = [(s, pool.apply_async(_job, (s,))) for s in specs]
        for idx, (s, ar) in enumerate(asyncs):
            # deadline per job, not per wait: job idx starts at the latest after idx // nproc earlier rounds
            deadline = t_pool + job_timeout * (1 + idx // nproc)
            try:
                outs.append(ar.get(timeout=max(5, deadline - time.time())))
            except mp.TimeoutError:
                outs.append({"kind": s[0], "key": s[2], "crash": "job timeout %ds" % job_timeout, "timeout": True, "wall": job_timeout})
    finally:
        pool.terminate()

    known = load_known(prop)
    obligations = discharged = 0
    undecided, failures, crashes = [], [], []
    samples, sources, bounded_out = [], {}, []
    backends = {}
    solver_s = 0.0
    fn_stats = {}
    for o in outs:
        if "crash" in o:
            crashes.append({"job": o["key"], "why": o["crash"][-1500:]})
            continue
        if o["kind"] in ("contract", "table"):
            sources.update(o.get("sources", {}))
            solver_s += o.get("stats", {}).get("solver_s", 0.0)
            nres = 0
            for r in o["results"]:
                nres += 1
                obligations += 1
                be = r.get("backend", "z3" if o["kind"] == "contract" else "exhaustive")
                backends[be] = backends.get(be, 0) + 1
                if r["status"] == "ok":
                    discharged += 1
                    if len(samples) < 6 and (nres % 7 == 1):
                        samples.append({"obligation": r["name"], "clause": r.get("clause", ""), "backend": be, "verdict": "discharged", "secs": r.get("secs")})
                elif r["status"] == "fail":
                    failures.append((o, r))
                else:
                    undecided.append({"obligation": r["name"], "status": r["status"], "why": (r.get("note") or "")[:400]})
            if o["kind"] == "contract":
                st = o.get("stats", {})
                fn_stats[o["key"]] = {"paths": st.get("paths"), "returning": st.get("paths_returning"),
                                      "raising": st.get("paths_raising"), "obligations": nres,
                                      "discharged": sum(1 for r in o["results"] if r["status"] == "ok"), "wall_s": round(o["wall"], 2)}
                if nres == 0:
                    crashes.append({"job": o["key"], "why": "vacuity: contract generated zero obligations"})
        else:
            bounded_out.append(o)

    lines = []
    violations = []
    known_hits = {}
    OUT = os.environ.get("VERIF_OUT_DIR", ROOT)     # seeded-change runs write evidence/replays elsewhere
    os.makedirs(os.path.join(OUT, "replays"), exist_ok=True)

    def record_violation(name, detail, inputs, confirmed, extra=None):
        e = match_known(known, name, inputs)
        if e is not None:
            known_hits.setdefault(e["what"], []).append(name)
            return
        idx = len(violations) + 1
        path = os.path.join(OUT, "replays", "%s_%s_%d.json" % (prop, tier, idx))
        doc = {"property": prop, "obligation": name, "detail": detail, "inputs": inputs, "confirmed_on_real_code": confirmed}
        if extra:
            doc.update(extra)
        with open(path, "w") as f:
            json.dump(doc, f, indent=1, default=repr)
        violations.append(name)
        lines.append("VIOLATION property=%s replay=%s%s" % (prop, path, "" if confirmed else " no-failing-input-found"))

    # deductive failures: replay the counter-model on the real code
    for o, r in failures:
        name = r["name"]
        inputs = r.get("inputs")
        confirmed, detail, extra = False, r.get("clause", ""), {"solver_note": r.get("note")}
        if o["kind"] == "contract" and inputs is not None and "$extract_error" not in inputs:
            c = verifier.REG.contracts[o["key"]]
            try:
                rr = rt.run_concrete(c, verifier.unjson(inputs))
            except Exception:
                rr = {"status": "error", "why": traceback.format_exc(limit=4)}
            extra["replay"] = rr
            confirmed = rr.get("status") == "violated"
        elif o["kind"] == "table":
            confirmed = bool(r.get("confirmed", True))
        if not confirmed and o["kind"] == "contract":
            # spurious or non-replayable model: look for a real failing input in the bounded companion
            for b in bounded_out:
                for f in b.get("failures", []):
                    if f.get("contract") == o["key"]:
                        confirmed, inputs = True, f.get("inputs")
                        extra["found_by"] = b["key"]
                        break
                if confirmed:
                    break
        record_violation(name, detail, inputs, confirmed, extra)

    # bounded companions
    evaluations = distinct = 0
    bounded_summary = []
    for b in bounded_out:
        evaluations += b.get("evaluations", 0)
        distinct += b.get("distinct", 0)
        bounded_summary.append({k: b.get(k) for k in ("key", "evaluations", "distinct", "bound", "wall")} | {"failures": len(b.get("failures", []))})
        for f in b.get("failures", []):
            nm = "bounded:%s:%s" % (b["key"], f.get("contract", f.get("what", "")))
            record_violation(nm, f.get("what", ""), f.get("inputs"), True, {"bounded": True, "violated": f.get("violated")})
        for smp in b.get("samples", [])[:2]:
            if len(samples) < 10:
                samples.append({"bounded": b["key"], "case": smp})

    for what, names in known_hits.items():
        lines.append("KNOWN-FINDING: property=%s %s  [%d failing obligations/cases match]" % (prop, what, len(names)))
    for u in undecided:
        lines.append("UNDECIDED property=%s obligation=%s (%s)" % (prop, u["obligation"], u["why"][:120].replace("\n", " ")))
    # coverage baseline (verif/baseline/<prop>.json, written by verif.tools.mkbaseline from a run on the unchanged tree): a contract
    # that discharges fewer obligations than it did there has slipped out of the engine's reach -- reported, never a violation
    coverage_loss = []
    try:
        base = json.load(open(os.path.join(ROOT, "verif", "baseline", prop + ".json"))).get(tier, {})
    except Exception:
        base = {}
    for cname, want in sorted(base.items()):
        have = fn_stats.get(cname, {}).get("discharged")
        if have is not None and have < want and not a.only:
            coverage_loss.append({"contract": cname, "discharged": have, "baseline": want})
            lines.append("COVERAGE-LOSS property=%s contract=%s discharged=%d baseline=%d (obligations no longer decided; not a violation)"
                         % (prop, cname, have, want))
    for c in crashes:
        lines.append("CHECKER-ERROR property=%s job=%s: %s" % (prop, c["job"], c["why"].strip().splitlines()[-1][:200] if c["why"].strip() else ""))
        sys.stderr.write("CHECKER-ERROR %s %s\n%s\n" % (prop, c["job"], c["why"]))

    n_known = sum(len(v) for v in known_hits.values())
    proof_ok = obligations > 0 and discharged == obligations and not crashes and not undecided
    # the evidence level is the level claimed in MANIFEST.json (the props module's CATEGORY); a 'proof'
    # claim is kept only when every obligation of this run was discharged, otherwise the run says 'other'
    claimed = getattr(P, "CATEGORY", "proof")
    level = claimed if (claimed != "proof" or proof_ok) else "other"
    explanation = getattr(P, "EXPLANATION", "")
    if not proof_ok:
        explanation = ("NOT a complete proof on this run: %d of %d deductive obligations discharged, %d undecided, %d failing "
                       "(%d of them listed known findings), %d checker errors. " % (
                           discharged, obligations, len(undecided), len(failures), n_known, len(crashes))) + explanation
    ev = {
        "property_id": prop, "tier": tier, "seed": seed, "level": level,
        "coverage": {
            "obligations": obligations, "discharged": discharged,
            "checker_cmd": "python3-vt -m verif.check %s --tier %s" % (prop, tier),
            "trusted_base": getattr(P, "TRUSTED_BASE", []),
            "explanation": explanation,
            "evaluations": max(evaluations, 0), "distinct_nontrivial": distinct,
            "rule": getattr(P, "BOUNDED_RULE", "bounded companions: boundary values named in the property + enumerated small inputs + VERIF_SEED-seeded random inputs, each run through the real function and the executable contract; distinct = distinct input tuples"),
            "samples": samples or [{"note": "no obligations"}],
            "functions_under_contract": [{"function": k, **v} for k, v in sorted(sources.items()) if k.startswith("buidl.")],
            "spec_functions_used": sorted(k for k in sources if not k.startswith("buidl.")),
            "per_contract": fn_stats,
            "coverage_loss_vs_baseline": coverage_loss,
            "backends": backends, "solver_seconds": round(solver_s, 2),
            "undecided": undecided[:50], "checker_errors": crashes[:20],
            "bounded_checks": bounded_summary,
            "known_findings_matched": {k: len(v) for k, v in known_hits.items()},
            "contracts_deductive_only_in_thorough_tier": skipped_tier,
            "contracts_checked_at_run_time_only": runtime_only,
            "exhaustive": False,
        },
        "assumptions": getattr(P, "ASSUMPTIONS", []),
        "wall_s": round(time.time() - t0, 2),
        "violations": len(violations),
    }
    os.makedirs(os.path.join(OUT, "evidence"), exist_ok=True)
    with open(os.path.join(OUT, "evidence", prop + ".json"), "w") as f:
        json.dump(ev, f, indent=1, default=repr)
    for l in lines:
        print(l)
    print("%s tier=%s obligations=%d discharged=%d undecided=%d failing=%d known=%d bounded_evals=%d violations=%d wall=%.1fs" % (
        prop, tier, obligations, discharged, len(undecided), len(failures), n_known, evaluations, len(violations), time.time() - t0))
    return 1 if violations else 0


if __name__ == "__main__":
    try:
        rc = main()
    except SystemExit:
        raise
    except BaseException:      # a crash of the checker itself is not a verdict about the property: exit 3, no VIOLATION line
        sys.stderr.write("CHECKER-ERROR (checker crashed)\n" + traceback.format_exc())
        print("CHECKER-ERROR checker crashed, see stderr")
        rc = 3
    sys.exit(rc)
