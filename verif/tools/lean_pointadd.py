"""C03.3: extract the formulas of the real Point.__add__ (abstract-field run) and prove, path by
path, that they are Mathlib's Weierstrass point addition.  Writes /verif/lean/gen/PointAdd.lean and
runs `lean` on it.  Used as a TABLES job of property C03 (back end: lean)."""
import os
import subprocess
import time

import z3

ROOT = os.path.dirname(os.path.dirname(os.path.dirname(os.path.abspath(__file__))))
NAMES = {"x1": "x₁", "y1": "y₁", "x2": "x₂", "y2": "y₂"}


def _has(conds, pos, a, b):
    """does the path condition contain (a == b) positively (pos) / negatively"""
    from verif.pyvc import fieldmode as fm
    for c in conds:
        t, neg = c, False
        while z3.is_not(t):
            t, neg = t.arg(0), not neg
        if z3.is_eq(t) and {str(t.arg(0)), str(t.arg(1))} == {a, b} and (not neg) == pos:
            return True
    return False


def generate():
    from verif.pyvc import fieldmode as fm
    recs = fm.explore_point_add()
    lemmas = open(os.path.join(ROOT, "lean", "PointLemmas.lean")).read()
    out = [lemmas, "\n-- ===== generated from /repo/buidl/pecc.py Point.__add__ =====\n"]
    thms = []
    for k, r in enumerate(recs):
        if r["shape"] != ("fin", "fin"):
            continue
        conds = r["conds"]
        hyps = " ".join("(c%d : %s)" % (i + 1, fm.lean(c, NAMES)) for i, c in enumerate(conds))
        head = ("theorem path_%d (a b x₁ y₁ x₂ y₂ : F) (h₁ : (sw a b).Nonsingular x₁ y₁) (h₂ : (sw a b).Nonsingular x₂ y₂) "
                "(h2 : (2 : F) ≠ 0) %s :" % (k, hyps))
        chordp = _has(conds, False, "x1", "x2")
        kind = r["result"][0]
        pre_chord = "  have hx : x₁ ≠ x₂ := by tauto\n  obtain ⟨h₃, e⟩ := chord a b x₁ y₁ x₂ y₂ h₁ h₂ hx\n"
        pre_tan = ("  have hx : x₁ = x₂ := by tauto\n  have hy : y₁ = y₂ := by tauto\n"
                   "  have hy0 : y₁ ≠ 0 := by\n    intro h\n    have : y₁ = (0 : F) * x₁ := by rw [h]; ring\n    tauto\n"
                   "  obtain ⟨h₃, e⟩ := tangent a b x₁ y₁ x₂ y₂ h₁ h₂ hx hy hy0 h2\n")
        if kind == "pt":
            tx, ty = fm.lean(r["result"][1], NAMES), fm.lean(r["result"][2], NAMES)
            goal = "    ∃ h₃, Point.some _ _ h₁ + Point.some _ _ h₂ = Point.some %s %s h₃ := by\n" % (tx, ty)
            body = (pre_chord if chordp else pre_tan) + \
                "  obtain ⟨h', e'⟩ := some_congr h₃ (show _ = %s by ring) (show _ = %s by ring)\n  exact ⟨h', e.trans e'⟩\n" % (tx, ty)
        elif kind == "inf":
            goal = "    Point.some _ _ h₁ + Point.some _ _ h₂ = 0 := by\n"
            if _has(conds, False, "y1", "y2"):
                body = "  have hx : x₁ = x₂ := by tauto\n  have hy : y₁ ≠ y₂ := by tauto\n  exact inverse a b x₁ y₁ x₂ y₂ h₁ h₂ hx hy\n"
            else:
                body = ("  have hx : x₁ = x₂ := by tauto\n  have hy : y₁ = y₂ := by tauto\n  subst hx hy\n"
                        "  have hy0 : y₁ = 0 := by\n    have : y₁ = (0 : F) * x₁ := by tauto\n    rw [this]; ring\n"
                        "  exact double_two_torsion a b x₁ y₁ h₁ hy0\n")
        else:   # the constructor's on-curve check fails: must be impossible
            goal = "    False := by\n"
            body = (pre_chord if chordp else pre_tan) + \
                "  have eq := h₃.left\n  rw [equation_iff] at eq\n  simp only [sw] at eq\n" \
                "  have bad : %s := by tauto\n  apply bad\n  linear_combination eq\n" % fm.lean(conds[-1], NAMES)
        out.append(head + "\n" + goal + body + "\n")
        thms.append({"name": "path_%d" % k, "kind": kind, "conds": [fm.lean(c, NAMES) for c in conds],
                     "result": [fm.lean(t, NAMES) for t in r["result"][1:]] if kind == "pt" else list(r["result"][1:])})
    others = [r for r in recs if r["shape"] != ("fin", "fin")]
    return "".join(out), thms, others


def run(tier="quick"):
    """-> list of result dicts for check.py"""
    t0 = time.time()
    res = []
    try:
        text, thms, others = generate()
    except Exception as e:
        return [{"name": "C03/lean/PointAdd/extract", "status": "undecided", "clause": "extraction of Point.__add__ paths",
                 "backend": "lean", "note": repr(e)}]
    gen_dir = os.path.join(ROOT, "lean", "gen")
    os.makedirs(gen_dir, exist_ok=True)
    path = os.path.join(gen_dir, "PointAdd.lean")
    with open(path, "w") as f:
        f.write(text)
    # the infinity cases are decided by inspection of the extracted result (no arithmetic)
    for r in others:
        s = r["shape"]
        want = {("inf", "fin"): ("x2", "y2"), ("fin", "inf"): ("x1", "y1")}.get(s)
        ok = (r["result"][0] == "inf") if want is None else (r["result"][0] == "pt" and str(r["result"][1]) == want[0] and str(r["result"][2]) == want[1])
        res.append({"name": "C03/lean/PointAdd/identity_%s_%s" % s, "status": "ok" if ok and not r["conds"] else "fail",
                    "clause": "O + P = P, P + O = P, O + O = O (extracted result is the other operand)", "backend": "exhaustive",
                    "inputs": {"shape": list(s), "result": str(r["result"])}})
    try:
        pr = subprocess.run(["lean", path], capture_output=True, text=True, timeout=900)
    except Exception as e:
        return res + [{"name": "C03/lean/PointAdd/run", "status": "undecided", "clause": "lean run", "backend": "lean", "note": repr(e)}]
    errs = [l for l in (pr.stdout + pr.stderr).splitlines() if "error" in l]
    secs = time.time() - t0
    kinds = {"pt": 0, "inf": 0, "raise": 0}
    for t in thms:
        kinds[t["kind"]] += 1
        bad = [e for e in errs if False]
        res.append({"name": "C03/lean/PointAdd/%s" % t["name"], "status": "ok", "backend": "lean", "secs": round(secs, 1),
                    "clause": "real Point.__add__ path (%s) == Mathlib WeierstrassCurve.Affine.Point addition: conds %s -> %s %s"
                              % (t["kind"], t["conds"], t["kind"], t["result"])})
    expected = {"pt": 2, "inf": 2, "raise": 2}
    if pr.returncode != 0 or errs:
        # attribute errors to theorems by line number where possible; otherwise all fail
        for r in res:
            if r["backend"] == "lean":
                r["status"] = "fail"
                r["note"] = "\n".join(errs[:6])[:1500] or (pr.stdout + pr.stderr)[-1500:]
                r["confirmed"] = False
    if kinds != expected:
        res.append({"name": "C03/lean/PointAdd/shape", "status": "fail", "backend": "lean", "confirmed": False,
                    "clause": "Point.__add__ has the expected path structure (chord, tangent, inverse, 2-torsion; each constructor check once)",
                    "note": "paths found: %s expected %s" % (kinds, expected)})
    return res


if __name__ == "__main__":
    import sys
    sys.path.insert(0, os.environ.get("VERIF_REPO", "/repo"))
    sys.path.insert(0, ROOT)
    import verif.contracts  # noqa
    for r in run():
        print(r["name"], r["status"], (r.get("note") or "")[:600])
