"""Run the checks of one property against a seeded change WITHOUT touching /repo or /verif/evidence:
  python3-vt -m verif.tools.seedcheck <seed_dir containing patch.diff + demo.py> <Cxx> [more props]
1. exports /repo HEAD into a scratch dir, confirms demo.py passes there,
2. applies patch.diff, confirms demo.py now fails,
3. runs the quick check of each property with VERIF_REPO=<scratch> and VERIF_OUT_DIR=<scratch>/out,
4. prints one summary line per property and removes the scratch dir."""
import json
import os
import shutil
import subprocess
import sys
import tempfile


def main():
    seed = os.path.abspath(sys.argv[1])
    props = sys.argv[2:]
    tier = os.environ.get("SEED_TIER", "quick")
    d = tempfile.mkdtemp(prefix="seedrun_")
    out = {"seed": seed, "props": {}}
    try:
        subprocess.check_call("git -C /repo archive HEAD | tar -x -C %s" % d, shell=True)
        env = dict(os.environ, PYTHONPATH=d)

        def demo():
            return subprocess.run(["/venv/bin/python", os.path.join(seed, "demo.py")], cwd=d, env=env,
                                  capture_output=True, text=True, timeout=1800)
        r0 = demo()
        out["demo_clean_exit"] = r0.returncode
        ap = subprocess.run(["git", "apply", "--unsafe-paths", "--directory=" + d, os.path.join(seed, "patch.diff")],
                            cwd="/", capture_output=True, text=True)
        if ap.returncode != 0:
            ap = subprocess.run(["patch", "-p1", "-i", os.path.join(seed, "patch.diff")], cwd=d, capture_output=True, text=True)
        out["patch_applied"] = ap.returncode == 0
        if ap.returncode != 0:
            out["patch_error"] = (ap.stderr or ap.stdout)[-400:]
        r1 = demo()
        out["demo_patched_exit"] = r1.returncode
        out["demo_patched_tail"] = (r1.stdout + r1.stderr)[-300:]
        for p in props:
            env2 = dict(os.environ, VERIF_REPO=d, VERIF_OUT_DIR=os.path.join(d, "out"), VERIF_TIER=tier)
            pr = subprocess.run(["python3-vt", "-m", "verif.check", p, "--tier", tier], cwd="/verif", env=env2,
                                capture_output=True, text=True, timeout=3600)
            lines = pr.stdout.strip().splitlines()
            viol = [l for l in lines if l.startswith("VIOLATION")]
            first = None
            if viol:
                try:
                    rp = viol[0].split("replay=")[1].split()[0]
                    first = json.load(open(rp)).get("obligation")
                except Exception:
                    pass
            out["props"][p] = {"exit": pr.returncode, "violations": len(viol), "first_obligation": first,
                               "nofail": sum("no-failing-input-found" in l for l in viol),
                               "summary": lines[-1] if lines else pr.stderr[-300:]}
    finally:
        shutil.rmtree(d, ignore_errors=True)
    print(json.dumps(out, indent=1))


if __name__ == "__main__":
    main()
