"""record, per property and tier, how many obligations each contract discharged in the evidence files of a run on the
unchanged tree (python3-vt -m verif.tools.mkbaseline): verif/check.py prints COVERAGE-LOSS when a later run discharges fewer."""
import glob
import json
import os

ROOT = os.path.dirname(os.path.dirname(os.path.dirname(os.path.abspath(__file__))))
for f in sorted(glob.glob(os.path.join(ROOT, "evidence", "C*.json"))):
    d = json.load(open(f))
    prop, tier = d["property_id"], d["tier"]
    pc = d["coverage"].get("per_contract", {})
    cur = {k: v["discharged"] for k, v in pc.items() if "discharged" in v}
    if not cur:
        continue
    path = os.path.join(ROOT, "verif", "baseline", prop + ".json")
    try:
        base = json.load(open(path))
    except Exception:
        base = {}
    base[tier] = cur
    json.dump(base, open(path, "w"), indent=1, sort_keys=True)
    print(prop, tier, len(cur), "contracts,", sum(cur.values()), "obligations")
