"""copy confirmed seeded changes (/tmp/wt_Cxx/SEED_X + /tmp/seedres/Cxx_X.json) into /verif/seeded/<id>/"""
import glob
import json
import os
import shutil

rows = []
for res in sorted(glob.glob("/tmp/seedres/C*_*.json")):
    name = os.path.basename(res)[:-5]
    prop, x = name.split("_")
    src = "/tmp/wt_%s/SEED_%s" % (prop, x)
    try:
        d = json.load(open(res))
    except Exception:
        continue
    if not os.path.isdir(src):
        continue
    confirmed = d.get("demo_clean_exit") == 0 and d.get("demo_patched_exit") == 1 and d.get("patch_applied")
    if not confirmed:
        rows.append((name, "NOT CONFIRMED", d.get("demo_clean_exit"), d.get("demo_patched_exit")))
        continue
    dst = "/verif/seeded/%s-%s" % (prop, x)
    os.makedirs(dst, exist_ok=True)
    for f in ("patch.diff", "demo.py"):
        shutil.copy(os.path.join(src, f), os.path.join(dst, f))
    meta = {}
    try:
        meta = json.load(open(os.path.join(src, "meta.json")))
    except Exception:
        pass
    pr = d["props"].get(prop, {})
    meta.update({
        "property": prop, "seed": x,
        "confirmed_by": "python3-vt -m verif.tools.seedcheck %s %s : /repo HEAD exported to a scratch dir, demo.py exit 0; patch applied, demo.py exit 1" % (src, prop),
        "check_run": "VERIF_REPO=<scratch> python3-vt -m verif.check %s --tier quick" % prop,
        "check_exit": pr.get("exit"), "violations": pr.get("violations"), "violations_without_real_input": pr.get("nofail"),
        "first_failing_obligation": pr.get("first_obligation"), "check_summary": pr.get("summary"),
        "detected": pr.get("exit") == 1,
    })
    json.dump(meta, open(os.path.join(dst, "meta.json"), "w"), indent=1)
    rows.append((name, "detected" if pr.get("exit") == 1 else "MISSED", pr.get("violations"), pr.get("first_obligation")))
for r in rows:
    print(*r)
