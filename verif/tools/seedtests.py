"""Confirm that a seeded change keeps the repository's own tests green:
  python3 -m verif.tools.seedtests <seed_dir> [test files...]
Exports /repo HEAD to a scratch dir, applies patch.diff, runs the test files named in meta.json["tests_run"] (or given),
and compares with /root/.vp/BASELINE.json's stable_pass list: every stable-pass test of those files must still pass.
Prints one JSON line; scratch dir removed."""
import json, os, re, shutil, subprocess, sys, tempfile
import xml.etree.ElementTree as ET


def main():
    seed = os.path.abspath(sys.argv[1])
    meta = json.load(open(os.path.join(seed, "meta.json")))
    files = sys.argv[2:] or [f for f in meta.get("tests_run", []) if isinstance(f, str)]
    norm = []
    for f in files:
        m = re.search(r"(test_\w+)", f)
        if m and os.path.exists("/repo/buidl/test/%s.py" % m.group(1)):
            norm.append("buidl/test/%s.py" % m.group(1))
    norm = sorted(set(norm))
    stable = set(json.load(open("/root/.vp/BASELINE.json"))["stable_pass"])
    d = tempfile.mkdtemp(prefix="seedtests_")
    out = {"seed": seed, "files": norm}
    try:
        subprocess.check_call("git -C /repo archive HEAD | tar -x -C %s" % d, shell=True)
        ap = subprocess.run(["patch", "-p1", "-s", "-i", os.path.join(seed, "patch.diff")], cwd=d, capture_output=True, text=True)
        out["patch_applied"] = ap.returncode == 0
        xml = os.path.join(d, "junit.xml")
        r = subprocess.run(["/venv/bin/python", "-m", "pytest", "-q", "-p", "no:cacheprovider", "-p", "no:rerunfailures", "--timeout=900",
                            "--junitxml=" + xml] + norm, cwd=d, env=dict(os.environ, PYTHONPATH=d), capture_output=True, text=True)
        out["pytest_tail"] = r.stdout.strip().splitlines()[-1] if r.stdout.strip() else r.stderr[-200:]
        passed, bad = set(), []
        for tc in ET.parse(xml).getroot().iter("testcase"):
            name = "%s::%s" % (tc.get("classname"), tc.get("name"))
            if any(ch.tag in ("failure", "error") for ch in tc):
                if name in stable:
                    bad.append(name)
            elif not any(ch.tag == "skipped" for ch in tc):
                passed.add(name)
        mods = {f[:-3].replace("/", ".") for f in norm}
        expected = {s for s in stable if s.split("::")[0].rsplit(".", 1)[0] in mods}
        out["stable_expected"] = len(expected)
        out["stable_passed"] = len(expected & passed)
        out["stable_broken"] = sorted(bad) + sorted(expected - passed - set(bad))
        out["tests_ok"] = out["patch_applied"] and not out["stable_broken"]
    finally:
        shutil.rmtree(d, ignore_errors=True)
    print(json.dumps(out))


if __name__ == "__main__":
    main()
