"""re-run every kept seeded change (/verif/seeded/<prop>-<X>/) against the current checks and refresh its meta.json
(python3-vt -m verif.tools.reseed [Cxx ...]).  Uses verif.tools.seedcheck: scratch export of /repo HEAD, never touches /repo."""
import glob
import json
import os
import subprocess
import sys

want = set(sys.argv[1:])
rows = []
for d in sorted(glob.glob("/verif/seeded/C*-*")):
    prop = os.path.basename(d).split("-")[0]
    if want and prop not in want and os.path.basename(d) not in want:
        continue
    pr = subprocess.run(["python3-vt", "-m", "verif.tools.seedcheck", d, prop], capture_output=True, text=True, cwd="/verif")
    try:
        res = json.loads(pr.stdout)
    except Exception:
        rows.append((os.path.basename(d), "ERROR", pr.stderr[-300:]))
        continue
    p = res["props"].get(prop, {})
    meta = json.load(open(os.path.join(d, "meta.json")))
    meta.update({"check_exit": p.get("exit"), "violations": p.get("violations"), "violations_without_real_input": p.get("nofail"),
                 "first_failing_obligation": p.get("first_obligation"), "check_summary": p.get("summary"),
                 "detected": p.get("exit") == 1, "demo_clean_exit": res.get("demo_clean_exit"), "demo_patched_exit": res.get("demo_patched_exit")})
    json.dump(meta, open(os.path.join(d, "meta.json"), "w"), indent=1)
    rows.append((os.path.basename(d), "detected" if p.get("exit") == 1 else "MISSED", res.get("demo_clean_exit"), res.get("demo_patched_exit"),
                 p.get("violations"), p.get("first_obligation")))
    print(*rows[-1], flush=True)
print("MISSED:", [r[0] for r in rows if r[1] != "detected"])
