"""regenerate /verif/MANIFEST.json from the property modules that exist (python3-vt -m verif.tools.mkmanifest)"""
import importlib
import json
import os
import sys

ROOT = os.path.dirname(os.path.dirname(os.path.dirname(os.path.abspath(__file__))))
sys.path.insert(0, "/repo")
sys.path.insert(0, ROOT)

BASELINE = "cd /repo && /venv/bin/python -m pytest -ra -q -p no:cacheprovider --timeout=900 --continue-on-collection-errors"


def main():
    props = [json.loads(l) for l in open(os.path.join(ROOT, "properties.jsonl"))]
    checks, na = [], []
    hold_file = os.path.join(ROOT, "verif", "props", "HOLD")
    hold = set(open(hold_file).read().split()) if os.path.exists(hold_file) else set()
    for p in props:
        pid = p["id"]
        if pid in hold:        # module under construction: not claimed until its check is quiet on the unchanged tree
            na.append({"property_id": pid, "reason": "check under construction, not claimed yet (see DESIGN.md section 11.3)"})
            continue
        try:
            P = importlib.import_module("verif.props." + pid)
        except ModuleNotFoundError:
            na.append({"property_id": pid, "reason": "check not built yet (see DESIGN.md section 9 build order / 9.1 cut line)"})
            continue
        if getattr(P, "NOT_APPLICABLE", None):
            na.append({"property_id": pid, "reason": P.NOT_APPLICABLE})
            continue
        checks.append({
            "property_id": pid,
            "quick_cmd": "python3-vt -m verif.check %s --tier quick" % pid,
            "thorough_cmd": "python3-vt -m verif.check %s --tier thorough" % pid,
            "evidence_file": "/verif/evidence/%s.json" % pid,
            "replay_cmd_template": "python3-vt -m verif.replay {path}",
            "engine": "pyvc",
            "level_claimed": {"category": getattr(P, "CATEGORY", "proof"), "text": P.LEVEL_TEXT, "design_ref": "DESIGN.md section 6, " + pid},
            "level_note": P.LEVEL_NOTE,
            "technique": getattr(P, "TECHNIQUE", "contract-based deductive verification: sidecar contracts on the real functions, VCs generated from /repo's AST by pyvc, discharged by z3; bounded run-time contract companion"),
        })
    m = {
        "version": 1,
        "setup_cmd": "cd /verif && python3-vt -m compileall -q verif >/dev/null 2>&1; python3-vt -c 'import z3'",
        "hooks": {"guard": "BUIDL_PYTHON_VERIF",
                  "enable": "no source hooks: contracts are sidecars under /verif/verif/contracts; the checks read /repo's working tree (ast + import) directly; the variable is set by the checks but nothing in /repo reads it",
                  "baseline_off_cmd": BASELINE, "source_commits": [], "add_only": True},
        "engines": [{"name": "pyvc", "path": "/verif/verif/pyvc", "serves_properties": [c["property_id"] for c in checks],
                     "kind_free_text": "VC generator over the real Python source (ast) + z3; sidecar contracts; concrete replay and bounded run-time contract checking"}],
        "checks": checks,
        "notes": "see DESIGN.md; KNOWN_FINDINGS.jsonl lists recorded and repaired defects",
        "not_applicable": na,
    }
    import jsonschema
    jsonschema.validate(m, json.load(open("/root/.vp/MANIFEST.schema.json")))
    json.dump(m, open(os.path.join(ROOT, "MANIFEST.json"), "w"), indent=1)
    print("claimed:", [c["property_id"] for c in checks], "n/a:", len(na))


if __name__ == "__main__":
    main()
