"""run the quick (or thorough) check of every claimed property and print one line each"""
import json
import subprocess
import sys
import time

tier = sys.argv[1] if len(sys.argv) > 1 else "quick"
m = json.load(open("/verif/MANIFEST.json"))
bad = 0
for c in m["checks"]:
    cmd = c["quick_cmd"] if tier == "quick" else c["thorough_cmd"]
    t0 = time.time()
    pr = subprocess.run(cmd, shell=True, cwd="/verif", capture_output=True, text=True)
    lines = pr.stdout.strip().splitlines()
    nv = sum(l.startswith("VIOLATION") for l in lines)
    nk = sum(l.startswith("KNOWN-FINDING") for l in lines)
    ne = sum(l.startswith("CHECKER-ERROR") for l in lines)
    print("%s exit=%d viol=%d known=%d err=%d %.0fs | %s" % (c["property_id"], pr.returncode, nv, nk, ne, time.time() - t0, lines[-1] if lines else pr.stderr[-200:]), flush=True)
    bad += pr.returncode != 0
print("BAD", bad)
