"""Cross-check of the symbolic engine against CPython (assumption A-ENGINE): every contract that has a generator is run on
concrete inputs twice -- by CPython through verif/rt.py (real function, clauses evaluated by eval) and by the pyvc
interpreter with the same concrete values in place of symbols (real source re-interpreted, clauses evaluated by the engine).
The two verdicts (precondition false / all clauses hold / some clause violated / outcome return|raise) must agree.

    python3-vt -m verif.tools.crosscheck [Cxx ...] [--n 6]      exit 0: no disagreement; 1: disagreement (engine defect)
"""
import json
import multiprocessing as mp
import os
import random
import sys
import time

sys.path.insert(0, os.environ.get("VERIF_REPO", "/repo"))


def one(args):
    name, n = args
    from verif.pyvc import verifier
    import verif.contracts  # noqa
    from verif import rt
    import contextlib
    import io
    c = verifier.REG.contracts[name]
    out = {"contract": name, "compared": 0, "agree": 0, "skipped": 0, "disagree": []}
    if c.gen is None or c.setup is not None and not hasattr(c.setup, "conc"):
        return out
    if getattr(c, "nl_uf", False) or getattr(c, "group_axioms", False) or "runtime-only" in c.tiers or not c.tiers:
        return out      # discrete-log / abstract-group contracts have no concrete counterpart in the engine; run-time-only ones are never run symbolically
    rng = random.Random(12345)
    k = 0
    import signal

    class _Slow(Exception):
        pass

    def _alarm(*_a):
        raise _Slow()
    signal.signal(signal.SIGALRM, _alarm)
    t_contract = time.time()
    with contextlib.redirect_stdout(io.StringIO()):
        for inputs in c.gen(rng, "quick"):
            if k >= n or time.time() - t_contract > 40:
                break
            k += 1
            try:
                signal.alarm(20)        # interpreting pure-Python elliptic-curve code in the engine is too slow to be useful here
                r1 = rt.run_concrete(c, inputs)
                built = {kk: rt.build_value(v) for kk, v in inputs.items()}
                res, st = verifier.verify_contract(c, timeout_ms=5000, concrete=built)
            except BaseException as e:
                signal.alarm(0)
                out["skipped"] += 1
                continue
            signal.alarm(0)
            statuses = [r.status for r in res]
            if any(s in ("undecided", "unknown", "error") for s in statuses):
                out["skipped"] += 1          # the engine does not handle this input class concretely (e.g. theory points, strings)
                continue
            if st.get("paths", 0) > 1:
                # concrete inputs, several paths: the engine abstracted a concrete computation (uninterpreted hash compared with a
                # constant, curve theory, ...).  That is an over-approximation; what can be checked is that CPython's outcome is
                # one of the engine's paths
                kinds = (["return"] if st.get("paths_returning") else []) + (["raise"] if st.get("paths_raising") else [])
                out["abstracted"] = out.get("abstracted", 0) + 1
                if r1["status"] != "pre-false" and not any(r1.get("outcome", "").startswith(kd) for kd in kinds):
                    out["disagree"].append({"inputs": verifier.jsonable(inputs), "cpython": r1.get("outcome"), "engine": "paths " + ",".join(kinds)})
                continue
            if r1["status"] == "pre-false":
                v2 = "pre-false" if not statuses else "ran"
                ok = v2 == "pre-false"
            else:
                if not statuses:
                    v2, ok = "pre-false", False
                else:
                    v2 = "violated" if "fail" in statuses else "ok"
                    ok = v2 == r1["status"]
                    oc = "return" if st.get("paths_returning") else ("raise" if st.get("paths_raising") else "?")
                    if ok and not r1.get("outcome", "").startswith(oc):
                        ok = False
                        v2 += " outcome " + oc
            out["compared"] += 1
            if ok:
                out["agree"] += 1
            elif len(out["disagree"]) < 3:
                out["disagree"].append({"inputs": verifier.jsonable(inputs), "cpython": {kk: r1.get(kk) for kk in ("status", "violated", "outcome")},
                                        "engine": v2, "engine_clauses": [(r.name, r.status) for r in res if r.status != "ok"][:4]})
    return out


def main():
    from verif.pyvc import verifier
    import verif.contracts  # noqa
    args = [a for a in sys.argv[1:] if not a.startswith("--")]
    n = 6
    if "--n" in sys.argv:
        n = int(sys.argv[sys.argv.index("--n") + 1])
        args = [a for a in args if a != str(n)]
    names = [nm for nm, c in verifier.REG.contracts.items() if (not args or any(p in c.props for p in args))]
    t0 = time.time()
    outs = []
    pending = set(names)
    with mp.get_context("fork").Pool(16) as pool:
        it = pool.imap_unordered(one, [(nm, n) for nm in names], chunksize=1)
        while pending:
            try:
                o = it.next(timeout=300)
            except mp.TimeoutError:
                # a worker that neither finishes nor honours its alarm (stuck inside a solver call): give up on the rest
                sys.stderr.write("crosscheck: no result for 300 s, abandoning %d contracts: %s\n" % (len(pending), sorted(pending)[:20]))
                break
            except StopIteration:
                break
            outs.append(o)
            pending.discard(o["contract"])
        pool.terminate()
    tot = {"contracts": len(names), "abandoned": sorted(pending), "compared": sum(o["compared"] for o in outs), "agree": sum(o["agree"] for o in outs),
           "skipped": sum(o["skipped"] for o in outs), "abstracted": sum(o.get("abstracted", 0) for o in outs), "wall_s": round(time.time() - t0, 1)}
    bad = [o for o in outs if o["disagree"]]
    root = os.path.dirname(os.path.dirname(os.path.dirname(os.path.abspath(__file__))))
    os.makedirs(os.path.join(os.environ.get("VERIF_OUT_DIR", root), "crosscheck"), exist_ok=True)
    json.dump({"summary": tot, "per_contract": [{k: o[k] for k in ("contract", "compared", "agree", "skipped")} | {"abstracted": o.get("abstracted", 0)} for o in outs],
               "disagreements": bad}, open(os.path.join(os.environ.get("VERIF_OUT_DIR", root), "crosscheck", "engine_crosscheck.json"), "w"), indent=1, default=repr)
    print("crosscheck", tot, "disagreeing contracts:", len(bad))
    for o in bad[:20]:
        print("  DISAGREE", o["contract"], json.dumps(o["disagree"][0], default=repr)[:600])
    sys.exit(1 if bad else 0)


if __name__ == "__main__":
    main()
