"""print the DESIGN.md section-12 table from /verif/seeded/*/meta.json"""
import glob
import json
import re

SHORT = {
    'C01-A': ('`deterministic_k`: `z >= N` → `z > N`', 'digest exactly n'),
    'C01-B': ('`S256Point.verify`: dropped `% N` in `R.x % N == r`', 'R.x in [n, p) (2^-128)'),
    'C02-A': ('`bip340_k`: masked secret reduced mod N', "bytes(d') xor H_aux(aux) ≥ n (2^-128)"),
    'C02-B': ('`verify_schnorr`: class-level cache keyed without the message', 'accept a triple, then same (key, sig) with another message'),
    'C03-A': ('`FieldElement.__add__`: `% p` → one conditional subtraction with `>`', 'a + b == p exactly'),
    'C03-B': ('`Point.__rmul__`: `while coef > 1` + final add', 'scalar ≡ 0 (mod n)'),
    'C04-A': ('`encode_varint`: `i < 0xFD` → `i <= 0xFD`', 'a count/length of exactly 253'),
    'C04-B': ('`TxFetcher.fetch`: response cached before the "server lied" check', 'lying server, then second fetch of the same id'),
    'C05-A': ('`sig_hash_bip143`: hashOutputs test without `& 3`', 'hash types 0x82 / 0x83'),
    'C05-B': ('`sha_prevouts`: midstates memoised on the outpoint list only', 'digest, edit a sequence, digest again'),
    'C06-A': ('`verify_input`: P2SH-wrapped witness program accepts extra small-int opcodes in scriptSig', 'scriptSig `OP_1 <redeem>`'),
    'C06-B': ('`op_checkmultisig`: key index not advanced after a match', 'same signature supplied m times'),
    'C07-A': ('`Locktime.is_comparable`: truthiness of block height', 'CLTV operand exactly 0'),
    'C07-B': ('`op_if`/`op_notif`: second `OP_ELSE` no longer toggles', 'two `OP_ELSE` at one nesting level'),
    'C08-A': ('`HDPublicKey.child`: `copy(self)` keeps the parent\'s memoised `_raw`', 'parent serialised before `child()`; then `child.raw_serialize()`'),
    'C08-B': ('`traverse`: per-component parser drops an upper-case `H` marker', 'path written with `H` (e.g. `m/44H/0`)'),
    'C09-A': ('WIF decoder: compressed flag from the last byte instead of payload length', 'uncompressed WIF whose secret ends in 0x01'),
    'C09-B': ('`decode_bech32`: either checksum constant accepted, version cross-check only for v0', 'v1+ address with Bech32 (not Bech32m) checksum'),
    'C10-A': ('`PSBTIn.finalize` (p2wsh): surplus signatures truncated from the wrong end', 'more than m signers, dict order ≠ script order'),
    'C10-B': ('`PSBT.validate`: memo of checked (pubkey, sig) pairs across inputs', 'signature of input 0 replayed on input 1 with the same key'),
    'C11-A': ('`PSBTIn.validate`: both UTXO records compared by scriptPubKey only', 'segwit input with both records, altered witness amount'),
    'C11-B': ('`PSBTOut.validate`: nested output no longer ties scriptPubKey to RedeemScript', 'change metadata re-dressed as P2SH-P2WSH under a foreign P2SH hash'),
    'C12-A': ('`ControlBlock.external_pubkey`: `internal_pubkey + t` without even-Y normalisation', 'odd-Y internal key on a block built by `control_block()` (not re-parsed)'),
    'C12-B': ('`TapBranch.external_pubkey` memoised, ignoring the internal key', 'one tree object used with a second internal key'),
    'C13-A': ('`MuSigTapScript.get_signature`: negate when parities differ instead of when the output key is odd', 'merkle root given and odd-Y aggregate key'),
    'C13-B': ('`TapRootMultiSig.__init__`: `not 0 < k < n`', 'k == n'),
    'C14-A': ('`WordList.__contains__`/`normalize`: prefixes count as words', 'mnemonic with four-letter prefixes → different seed'),
    'C14-B': ('`PBKDF2._setup`: pre-hash keys with `len >= block_size`', 'sentence of exactly 128 bytes'),
    'C15-A': ('`Share.mnemonic`: member index/threshold nibbles swapped', 'member_index ≠ member_threshold − 1'),
    'C15-B': ('`Share.__init__`: `group_index` range check `< 15`', '16 groups'),
    'C16-A': ("`P2WSHSortedMulti.get_address`: first cosigner's account index used for all", 'cosigners with different branch indexes'),
    'C16-B': ('`parse_partial_key_record`: fingerprint lower-cased', 'upper-case hex letter in a fingerprint must break the checksum'),
    'C17-A': ('`MerkleTree.__init__`: integer depth loop starts at 1', 'block with exactly one transaction'),
    'C17-B': ('`target_to_bits`: sign test `> 0x7f` → `> 0x80`', 'leading byte exactly 0x80'),
    'C18-A': ('`SipHash_2_4.hash`: length byte not reduced mod 256', 'element ≥ 256 bytes'),
    'C18-B': ('`murmur3`: tail switch `val > 2`', 'length ≡ 2 (mod 4) with non-zero last byte'),
    'C19-A': ('`encode_varint`: `i <= 0xFD`', 'value exactly 253'),
    'C19-B': ('`NetworkEnvelope.parse`: early return for empty payload skips checksum', 'length 0 and wrong checksum'),
    'C20-A': ('`bcur_decode`: falsy result treated as malformed', 'empty payload'),
    'C20-B': ('`cbor_decode`: width `b - 0x57` for 0x5A', 'payload ≥ 65536 bytes'),
    'C01-C': ('`S256Point.verify`: `total.x.num == sig.r` ("r is already range-checked")', 'valid tuple with x(R) in [n, p) (built by key recovery)'),
    'C02-C': ('`sign_schnorr`: class-level nonce cache keyed by (msg, aux) without the secret', 'two keys sign the same message with the same aux in one process'),
    'C03-C': ('`S256Field.__init__` skips the range check; `parse_xonly` gets its own `x >= p` test', 'SEC string with a coordinate in [p, 2^256) congruent to a curve point'),
    'C04-C': ('`TxFetcher.fetch`: single cache lookup, parsed tx stored before the id check', 'lying server, then non-fresh fetch of the same id'),
    'C05-C': ('`TxIn.__init__` keeps `Sequence` objects / truthiness test; legacy sighash passes plain `0`', 'legacy NONE/SINGLE digest with >= 2 inputs'),
    'C06-C': ('`op_checkmultisig`: empty signature element skipped with `continue`', 'multisig spend with an empty signature slot'),
    'C07-C': ('`Sequence.__lt__`: plain integer order for comparable sequences', 'CSV operand or input sequence with bits 16-21 / 23-30 set'),
    'C08-C': ('`HDPrivateKey.child`: module-level memo keyed by (xprv bytes, index)', 'same seed under two SLIP-132 flavours / networks sharing the private version'),
    'C09-C': ('`PrivateKey.parse` (WIF): compressed flag inferred from the last byte', 'uncompressed WIF whose secret ends in 0x01'),
    'C10-C': ('`PSBT.sign*`: inputs that already hold m partial signatures are skipped', 'more than m cosigners signing the same PSBT object one after another'),
    'C11-C': ('describe: derived cosigner keys memoised per (fingerprint, path), xpub left out', 'foreign PSBT carrying the reviewer\'s fingerprints described first, then change redirected to it'),
    'C12-C': ('`TapBranch.path_hashes`: per-branch memo keyed by the script bytes only', 'same script under two leaf versions, both control blocks from one tree object'),
    'C13-C': ('`MuSigTapScript.session`: one-slot memo keyed by (r, message) without the merkle root', 'one script object, same nonces and message, two merkle roots'),
    'C14-C': ('`PBKDF2._pseudorandom`: precomputed HMAC pad states, key hashed when `len >= block_size`', 'sentence of exactly 128 bytes'),
    'C15-C': ('`ShareSet.__init__`: repeated (group, member) indexes dropped before the consistency checks', 'foreign share at an index already present, threshold still met'),
    'C16-C': ('`P2WSHSortedMulti`: parent keys cached in supplied order, records sorted afterwards', 'unsorted key records with differing account indexes'),
    'C17-C': ('`target_to_bits`: integer rewrite with `coefficient > 0x800000`', 'target whose top three digits are exactly 80 00 00'),
    'C18-C': ('`murmur3`: 32-bit reductions everywhere except the initial seed', 'seed >= 2^32 and item shorter than 4 bytes'),
    'C19-C': ('`Block.parse_header`: version read as signed int32', 'header version >= 0x80000000'),
    'C20-C': ('`BCURMulti.parse`: part whose payload text equals the previous part is skipped', 'two neighbouring parts with identical bc32 text'),
}
NOTES = {
    'C03-C': 'missed at first (decode-then-encode still round-trips); contracts `parse_coords#len33/65` (decoded coordinates canonical and on the curve, x >= p refused) added, fails deductively',
    'C11-C': 'missed at first; history entry `C11.history.*` (foreign PSBT described first, fresh address indexes) added to the describe jobs',
    'C13-C': 'missed at first; history contract `musig_two_sessions` (one object, two merkle roots) added',
    'C18-C': 'fixed-length murmur3 contracts now decided in 32-bit mode for seeds up to 2^38; loop-preservation of `murmur3#anylen` fails too',
    'C01-B': 'first run: obligation failed without a real input; generator got x ≥ n tuples',
    'C02-A': 'first run: 28 failed obligations without a real input; generator now constructs keys whose masked secret is ≥ n',
    'C04-B': 'missed at first; `fetch_twice` history harness + contract added',
    'C08-A': 'missed at first (30 obligations went undecided on `copy.copy`); history contracts `*_child_after_serialize` added and `copy.copy` modelled in the engine',
    'C12-B': 'missed at first; history contract `tree2_reused` (same tree, two internal keys) added',
    'C18-A': 'caught by the run-time companion only at first; contract `SipHash_2_4.hash#state-tail*` (finalisation from any absorbed state, 128-bit vectors) added, now fails deductively',
    'C10-B': 'missed at first; reject-at-load catalogue got the replay-across-inputs case',
    'C11-A': 'missed at first; tamper catalogue got the both-records entries',
    'C11-B': 'missed at first; tamper catalogue got the nested-metadata entries',
}

print("| seed | change | needs | first failing obligation / job | deductive obligations failing | violations | note |")
print("|---|---|---|---|---|---|---|")
for d in sorted(glob.glob('/verif/seeded/*/meta.json')):
    m = json.load(open(d))
    k = m['property'] + '-' + m['seed']
    s = m.get('check_summary') or ''
    f = int(re.search(r'failing=(\d+)', s).group(1))
    v = int(re.search(r'violations=(\d+)', s).group(1))
    fo = m.get('first_failing_obligation') or ''
    sh = SHORT.get(k, ((m.get('what_changed') or '')[:90], (m.get('needs_to_manifest') or '')[:70]))
    print('| %s | %s | %s | `%s` | %d | %d | %s |' % (k, sh[0], sh[1], fo, f, v, NOTES.get(k, '')))
