from . import helper, network  # noqa
