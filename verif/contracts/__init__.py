"""importing this package registers every contract file in the directory"""
import importlib
import os
import pkgutil

for _m in sorted(pkgutil.iter_modules([os.path.dirname(__file__)]), key=lambda m: m.name):
    if _m.name != "common":
        importlib.import_module(__name__ + "." + _m.name)
