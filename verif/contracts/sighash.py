"""C05: signature hashes (buidl/tx.py sig_hash_legacy / sig_hash_bip143 / sig_hash_bip341 / sig_hash and their
memoised midstates) against the independent spec verif/specs/sighash.py.

Contracts are on the API-level harnesses of verif/harness/sighash.py: a 2-input transaction (symbolic fields)
is built through the constructors, the spent outputs are preset, and the digest for one CONCRETE hash type is
compared with the spec digest.  Hash functions are uninterpreted-but-deterministic in the engine, so
`hash(a) == hash(b)` is provable exactly when the engine can show a == b (a violation needs a != b, which the
replay on the real code then confirms with real SHA-256)."""
from .common import *  # noqa
from .txcodec import (lst, tup, ntx, ntxin, ntxout, U32, H20, H32, P2PKH, P2WPKH, P2TR, W300,
                      rand_ntxin, rand_ntxout, rand_witness, std_script, pick, U32B, rand_cmds)

H = "verif.harness.sighash."
S = "spec.sighash."
A63 = ("int", 0, 2**63 - 1)                 # amounts of the property: [0, 2^63)
LEGACY_TYPES = [1, 2, 3, 0x81, 0x82, 0x83]
TAPROOT_TYPES = [0, 1, 2, 3, 0x81, 0x82, 0x83]
IDX2 = ("choice", [0, 1])


def nout63(spk):
    return tup(A63, lst(*spk))


def spent_of(*spks):
    return lst(*[tup(A63, lst(*spk)) for spk in spks])


SIG64 = "bytes:64"
SIG65 = "bytes:65"


# ---------------------------------------------------------------------------- concrete generators
def valid_xonly(rng):
    """x coordinate of a point on secp256k1 (x^3 + 7 is a square mod p)"""
    p = 2**256 - 2**32 - 977
    while True:
        x = rng.getrandbits(256) % p
        if pow((x * x * x + 7) % p, (p - 1) // 2, p) == 1:
            return x.to_bytes(32, "big")


def rand_annex(rng):
    return b"\x50" + rand_bytes(rng, rng.choice([0, 1, 10, 252, 253, 300]))


def taproot_witness(rng, mode):
    """mode: 'empty' (before signing), 'key', 'key+annex', 'script', 'script+annex'"""
    if mode == "empty":
        return []
    if mode.startswith("key"):
        sig = rand_bytes(rng, rng.choice([64, 65]))
        if rng.random() < 0.15:
            sig = b"\x50" + sig[1:]           # a signature may begin with the annex tag byte
        w = [sig]
    else:
        script = __import__("verif.specs", fromlist=["txwire"]).txwire.script_ser(
            [rand_bytes(rng, 32), 0xAC] if rng.random() < 0.7 else [0x51])
        if "nonmin" in mode:                   # consensus-valid tapscript with a non-minimal push (OP_PUSHDATA1 for 1..75 bytes)
            data = rand_bytes(rng, rng.randrange(1, 76))
            script = b"\x4c" + bytes([len(data)]) + data + b"\x75" + script
        control = bytes([0xC0 | rng.randrange(2)]) + valid_xonly(rng) + rand_bytes(rng, 32 * rng.randrange(0, 3))
        w = [rand_bytes(rng, 64), script, control]
    if mode.endswith("annex"):
        w.append(rand_annex(rng))
    return w


STD_KINDS = ["p2pkh", "p2sh", "p2wpkh", "p2wsh", "p2tr", "multisig"]


def std5(rng, kind=None):
    """scripts of the standard kinds (no 75-byte push: that serialiser defect belongs to C04)"""
    kind = kind or rng.choice(STD_KINDS + ["opreturn"])
    if kind == "opreturn":
        return [0x6A, rand_bytes(rng, rng.choice([0, 20, 40, 76, 80]))]
    return std_script(rng, kind)


def spk_for(rng, alg):
    if alg == "legacy":
        return std5(rng, rng.choice(["p2pkh", "multisig", "p2sh"]))
    if alg == "bip143":
        return std_script(rng, "p2wpkh")
    if alg == "bip341":
        return std5(rng, rng.choice(["p2tr", "p2tr", "p2tr", "p2wpkh", "p2pkh"]))
    return std5(rng)


def gen_case(rng, alg, n_in, n_out, i, ht, wmode="empty"):
    ins = [rand_ntxin(rng, witness=False, script_sig=[]) for _ in range(n_in)]
    if alg == "bip341" and i < n_in:
        ins[i] = ins[i][:4] + (taproot_witness(rng, wmode),)
    outs = [(pick(rng, [0, 1, 546, 2**63 - 1], 62), std5(rng)) for _ in range(n_out)]
    tx = (rng.choice([1, 2, 2, 0xFFFFFFFF]), ins, outs, pick(rng, U32B, 32))
    spent = [(pick(rng, [0, 1, 2**63 - 1], 62), spk_for(rng, alg)) for _ in range(n_in)]
    if alg == "bip341" and i < n_in:
        spent[i] = (spent[i][0], std_script(rng, "p2tr"))
    return {"tx": tx, "spent": spent, "i": i, "hash_type": ht}


def gen_alg(alg, types, wmodes=("empty",), extra=None, fixed_ht=None):
    """all hash types x 1..6 inputs x 0..6 outputs x input indexes (SINGLE with i >= len(outs) included),
    boundary shapes first, then seeded random ones"""
    def gen(rng, tier):
        hts = [fixed_ht] if fixed_ht is not None else types
        shapes = [(2, 2), (1, 0), (1, 1), (2, 1), (3, 2), (6, 6), (6, 0), (4, 3), (5, 1)]
        for (n_in, n_out) in shapes:
            for ht in hts:
                for i in range(n_in):
                    for wm in wmodes:
                        d = gen_case(rng, alg, n_in, n_out, i, ht, wm)
                        if extra:
                            extra(rng, d)
                        yield d
        while True:
            n_in, n_out = rng.randrange(1, 7), rng.randrange(0, 7)
            d = gen_case(rng, alg, n_in, n_out, rng.randrange(n_in), rng.choice(hts), rng.choice(wmodes))
            if extra:
                extra(rng, d)
            yield d
    return gen


# ---------------------------------------------------------------------------- legacy
TX22_LEGACY = ntx([ntxin([], []), ntxin([], [])], [nout63(P2PKH), nout63(P2WPKH)])
TX21_LEGACY = ntx([ntxin([], []), ntxin([], [])], [nout63(P2PKH)])
SP22_PKH = spent_of(P2PKH, P2PKH)
LEGACY_ENS = ["returns()",
              "implies(returns(), result == spec.int_be(" + S + "legacy_digest(tx, i, spent[i][1], hash_type)))"]
for _ht in LEGACY_TYPES:
    contract(H + "legacy#ht%02x" % _ht, props=("C05",),
             params={"tx": TX22_LEGACY, "spent": SP22_PKH, "i": IDX2, "hash_type": const(_ht)},
             ensures=LEGACY_ENS, gen=gen_alg("legacy", LEGACY_TYPES, fixed_ht=_ht))
# the two "signs the constant 1" cases of the original algorithm
contract(H + "legacy#index_out_of_range", props=("C05",),
         params={"tx": TX22_LEGACY, "spent": SP22_PKH, "i": ("choice", [2, 3]), "hash_type": ("choice", LEGACY_TYPES)},
         ensures=["returns()", "implies(returns(), result == 1 << 248)",
                  "implies(returns(), result == spec.int_be(" + S + "legacy_digest(tx, i, [], hash_type)))"])
contract(H + "legacy#single_without_output", props=("C05",),
         params={"tx": TX21_LEGACY, "spent": SP22_PKH, "i": const(1), "hash_type": ("choice", [3, 0x83])},
         ensures=["returns()", "implies(returns(), result == 1 << 248)"] + LEGACY_ENS[1:])


def _with_redeem(rng, d):
    d["redeem"] = std_script(rng, "multisig")
    d["spent"][d["i"]] = (d["spent"][d["i"]][0], std_script(rng, "p2sh"))


MULTISIG_1OF2 = [const(0x51), "bytes:33", "bytes:33", const(0x52), const(0xAE)]
contract(H + "legacy_redeem", props=("C05",),
         params={"tx": TX22_LEGACY, "spent": spent_of([const(0xA9), H20, const(0x87)], P2PKH), "i": const(0),
                 "redeem": lst(*MULTISIG_1OF2), "hash_type": ("choice", LEGACY_TYPES)},
         ensures=["returns()", "implies(returns(), result == spec.int_be(" + S + "legacy_digest(tx, i, redeem, hash_type)))"],
         gen=gen_alg("legacy", LEGACY_TYPES, extra=_with_redeem))


# ---------------------------------------------------------------------------- BIP143
TX22_SEGWIT = ntx([ntxin([], []), ntxin([], [])], [nout63(P2PKH), nout63(P2WPKH)])
TX21_SEGWIT = ntx([ntxin([], []), ntxin([], [])], [nout63(P2TR)])
SP22_WPKH = spent_of(P2WPKH, P2WPKH)
B143_ENS = ["returns()",
            "implies(returns(), result == spec.int_be(" + S + "bip143_digest(tx, i, " + S + "p2pkh_script(spent[i][1][1]), spent[i][0], hash_type)))"]
for _ht in LEGACY_TYPES:
    contract(H + "bip143_p2wpkh#ht%02x" % _ht, props=("C05",),
             params={"tx": TX22_SEGWIT, "spent": SP22_WPKH, "i": IDX2, "hash_type": const(_ht)},
             ensures=B143_ENS, gen=gen_alg("bip143", LEGACY_TYPES, fixed_ht=_ht))
# BIP143: SINGLE with no output of the same index -> hashOutputs is 32 zero bytes (no failure, no constant)
contract(H + "bip143_p2wpkh#single_without_output", props=("C05",),
         params={"tx": TX21_SEGWIT, "spent": SP22_WPKH, "i": const(1), "hash_type": ("choice", [3, 0x83])},
         ensures=B143_ENS)


def _with_wsh(rng, d):
    d["witness_script"] = std_script(rng, rng.choice(["multisig", "p2pkh"]))
    d["spent"][d["i"]] = (d["spent"][d["i"]][0], std_script(rng, "p2wsh"))


def _with_h160(rng, d):
    d["h160"] = rand_bytes(rng, 20)
    d["spent"][d["i"]] = (d["spent"][d["i"]][0], std_script(rng, "p2sh"))


contract(H + "bip143_p2wsh", props=("C05",),
         params={"tx": TX22_SEGWIT, "spent": spent_of([const(0), H32], P2WPKH), "i": const(0),
                 "witness_script": lst(*MULTISIG_1OF2), "hash_type": ("choice", LEGACY_TYPES)},
         ensures=["returns()", "implies(returns(), result == spec.int_be(" + S + "bip143_digest(tx, i, witness_script, spent[i][0], hash_type)))"],
         gen=gen_alg("bip143", LEGACY_TYPES, extra=_with_wsh))
contract(H + "bip143_p2sh_p2wpkh", props=("C05",),
         params={"tx": TX22_SEGWIT, "spent": spent_of([const(0xA9), H20, const(0x87)], P2WPKH), "i": const(0),
                 "h160": H20, "hash_type": ("choice", LEGACY_TYPES)},
         ensures=["returns()", "implies(returns(), result == spec.int_be(" + S + "bip143_digest(tx, i, " + S + "p2pkh_script(h160), spent[i][0], hash_type)))"],
         gen=gen_alg("bip143", LEGACY_TYPES, extra=_with_h160))


# ---------------------------------------------------------------------------- BIP341
SP22_TR = spent_of(P2TR, P2TR)
SP22_TR_MIXED = spent_of(P2TR, P2WPKH)
B341_ENS = ["implies(" + S + "bip341_valid(tx, i, hash_type), returns())",
            "implies(not " + S + "bip341_valid(tx, i, hash_type), not returns())",
            "implies(returns(), result == " + S + "bip341_digest_for_witness(tx, i, spent, hash_type, ext_flag))"]


def tx22_taproot(witness0, n_out=2):
    return ntx([ntxin([], witness0), ntxin([], [])], [nout63(P2TR), nout63(P2PKH)][:n_out])


def _ext(v):
    def f(rng, d):
        d["ext_flag"] = v
    return f


WITNESS_SHAPES = {
    "unsigned": ([], "empty"),                        # digest computed for signing: no witness yet
    "key": ([SIG64], "key"),                          # one element: a signature -- never an annex, whatever its first byte
    "key65": ([SIG65], "key"),
    "key_annex": ([SIG64, ("bytes", 1, 40)], "key+annex"),
}
for _ht in TAPROOT_TYPES:
    for _wn, (_ws, _wm) in WITNESS_SHAPES.items():
        contract(H + "bip341#%s_ht%02x" % (_wn, _ht), props=("C05",),
                 params={"tx": tx22_taproot(_ws), "spent": SP22_TR_MIXED, "i": const(0), "ext_flag": const(0), "hash_type": const(_ht)},
                 requires=["tx[1][0][4][1][0] == 0x50"] if _wn == "key_annex" else [],
                 ensures=B341_ENS,
                 gen=gen_alg("bip341", TAPROOT_TYPES, wmodes=("empty", "key", "key+annex"), extra=_ext(0), fixed_ht=_ht) if _wn == "key" else None)
contract(H + "bip341#second_input", props=("C05",),
         params={"tx": ntx([ntxin([], []), ntxin([], [SIG64])], [nout63(P2TR), nout63(P2PKH)]), "spent": spent_of(P2WPKH, P2TR),
                 "i": const(1), "ext_flag": const(0), "hash_type": ("choice", TAPROOT_TYPES)},
         ensures=B341_ENS)
contract(H + "bip341#single_without_output", props=("C05",),
         params={"tx": ntx([ntxin([], []), ntxin([], [])], [nout63(P2TR)]), "spent": SP22_TR,
                 "i": const(1), "ext_flag": const(0), "hash_type": ("choice", [3, 0x83])},
         ensures=B341_ENS)
# script path (BIP342 extension): [arg, script, control block] (+ annex)
contract(H + "bip341#script_path", props=("C05",),
         params={"tx": tx22_taproot([SIG64, ("bytes", 1, 40), "bytes:33"]), "spent": SP22_TR, "i": const(0), "ext_flag": const(1),
                 "hash_type": ("choice", TAPROOT_TYPES)},
         ensures=B341_ENS,
         tiers=(),     # deductive job disabled: ControlBlock.parse -> S256Point.parse_xonly (field square root) does not terminate in the engine
         gen=gen_alg("bip341", TAPROOT_TYPES, wmodes=("script", "script+annex"), extra=_ext(1)))


# ---------------------------------------------------------------------------- Tx.sig_hash (dispatch)
DISPATCH_ENS = ["implies(" + S + "spend_digest(tx, i, spent, hash_type) is not None, returns())",
                "implies(returns(), result == " + S + "library_value(" + S + "spend_digest(tx, i, spent, hash_type), " + S + "classify(spent[i][1])))"]


def gen_dispatch(kinds, types):
    def gen(rng, tier):
        import verif.specs as sp
        while True:
            for kind in kinds:
                n_in, n_out = rng.randrange(1, 5), rng.randrange(1, 5)
                i = rng.randrange(n_in)
                ht = rng.choice(types)
                d = gen_case(rng, "any", n_in, n_out, i, ht)
                ins, spent = d["tx"][1], d["spent"]
                for k in range(n_in):
                    spent[k] = (spent[k][0], std_script(rng, rng.choice(["p2pkh", "p2wpkh", "p2tr"])))
                inp = ins[i]
                if kind == "p2pkh":
                    spk, ssig, wit = std_script(rng, "p2pkh"), [], []
                elif kind == "bare_multisig":
                    spk, ssig, wit = std_script(rng, "multisig"), [], []
                elif kind == "p2sh_multisig":
                    redeem = sp.txwire.script_ser(std_script(rng, "multisig"))
                    spk, ssig, wit = [0xA9, sp.hash160(redeem), 0x87], [0, rand_bytes(rng, 71), redeem], []
                elif kind == "p2wpkh":
                    spk, ssig, wit = std_script(rng, "p2wpkh"), [], rng.choice([[], [rand_bytes(rng, 71), rand_bytes(rng, 33)]])
                elif kind == "p2sh_p2wpkh":
                    redeem = sp.txwire.script_ser([0, rand_bytes(rng, 20)])
                    spk, ssig, wit = [0xA9, sp.hash160(redeem), 0x87], [redeem], [rand_bytes(rng, 71), rand_bytes(rng, 33)]
                elif kind == "p2wsh":
                    ws = sp.txwire.script_ser(std_script(rng, "multisig"))
                    spk, ssig, wit = [0, sp.sha256(ws)], [], [b"", rand_bytes(rng, 71), ws]
                elif kind == "p2wsh_nonmin":        # witness script with a non-minimal push: scriptCode is the raw witnessScript
                    data = rand_bytes(rng, rng.randrange(1, 76))
                    ws = b"\x4c" + bytes([len(data)]) + data + b"\x75" + sp.txwire.script_ser(std_script(rng, "multisig"))
                    spk, ssig, wit = [0, sp.sha256(ws)], [], [b"", rand_bytes(rng, 71), ws]
                elif kind == "p2sh_p2wsh":
                    ws = sp.txwire.script_ser(std_script(rng, "multisig"))
                    redeem = sp.txwire.script_ser([0, sp.sha256(ws)])
                    spk, ssig, wit = [0xA9, sp.hash160(redeem), 0x87], [redeem], [b"", rand_bytes(rng, 71), ws]
                else:      # p2tr:<mode>
                    spk, ssig, wit = std_script(rng, "p2tr"), [], taproot_witness(rng, kind.split(":")[1])
                ins[i] = (inp[0], inp[1], ssig, inp[3], wit)
                spent[i] = (spent[i][0], spk)
                yield d
    return gen


contract(H + "dispatch#legacy_and_v0", props=("C05",),
         params={"tx": ntx([ntxin([], [("bytes", 9, 73), "bytes:33"]), ntxin([], [])], [nout63(P2PKH), nout63(P2WPKH)]),
                 "spent": spent_of(P2WPKH, P2PKH), "i": IDX2, "hash_type": ("choice", LEGACY_TYPES)},
         ensures=DISPATCH_ENS,
         gen=gen_dispatch(["p2pkh", "bare_multisig", "p2sh_multisig", "p2wpkh", "p2sh_p2wpkh", "p2wsh", "p2sh_p2wsh"], LEGACY_TYPES))
for _wn, (_ws, _wm) in (("key", ([SIG64], None)), ("key_annex", ([SIG64, ("bytes", 1, 40)], None))):
    contract(H + "dispatch#taproot_" + _wn, props=("C05",),
             params={"tx": tx22_taproot(_ws), "spent": SP22_TR, "i": const(0), "hash_type": ("choice", TAPROOT_TYPES)},
             requires=["tx[1][0][4][1][0] == 0x50"] if _wn == "key_annex" else [],
             ensures=DISPATCH_ENS,
             gen=gen_dispatch(["p2tr:key", "p2tr:key+annex", "p2tr:script", "p2tr:script+annex"], TAPROOT_TYPES) if _wn == "key" else None)


# scripts that are consensus-valid but not minimally encoded (outside "script codes of each standard kind"; kept apart so
# that the standard-kind contracts stay readable): BIP143 scriptCode / BIP341 tapleaf are defined over the bytes in the witness
contract(H + "dispatch#nonminimal_scripts", props=("C05",),
         params={"tx": tx22_taproot([SIG64]), "spent": SP22_TR, "i": const(0), "hash_type": ("choice", TAPROOT_TYPES)},
         ensures=DISPATCH_ENS, tiers=(),       # bounded only (script path needs ControlBlock.parse, see bip341#script_path)
         gen=gen_dispatch(["p2wsh_nonmin", "p2tr:script_nonmin"], [0, 1]))


# ---------------------------------------------------------------------------- history independence (two steps, symbolic)
def _gen_hist(alg, field, types):
    def gen(rng, tier):
        for d in gen_alg(alg, types, wmodes=("empty",))(rng, tier):
            n_in, n_out = len(d["tx"][1]), len(d["tx"][2])
            if field == "out":
                if n_out == 0:
                    continue
                d["k"] = rng.randrange(n_out)
                d["new_amount"] = pick(rng, [0, 1, 2**63 - 1], 62)
            elif field == "seq":
                d["k"] = rng.randrange(n_in)
                d["new_sequence"] = pick(rng, U32B, 32)
            elif field == "idx":
                d["k"] = rng.randrange(n_in)
                d["new_index"] = pick(rng, U32B, 32)
            else:
                d["k"] = rng.randrange(n_in)
                d["new_value"] = pick(rng, [0, 1, 2**63 - 1], 62)
            if alg != "bip341" or d["hash_type"] & 3 != 3 or d["i"] < n_out:
                yield d
    return gen


_K = ("choice", [0, 1])
contract(H + "bip143_after_output_edit", props=("C05",),
         params={"tx": TX22_SEGWIT, "spent": SP22_WPKH, "i": const(0), "hash_type": ("choice", [1, 3, 0x81]), "k": _K, "new_amount": A63},
         ensures=["returns()", "implies(returns(), result == spec.int_be(" + S + "bip143_digest(" + S + "set_out_amount(tx, k, new_amount), i, "
                  + S + "p2pkh_script(spent[i][1][1]), spent[i][0], hash_type)))"],
         gen=_gen_hist("bip143", "out", LEGACY_TYPES))
contract(H + "bip143_after_sequence_edit", props=("C05",),
         params={"tx": TX22_SEGWIT, "spent": SP22_WPKH, "i": const(0), "hash_type": ("choice", [1, 2]), "k": _K, "new_sequence": U32},
         ensures=["returns()", "implies(returns(), result == spec.int_be(" + S + "bip143_digest(" + S + "set_sequence(tx, k, new_sequence), i, "
                  + S + "p2pkh_script(spent[i][1][1]), spent[i][0], hash_type)))"],
         gen=_gen_hist("bip143", "seq", LEGACY_TYPES))
contract(H + "bip143_after_prevout_edit", props=("C05",),
         params={"tx": TX22_SEGWIT, "spent": SP22_WPKH, "i": const(0), "hash_type": ("choice", [1, 0x81]), "k": _K, "new_index": U32},
         ensures=["returns()", "implies(returns(), result == spec.int_be(" + S + "bip143_digest(" + S + "set_prev_index(tx, k, new_index), i, "
                  + S + "p2pkh_script(spent[i][1][1]), spent[i][0], hash_type)))"],
         gen=_gen_hist("bip143", "idx", LEGACY_TYPES))
contract(H + "bip341_after_output_edit", props=("C05",),
         params={"tx": tx22_taproot([]), "spent": SP22_TR, "i": const(0), "hash_type": ("choice", [0, 1, 0x81]), "k": _K, "new_amount": A63},
         ensures=["returns()", "implies(returns(), result == " + S + "bip341_digest(" + S + "set_out_amount(tx, k, new_amount), i, spent, hash_type, 0, None))"],
         gen=_gen_hist("bip341", "out", TAPROOT_TYPES))
contract(H + "bip341_after_sequence_edit", props=("C05",),
         params={"tx": tx22_taproot([]), "spent": SP22_TR, "i": const(0), "hash_type": ("choice", [0, 2]), "k": _K, "new_sequence": U32},
         ensures=["returns()", "implies(returns(), result == " + S + "bip341_digest(" + S + "set_sequence(tx, k, new_sequence), i, spent, hash_type, 0, None))"],
         gen=_gen_hist("bip341", "seq", TAPROOT_TYPES))
contract(H + "bip341_after_spent_amount_edit", props=("C05",),
         params={"tx": tx22_taproot([]), "spent": SP22_TR, "i": const(0), "hash_type": ("choice", [0, 3]), "k": _K, "new_value": A63},
         ensures=["returns()", "implies(returns(), result == " + S + "bip341_digest(tx, i, " + S + "set_spent_amount(spent, k, new_value), hash_type, 0, None))"],
         gen=_gen_hist("bip341", "val", TAPROOT_TYPES))
# the legacy algorithm keeps no midstate: the same two-step history must (and does) agree with the spec
contract(H + "legacy_after_output_edit", props=("C05",),
         params={"tx": TX22_LEGACY, "spent": SP22_PKH, "i": const(0), "hash_type": const(1), "k": _K, "new_amount": A63},
         ensures=["returns()", "implies(returns(), result == spec.int_be(" + S + "legacy_digest(" + S + "set_out_amount(tx, k, new_amount), i, spent[i][1], hash_type)))"],
         gen=_gen_hist("legacy", "out", [1]))


# every BIP341 midstate accessor is usable on a fresh object (each is a public method)
def _gen_fresh(rng, tier):
    for d in gen_alg("bip341", [0])(rng, tier):
        yield {"tx": d["tx"], "spent": d["spent"]}


contract(H + "bip341_fresh_helper_calls", props=("C05",),
         params={"tx": tx22_taproot([]), "spent": SP22_TR},
         ensures=["returns()"], gen=_gen_fresh)
