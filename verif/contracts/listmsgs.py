"""C19: the P2P messages that carry lists (getdata, headers, cfilter, cfheaders, cfcheckpt).
getdata.serialize is proved for EVERY number of entries (loop invariant over a list of symbolic length);
the parsers are proved for 0..3 entries with symbolic contents and checked at run time for larger counts."""
from .common import *  # noqa
from verif.pyvc import symlist

U32 = ("int", 0, 2**32 - 1)
H32 = "bytes:32"


# ---------------------------------------------------------------------------- getdata, any length
def _gen_getdata(rng, tier):
    for n in (0, 1, 2, 3, 252, 253, 254, 300):
        yield {"self": {"__class__": "buidl.network.GetDataMessage",
                        "fields": {"data": [(rng.choice([1, 2, 3, 0x40000001, 0x40000002, 2**32 - 1]), rand_bytes(rng, 32)) for _ in range(n)]}}}


contract("buidl.network.GetDataMessage.serialize#anylen", props=("C19",),
         params={"self": obj("buidl.network.GetDataMessage", data=symlist.symtuples("inv", [U32, H32], max_len=2**32))},
         ensures=["returns()", "result == spec.listser.getdata_msg(self.data)"],
         invariants={1: {"inv": ["result == spec.compact_size(len(self.data)) + spec.listser.concat_inv(self.data, _k)"],
                         "types": {"result": "bytes"}}},
         gen=_gen_getdata)

# the API a user writes: add_data() then serialize(), explicit small shapes
for _n in range(0, 3):
    contract("verif.harness.net.getdata_build#n%d" % _n, props=("C19",),
             params={"n": ("const", _n), "t0": U32, "h0": H32, "t1": U32, "h1": H32},
             ensures=["returns()", "result == spec.compact_size(%d)%s" % (
                 _n, "".join(" + spec.le(t%d, 4) + h%d[::-1]" % (i, i) for i in range(_n)))],
             gen=lambda rng, tier, _n=_n: ({"n": _n, "t0": rng.getrandbits(32), "h0": rand_bytes(rng, 32),
                                            "t1": rng.getrandbits(32), "h1": rand_bytes(rng, 32)} for _ in range(20)))


# ---------------------------------------------------------------------------- headers
def _hdr(i):
    return "spec.header80(v%d, pb%d, mr%d, ts%d, bits%d, nonce%d)" % ((i,) * 6)


def _hdr_ghost(n):
    g = {"tail": "bytes"}
    for i in range(n):
        g.update({"v%d" % i: U32, "pb%d" % i: H32, "mr%d" % i: H32, "ts%d" % i: U32, "bits%d" % i: "bytes:4", "nonce%d" % i: "bytes:4"})
    return g


def _hdr_gen(n):
    def gen(rng, tier):
        for _ in range(25):
            d = {"tail": rand_bytes(rng, rng.randrange(3))}
            for i in range(n):
                d.update({"v%d" % i: rng.getrandbits(32), "pb%d" % i: rand_bytes(rng, 32), "mr%d" % i: rand_bytes(rng, 32),
                          "ts%d" % i: rng.getrandbits(32), "bits%d" % i: rand_bytes(rng, 4), "nonce%d" % i: rand_bytes(rng, 4)})
            yield d
    return gen


for _n in range(0, 4):
    _ens = ["returns()", "len(result.headers) == %d" % _n, "s.read() == tail"]
    for _i in range(_n):
        _ens += ["result.headers[%d].version == v%d" % (_i, _i), "result.headers[%d].prev_block == pb%d" % (_i, _i),
                 "result.headers[%d].merkle_root == mr%d" % (_i, _i), "result.headers[%d].timestamp == ts%d" % (_i, _i),
                 "result.headers[%d].bits == bits%d" % (_i, _i), "result.headers[%d].nonce == nonce%d" % (_i, _i)]
    contract("buidl.network.HeadersMessage.parse#n%d" % _n, props=("C19",), ghost=_hdr_ghost(_n),
             params={"cls": ("const_cls", "buidl.network.HeadersMessage")},
             setup=StreamOf("spec.listser.headers_msg([%s]) + tail" % ", ".join(_hdr(i) for i in range(_n))),
             args=["cls", "s"], ensures=_ens, gen=_hdr_gen(_n))

# a header followed by a non-zero transaction count is not a headers message
_g = _hdr_ghost(1)
_g["cnt"] = ("int", 1, 0xfc)
contract("buidl.network.HeadersMessage.parse#txcount", props=("C19",), ghost=_g,
         params={"cls": ("const_cls", "buidl.network.HeadersMessage")},
         setup=StreamOf("spec.compact_size(1) + %s + spec.le(cnt, 1) + tail" % _hdr(0)),
         args=["cls", "s"], ensures=["raises(RuntimeError)"],
         gen=lambda rng, tier: (dict(next(_hdr_gen(1)(rng, tier)), cnt=1 + rng.randrange(0xfc)) for _ in range(10)))


# ---------------------------------------------------------------------------- cfheaders / cfcheckpt
def _hashes_ghost(n, extra):
    g = dict(extra, tail="bytes")
    for i in range(n):
        g["f%d" % i] = H32
    return g


def _hashes_gen(n, extra):
    def gen(rng, tier):
        for _ in range(25):
            d = {"tail": rand_bytes(rng, rng.randrange(3)), "ft": rng.randrange(256), "stop": rand_bytes(rng, 32)}
            if "prev" in extra:
                d["prev"] = rand_bytes(rng, 32)
            for i in range(n):
                d["f%d" % i] = rand_bytes(rng, 32)
            yield d
    return gen


for _n in range(0, 4):
    _fs = "[%s]" % ", ".join("f%d" % i for i in range(_n))
    _ex = {"ft": ("int", 0, 255), "stop": H32, "prev": H32}
    contract("buidl.compactfilter.CFHeadersMessage.parse#n%d" % _n, props=("C19",), ghost=_hashes_ghost(_n, _ex),
             params={"cls": ("const_cls", "buidl.compactfilter.CFHeadersMessage")},
             setup=StreamOf("spec.listser.cfheaders_msg(ft, stop, prev, %s) + tail" % _fs), args=["cls", "s"],
             ensures=["returns()", "result.filter_type == ft", "result.stop_hash == stop", "result.previous_filter_header == prev",
                      "len(result.filter_hashes) == %d" % _n, "s.read() == tail"]
             + ["result.filter_hashes[%d] == f%d" % (i, i) for i in range(_n)],
             gen=_hashes_gen(_n, _ex))
    _ex2 = {"ft": ("int", 0, 255), "stop": H32}
    contract("buidl.compactfilter.CFCheckPointMessage.parse#n%d" % _n, props=("C19",), ghost=_hashes_ghost(_n, _ex2),
             params={"cls": ("const_cls", "buidl.compactfilter.CFCheckPointMessage")},
             setup=StreamOf("spec.listser.cfcheckpt_msg(ft, stop, %s) + tail" % _fs), args=["cls", "s"],
             ensures=["returns()", "result.filter_type == ft", "result.stop_hash == stop",
                      "len(result.filter_headers) == %d" % _n, "s.read() == tail"]
             + ["result.filter_headers[%d] == f%d" % (i, i) for i in range(_n)],
             gen=_hashes_gen(_n, _ex2))


# ---------------------------------------------------------------------------- cfilter
class _AbstractGCS:
    """decode_gcs (the Golomb decoder, property C18) is replaced by a stub returning no items in the symbolic
    run: the contract below is about the message fields only (clauses are conditional on a normal return).
    ASSUMPTION: decode_gcs does not touch the message stream (it builds its own BytesIO).  The run-time
    companion uses the real decoder on real filters."""

    def __init__(self, inner):
        self.inner = inner

    def __call__(self, m, env):
        from buidl import compactfilter as cf
        m.intrinsics[cf.decode_gcs] = lambda mm, args, kwargs: mm.import_value([])
        self.inner(m, env)

    def conc(self, env, glob):
        self.inner.conc(env, glob)


def _gen_cfilter(rng, tier):
    from buidl.compactfilter import encode_gcs
    for k in range(20):
        items = [rand_bytes(rng, rng.randrange(1, 40)) for _ in range(k % 5)]
        bh = rand_bytes(rng, 32)
        yield {"ft": rng.randrange(256), "bh": bh, "fb": encode_gcs(bh[::-1][:16], items) if items else b"\x00", "tail": rand_bytes(rng, k % 3)}


contract("buidl.compactfilter.CFilterMessage.parse", props=("C19",),
         ghost={"ft": ("int", 0, 255), "bh": H32, "fb": "bytes", "tail": "bytes"},
         params={"cls": ("const_cls", "buidl.compactfilter.CFilterMessage")},
         requires=["len(fb) < 2**32"],
         setup=_AbstractGCS(StreamOf("spec.cfilter_msg(ft, bh, fb) + tail")), args=["cls", "s"],
         ensures=["implies(returns(), result.filter_type == ft)", "implies(returns(), result.block_hash == bh)",
                  "implies(returns(), result.filter_bytes == fb)", "implies(returns(), s.read() == tail)"],
         gen=_gen_cfilter)


# ---------------------------------------------------------------------------- cfcheckpt.parse for EVERY number of headers
class _CfcheckptSetup:
    def __call__(self, m, env):
        from verif.pyvc.values import HStream, as_chunks
        from verif.pyvc.interp import Frame
        env["xs"] = m.make_sym("xs", symlist.symvalues("cfh", "bytes:32", max_len=2**32))
        fr = Frame(dict(env, spec=REG.spec_module), REG.spec_globals)
        v = m.eval_spec("spec.listser.cfcheckpt_msg_any(ft, stop, xs) + tail", fr)
        env["s"] = m.p.alloc(HStream(as_chunks(v)))

    def conc(self, env, glob):
        import io
        env["xs"] = list(env["xs"])
        env["s"] = io.BytesIO(glob["spec"].listser.cfcheckpt_msg_any(env["ft"], env["stop"], env["xs"]) + env["tail"])


def _gen_cfcp_any(rng, tier):
    for n in (0, 1, 2, 3, 252, 253, 254, 300):
        yield {"ft": rng.randrange(256), "stop": rand_bytes(rng, 32), "tail": rand_bytes(rng, rng.randrange(3)),
               "xs": [rand_bytes(rng, 32) for _ in range(n)]}


contract("buidl.compactfilter.CFCheckPointMessage.parse#anylen", props=("C19",),
         ghost={"ft": ("int", 0, 255), "stop": H32, "tail": "bytes"},
         params={"cls": ("const_cls", "buidl.compactfilter.CFCheckPointMessage")},
         setup=_CfcheckptSetup(), args=["cls", "s"], bcat_unit=True,
         ensures=["returns()", "result.filter_type == ft", "result.stop_hash == stop",
                  "result.filter_headers == xs", "s.read() == tail"],
         invariants={1: {"inv": ["stream_is(s, spec.listser.concat_from(xs, _k) + tail)", "filter_headers == xs[:_k]"],
                         "index": "_k"}},
         gen=_gen_cfcp_any)


# ---------------------------------------------------------------------------- cfheaders.parse for EVERY number of filter hashes
class _CfheadersSetup:
    def __call__(self, m, env):
        from verif.pyvc.values import HStream, as_chunks
        from verif.pyvc.interp import Frame
        env["xs"] = m.make_sym("xs", symlist.symvalues("cfhash", "bytes:32", max_len=2**32))
        fr = Frame(dict(env, spec=REG.spec_module), REG.spec_globals)
        v = m.eval_spec("spec.listser.cfheaders_msg_any(ft, stop, prev, xs) + tail", fr)
        env["s"] = m.p.alloc(HStream(as_chunks(v)))

    def conc(self, env, glob):
        import io
        env["xs"] = list(env["xs"])
        env["s"] = io.BytesIO(glob["spec"].listser.cfheaders_msg_any(env["ft"], env["stop"], env["prev"], env["xs"]) + env["tail"])


def _gen_cfh_any(rng, tier):
    for n in (0, 1, 2, 3, 252, 253, 254, 300):
        yield {"ft": rng.randrange(256), "stop": rand_bytes(rng, 32), "prev": rand_bytes(rng, 32), "tail": rand_bytes(rng, rng.randrange(3)),
               "xs": [rand_bytes(rng, 32) for _ in range(n)]}


contract("buidl.compactfilter.CFHeadersMessage.parse#anylen", props=("C19", "C18"),
         ghost={"ft": ("int", 0, 255), "stop": H32, "prev": H32, "tail": "bytes"},
         params={"cls": ("const_cls", "buidl.compactfilter.CFHeadersMessage")},
         setup=_CfheadersSetup(), args=["cls", "s"], bcat_unit=True,
         ensures=["returns()", "result.filter_type == ft", "result.stop_hash == stop", "result.previous_filter_header == prev",
                  "result.filter_hashes == xs", "s.read() == tail",
                  # the constructor's running header: hash256(filter_hash_i || header_{i-1}) folded over the whole list
                  "result.last_header == spec.listser.hash_chain(prev, xs, len(xs))"],
         invariants={1: {"inv": ["stream_is(s, spec.listser.concat_from(xs, _k) + tail)", "filter_hashes == xs[:_k]"], "index": "_k"}},
         gen=_gen_cfh_any)

# the constructor loop (CFHeadersMessage.__init__), inlined by the contract above
contract("buidl.compactfilter.CFHeadersMessage.__init__#anylen", props=("C18",),
         params={"self": obj("buidl.compactfilter.CFHeadersMessage"), "filter_type": ("int", 0, 255), "stop_hash": H32,
                 "previous_filter_header": H32, "filter_hashes": symlist.symvalues("cfhash", "bytes:32", max_len=2**32)},
         ensures=["returns()", "self.last_header == spec.listser.hash_chain(previous_filter_header, filter_hashes, len(filter_hashes))"],
         invariants={1: {"inv": ["current == spec.listser.hash_chain(self.previous_filter_header, self.filter_hashes, _k)"],
                         "types": {"current": "bytes"}}},
         gen=lambda rng, tier: ({"self": {"__class__": "buidl.compactfilter.CFHeadersMessage", "fields": {}}, "filter_type": 0,
                                 "stop_hash": rand_bytes(rng, 32), "previous_filter_header": rand_bytes(rng, 32),
                                 "filter_hashes": [rand_bytes(rng, 32) for _ in range(n)]} for n in (0, 1, 2, 5, 300)))
