"""C19: P2P framing and fixed-layout messages (buidl/network.py, buidl/block.py, buidl/compactfilter.py)"""
from .common import *  # noqa

NETS = ["mainnet", "testnet", "signet", "regtest"]
U32 = ("int", 0, 2**32 - 1)
U64 = ("int", 0, 2**64 - 1)


def _gen_env(rng, tier):
    for net in NETS:
        for cl in (0, 1, 5, 11, 12):
            for pl in (0, 1, 75, 252, 253, 1000, 65535, 65536, 100000):
                cmd = bytes(rng.randrange(1, 256) for _ in range(cl))
                yield {"self": {"__class__": "buidl.network.NetworkEnvelope",
                                "fields": {"command": cmd, "payload": rand_bytes(rng, pl), "magic": spec_magic(net)}}}


def spec_magic(net):
    import verif.specs as s
    return s.MAGIC[net]


contract("buidl.network.NetworkEnvelope.serialize", props=("C19",),
         params={"self": obj("buidl.network.NetworkEnvelope", command=("bytes", 0, 12), payload="bytes", magic="bytes:4")},
         requires=["len(self.payload) < 2**32"],
         ensures=["returns()", "result == spec.envelope(self.magic, self.command, self.payload)"],
         gen=_gen_env)


def _gen_parse_rt(rng, tier):
    for net in NETS:
        for cl in (0, 1, 5, 11, 12):
            for pl in (0, 1, 253, 65536, 100000):
                cmd = bytes(rng.randrange(1, 256) for _ in range(cl))
                yield {"command": cmd, "payload": rand_bytes(rng, pl), "tail": rand_bytes(rng, rng.randrange(0, 5)), "network": net}


# round trip: parse(serialize(e)) == e, stream left at the first byte after the message
contract("buidl.network.NetworkEnvelope.parse", props=("C19",),
         ghost={"command": ("bytes", 0, 12), "payload": "bytes", "tail": "bytes"},
         params={"network": ("choice", NETS), "cls": ("const_cls", "buidl.network.NetworkEnvelope")},
         requires=["len(payload) < 2**32", "len(command) == 0 or (command[0] != 0 and command[-1] != 0)"],
         setup=StreamOf("spec.envelope(spec.MAGIC[network], command, payload) + tail"),
         args=["cls", "s", "network"],
         ensures=["returns()", "result.command == command", "result.payload == payload",
                  "result.magic == spec.MAGIC[network]", "s.read() == tail"],
         gen=_gen_parse_rt)


def _gen_parse_any(rng, tier):
    import verif.specs as s
    for net in NETS:
        for trial in range(40):
            payload = rand_bytes(rng, rng.choice([0, 1, 10, 300]))
            ck = s.hash256(payload)[:4]
            mg = s.MAGIC[net]
            ln = len(payload)
            body = payload
            mode = trial % 8
            if mode == 1:
                mg = bytes([mg[0] ^ 1]) + mg[1:]
            elif mode == 2:
                ck = bytes([ck[0] ^ 0x80]) + ck[1:]
            elif mode == 3:        # fewer payload bytes than declared, checksum of what is there
                ln = len(payload) + 1 + rng.randrange(5)
            elif mode == 4 and payload:
                body = payload[:-1]
                ck = s.hash256(body)[:4]
            elif mode == 5:
                mg = s.MAGIC[NETS[(NETS.index(net) + 1) % 4]]
            elif mode == 6:
                body = payload + rand_bytes(rng, 3)
            yield {"magic": mg, "cmd12": b"cmd" + bytes(9), "length": ln, "checksum": ck, "body": body, "network": net}


# soundness: whatever bytes arrive, an envelope is returned only if magic, checksum AND length match
contract("buidl.network.NetworkEnvelope.parse#any", props=("C19",),
         ghost={"magic": "bytes:4", "cmd12": ("const", b"cmd" + bytes(9)), "length": U32, "checksum": "bytes:4", "body": "bytes"},
         params={"network": ("choice", NETS), "cls": ("const_cls", "buidl.network.NetworkEnvelope")},
         setup=StreamOf("magic + cmd12 + spec.le(length, 4) + checksum + body"),
         args=["cls", "s", "network"],
         ensures=["implies(returns(), magic == spec.MAGIC[network])",
                  "implies(returns(), len(result.payload) == length)",
                  "implies(returns(), result.payload == body[:length])",
                  "implies(returns(), checksum == spec.hash256(result.payload)[:4])",
                  "implies(magic != spec.MAGIC[network], raises(RuntimeError))",
                  "implies(len(body) < length, raises(RuntimeError))",
                  "implies(len(body) >= length and checksum != spec.hash256(body[:length])[:4], raises(RuntimeError))"],
         gen=_gen_parse_any)


# ---------------------------------------------------------------------------- fixed-layout messages
H32 = "bytes:32"


def _gen_obj(clsname, mk):
    def gen(rng, tier):
        for i in range(400):
            yield {"self": {"__class__": clsname, "fields": mk(rng, i)}}
    return gen


def _b(rng, i, vals):
    return vals[i % len(vals)] if i < 3 * len(vals) else rng.getrandbits(vals[-1].bit_length())


_U32B = [0, 1, 0xfc, 0xfd, 0xffff, 0x10000, 0x7fffffff, 0xffffffff]
_U64B = [0, 1, 0xffffffff, 0x100000000, 2**63, 2**64 - 1]
_U16B = [0, 1, 255, 256, 8333, 18333, 65535]

contract("buidl.network.VersionMessage.serialize", props=("C19",),
         params={"self": obj("buidl.network.VersionMessage", version=U32, services=U64, timestamp=U64,
                             receiver_services=U64, receiver_ip="bytes:4", receiver_port=("int", 0, 65535),
                             sender_services=U64, sender_ip="bytes:4", sender_port=("int", 0, 65535),
                             nonce="bytes:8", user_agent="bytes", latest_block=U32, relay="bool")},
         requires=["len(self.user_agent) < 2**32"],
         ensures=["returns()",
                  "result == spec.version_msg(self.version, self.services, self.timestamp, self.receiver_services, "
                  "self.receiver_ip, self.receiver_port, self.sender_services, self.sender_ip, self.sender_port, "
                  "self.nonce, self.user_agent, self.latest_block, self.relay)"],
         gen=_gen_obj("buidl.network.VersionMessage", lambda rng, i: dict(
             version=_b(rng, i, _U32B), services=_b(rng, i, _U64B), timestamp=_b(rng, i + 1, _U64B),
             receiver_services=_b(rng, i + 2, _U64B), receiver_ip=rand_bytes(rng, 4), receiver_port=_b(rng, i, _U16B),
             sender_services=_b(rng, i + 3, _U64B), sender_ip=rand_bytes(rng, 4), sender_port=_b(rng, i + 1, _U16B),
             nonce=rand_bytes(rng, 8), user_agent=rand_bytes(rng, [0, 1, 27, 252, 253, 300][i % 6]),
             latest_block=_b(rng, i + 4, _U32B), relay=bool(i % 2))))

# the constructor's default nonce must fit its 8-byte field
contract("verif.harness.net.version_default", props=("C19",), params={"timestamp": U64},
         ensures=["returns()", "implies(returns(), len(result) == 20 + 26 + 26 + 8 + 1 + 27 + 4 + 1)"],
         gen=lambda rng, tier: ({"timestamp": k} for k in range(3)))

contract("buidl.network.GetHeadersMessage.serialize", props=("C19",),
         params={"self": obj("buidl.network.GetHeadersMessage", version=U32, num_hashes=U64, start_block=H32, end_block=H32)},
         ensures=["returns()", "result == spec.getheaders_msg(self.version, self.num_hashes, self.start_block, self.end_block)"],
         gen=_gen_obj("buidl.network.GetHeadersMessage", lambda rng, i: dict(
             version=_b(rng, i, _U32B), num_hashes=_b(rng, i, _U32B), start_block=rand_bytes(rng, 32), end_block=rand_bytes(rng, 32))))

for _cls in ("PingMessage", "PongMessage"):
    contract("buidl.network.%s.serialize" % _cls, props=("C19",),
             params={"self": obj("buidl.network." + _cls, nonce="bytes:8")},
             ensures=["returns()", "result == self.nonce"])
    contract("verif.harness.net.%s_parse" % _cls[:4].lower(), props=("C19",),
             ghost={"nonce": "bytes:8", "tail": "bytes"},
             setup=StreamOf("nonce + tail"), args=["s"],
             ensures=["returns()", "result.nonce == nonce", "s.read() == tail"],
             gen=lambda rng, tier: ({"nonce": rand_bytes(rng, 8), "tail": rand_bytes(rng, k % 3)} for k in range(50)))

contract("buidl.block.Block.serialize", props=("C19", "C17"),
         params={"self": obj("buidl.block.Block", version=U32, prev_block=H32, merkle_root=H32, timestamp=U32, bits="bytes:4", nonce="bytes:4")},
         ensures=["returns()", "len(result) == 80",
                  "result == spec.header80(self.version, self.prev_block, self.merkle_root, self.timestamp, self.bits, self.nonce)"],
         gen=_gen_obj("buidl.block.Block", lambda rng, i: dict(
             version=_b(rng, i, _U32B), prev_block=rand_bytes(rng, 32), merkle_root=rand_bytes(rng, 32),
             timestamp=_b(rng, i + 1, _U32B), bits=rand_bytes(rng, 4), nonce=rand_bytes(rng, 4))))


def _gen_hdr(rng, tier):
    for i in range(300):
        yield {"version": _b(rng, i, _U32B), "prev_block": rand_bytes(rng, 32), "merkle_root": rand_bytes(rng, 32),
               "timestamp": _b(rng, i + 1, _U32B), "bits": rand_bytes(rng, 4), "nonce": rand_bytes(rng, 4), "tail": rand_bytes(rng, i % 3)}


contract("buidl.block.Block.parse_header", props=("C19", "C17"),
         ghost={"version": U32, "prev_block": H32, "merkle_root": H32, "timestamp": U32, "bits": "bytes:4", "nonce": "bytes:4", "tail": "bytes"},
         params={"cls": ("const_cls", "buidl.block.Block")},
         setup=StreamOf("spec.header80(version, prev_block, merkle_root, timestamp, bits, nonce) + tail", name="stream"),
         args=["cls", "stream"],
         ensures=["returns()", "result.version == version", "result.prev_block == prev_block", "result.merkle_root == merkle_root",
                  "result.timestamp == timestamp", "result.bits == bits", "result.nonce == nonce", "stream.read() == tail"],
         gen=_gen_hdr)

contract("buidl.block.Block.hash", props=("C17", "C19"),
         params={"self": obj("buidl.block.Block", version=U32, prev_block=H32, merkle_root=H32, timestamp=U32, bits="bytes:4", nonce="bytes:4")},
         ensures=["returns()", "result == spec.hash256(spec.header80(self.version, self.prev_block, self.merkle_root, self.timestamp, self.bits, self.nonce))[::-1]"])

for _cls, _fn in (("GetCFiltersMessage", "getcfilters_msg"), ("GetCFHeadersMessage", "getcfilters_msg")):
    contract("buidl.compactfilter.%s.serialize" % _cls, props=("C19",),
             params={"self": obj("buidl.compactfilter." + _cls, filter_type=("int", 0, 255), start_height=U32, stop_hash=H32)},
             ensures=["returns()", "result == spec.%s(self.filter_type, self.start_height, self.stop_hash)" % _fn],
             gen=_gen_obj("buidl.compactfilter." + _cls, lambda rng, i: dict(
                 filter_type=i % 256, start_height=_b(rng, i, _U32B), stop_hash=rand_bytes(rng, 32))))
contract("buidl.compactfilter.GetCFCheckPointMessage.serialize", props=("C19",),
         params={"self": obj("buidl.compactfilter.GetCFCheckPointMessage", filter_type=("int", 0, 255), stop_hash=H32)},
         ensures=["returns()", "result == spec.getcfcheckpt_msg(self.filter_type, self.stop_hash)"],
         gen=_gen_obj("buidl.compactfilter.GetCFCheckPointMessage", lambda rng, i: dict(filter_type=i % 256, stop_hash=rand_bytes(rng, 32))))
