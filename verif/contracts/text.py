"""C09: address and key text encodings (buidl/helper.py base58*, buidl/bech32.py, buidl/script.py address maps,
buidl/tx.py TxOut.to_address, buidl/pecc.py WIF).

Byte/int-level functions get symbolic contracts (bit-vector mode); string-level functions cannot be executed
symbolically (pyvc has no symbolic strings): their contracts are declared with the STR / LIST5 kinds below, which
make the symbolic pass report `undecided` with that reason, and they are exercised concretely by the bounded
companion (generators here + the enumerations of verif/props/C09.py)."""
from .common import *  # noqa
from verif.pyvc.engine import Undecided
import verif.specs as _S

T = _S.text
H = "verif.harness.text."
NETS = list(T.NETWORKS)
V5 = ("int", 0, 31)


def STR(m, name):
    raise Undecided("symbolic strings are not supported by pyvc: string-level contract, decided only by the bounded/exhaustive companion")


def LIST5(m, name):
    raise Undecided("list of symbolic 5-bit values of arbitrary length: decided only by the bounded/exhaustive companion")


def B2S(m, name):
    raise Undecided("bytes -> text function: every output character is a symbolic index into the alphabet string, which pyvc can only "
                    "enumerate (58 or 32 branches per character; tried with 2-byte inputs: more than 200 paths): decided only by the "
                    "bounded/exhaustive companion")


class ValueOf:
    """input `name` is the value of the contract-language expression `expr` (over ghosts/params)"""

    def __init__(self, expr, name):
        self.expr, self.name = expr, name

    def __call__(self, m, env):
        fr = Frame(dict(env, spec=REG.spec_module), REG.spec_globals)
        env[self.name] = m.eval_spec(self.expr, fr)

    def conc(self, env, glob):
        code, _ = rt.compile_clause(self.expr)
        env[self.name] = eval(code, glob, env)


# ------------------------------------------------------------------------------------------- sample material (shared with props)
def payload_with_zeros(rng, n, z):
    """n-byte payload with exactly min(z, n) leading zero bytes"""
    z = min(z, n)
    body = rand_bytes(rng, n - z)
    if body and body[0] == 0:
        body = bytes([1 + rng.randrange(255)]) + body[1:]
    return bytes(z) + body


def sample_b58_strings(rng, k=6):
    """valid Base58Check strings of the kinds the library handles: addresses, WIF (both flags), extended keys, odd lengths"""
    out = []
    for ver in (0x00, 0x05, 0x6F, 0xC4):
        out.append(T.base58check_encode(bytes([ver]) + rand_bytes(rng, 20)))
    out.append(T.wif_encode(rng.randrange(1, T.SECP_N), True, True))
    out.append(T.wif_encode(rng.randrange(1, T.SECP_N), False, False))
    out.append(T.base58check_encode(bytes.fromhex("0488b21e") + rand_bytes(rng, 74)))
    out.append(T.base58check_encode(bytes(3) + rand_bytes(rng, 7)))
    out.append(T.base58check_encode(b""))
    out.append(T.base58check_encode(bytes(5)))
    for _ in range(k):
        out.append(T.base58check_encode(payload_with_zeros(rng, rng.randrange(0, 83), rng.randrange(0, 9))))
    return out


def all_segwit_cases():
    """every (hrp, version, length) of the property's quantifier"""
    for hrp in ("bc", "tb", "bcrt"):
        for ver in range(17):
            for n in range(2, 41):
                yield hrp, ver, n


BIP_VALID = ["BC1QW508D6QEJXTDG4Y5R3ZARVARY0C5XW7KV8F3T4", "tb1qrp33g0q5c5txsp9arysrx4k6zdkfs4nce4xj0gdcccefvpysxf3q0sl5k7",
             "bc1pw508d6qejxtdg4y5r3zarvary0c5xw7kw508d6qejxtdg4y5r3zarvary0c5xw7kt5nd6y", "BC1SW50QGDZ25J",
             "bc1zw508d6qejxtdg4y5r3zarvaryvaxxpcs", "tb1qqqqqp399et2xygdj5xreqhjjvcmzhxw4aywxecjdzew6hylgvsesrxh6hy",
             "tb1pqqqqp399et2xygdj5xreqhjjvcmzhxw4aywxecjdzew6hylgvsesf3hn0c", "bc1p0xlxvlhemja6c4dqv22uapctqupfhlxm9h8z3k2e72q4k9hcz7vqzk5jj0"]
BIP_INVALID = ["tc1qw508d6qejxtdg4y5r3zarvary0c5xw7kg3g4ty", "bc1p0xlxvlhemja6c4dqv22uapctqupfhlxm9h8z3k2e72q4k9hcz7vqh2y7hd",
               "tb1z0xlxvlhemja6c4dqv22uapctqupfhlxm9h8z3k2e72q4k9hcz7vqglt7rf", "BC1S0XLXVLHEMJA6C4DQV22UAPCTQUPFHLXM9H8Z3K2E72Q4K9HCZ7VQ54WELL",
               "bc1qw508d6qejxtdg4y5r3zarvary0c5xw7kemeawh", "tb1q0xlxvlhemja6c4dqv22uapctqupfhlxm9h8z3k2e72q4k9hcz7vq24jc47",
               "bc1p38j9r5y49hruaue7wxjce0updqjuyyx0kh56v8s25huc6995vvpql3jow4", "BC130XLXVLHEMJA6C4DQV22UAPCTQUPFHLXM9H8Z3K2E72Q4K9HCZ7VQ7ZWS8R",
               "bc1pw5dgrnzv", "bc1p0xlxvlhemja6c4dqv22uapctqupfhlxm9h8z3k2e72q4k9hcz7v8n0nx0muaewav253zgeav",
               "BC1QR508D6QEJXTDG4Y5R3ZARVARYV98GJ9P", "tb1p0xlxvlhemja6c4dqv22uapctqupfhlxm9h8z3k2e72q4k9hcz7vq47Zagq",
               "bc1p0xlxvlhemja6c4dqv22uapctqupfhlxm9h8z3k2e72q4k9hcz7v07qwwzcrf", "tb1p0xlxvlhemja6c4dqv22uapctqupfhlxm9h8z3k2e72q4k9hcz7vpggkg4j",
               "bc1gmk9yu", "BC13W508D6QEJXTDG4Y5R3ZARVARY0C5XW7KN40WF2", "bc1rw5uspcuh", "bc1zw508d6qejxtdg4y5r3zarvaryvqyzf3du",
               "tb1qrp33g0q5c5txsp9arysrx4k6zdkfs4nce4xj0gdcccefvpysxf3pjxtptv",
               "bc10w508d6qejxtdg4y5r3zarvary0c5xw7kw508d6qejxtdg4y5r3zarvary0c5xw7kw5rljs90", "", "bc1", "1", "bc", "bcrt1", "tb1q",
               "bcrtxqqqqqqqqqqqqqqqqqqqqqqqqqqqqqqqqqdku202"]


def crafted_segwit(rng):
    """strings a decoder must reject although their checksum verifies (each names the rule it breaks)"""
    out = []
    for hrp in ("bc", "tb", "bcrt"):
        # v0 with a length other than 20 / 32
        for n in (2, 19, 21, 31, 33, 40):
            out.append(T.segwit_addr_encode(hrp, 0, rand_bytes(rng, n), strict=False))
        # versions 17..31 (bech32m constant, valid checksum)
        for ver in (17, 24, 31):
            out.append(T.bech32_encode(hrp, [ver] + T.regroup(rand_bytes(rng, 20), 8, 5, True), T.BECH32M_CONST))
        # non-zero padding bits / a whole extra zero group
        d = T.regroup(rand_bytes(rng, 20), 8, 5, True)
        out.append(T.bech32_encode(hrp, [0] + d[:-1] + [d[-1] | 1], T.BECH32_CONST))
        out.append(T.bech32_encode(hrp, [1] + T.regroup(rand_bytes(rng, 32), 8, 5, True)[:-1] + [T.regroup(b"\xff", 8, 5, True)[-1] | 3], T.BECH32M_CONST))
        out.append(T.bech32_encode(hrp, [0] + d + [0], T.BECH32_CONST))
        # wrong constant for the version
        out.append(T.bech32_encode(hrp, [0] + d, T.BECH32M_CONST))
        out.append(T.bech32_encode(hrp, [1] + T.regroup(rand_bytes(rng, 32), 8, 5, True), T.BECH32_CONST))
        # program of 1 and of 41 bytes; empty data part
        out.append(T.bech32_encode(hrp, [1] + T.regroup(rand_bytes(rng, 1), 8, 5, True), T.BECH32M_CONST))
        out.append(T.bech32_encode(hrp, [1] + T.regroup(rand_bytes(rng, 41), 8, 5, True), T.BECH32M_CONST))
        out.append(T.bech32_encode(hrp, [], T.BECH32M_CONST))
        out.append(T.bech32_encode(hrp, [], T.BECH32_CONST))
        # mixed case, upper case (upper case is VALID per BIP173)
        a = T.segwit_addr_encode(hrp, 1, rand_bytes(rng, 32))
        out.append(a[:-1] + a[-1].upper() if a[-1].isalpha() else a[:-2] + a[-2:].upper())
        out.append(a.upper())
    out.append(T.bech32_encode("tc", [0] + T.regroup(rand_bytes(rng, 20), 8, 5, True), T.BECH32_CONST))
    out.append(T.bech32_encode("bcr", [0] + T.regroup(rand_bytes(rng, 20), 8, 5, True), T.BECH32_CONST))
    return out


def mutate(rng, s, alphabet):
    if not s:
        return alphabet[0]
    i = rng.randrange(len(s))
    k = rng.randrange(4)
    if k == 0:
        return s[:i] + rng.choice(alphabet) + s[i + 1:]
    if k == 1:
        return s[:i] + s[i + 1:]
    if k == 2:
        return s[:i] + rng.choice(alphabet) + s[i:]
    j = rng.randrange(len(s))
    return s[:i] + rng.choice(alphabet) + s[i + 1:j] + rng.choice(alphabet) + s[j + 1:] if i < j else s[::-1]


# ------------------------------------------------------------------------------------------- base58
def _gen_b58_raw(name):
    def gen(rng, tier):
        yield {name: b""}
        for n in (1, 2, 4, 21, 25, 33, 34, 38, 78, 82, 86):
            for z in (0, 1, 2, 8, n):
                yield {name: payload_with_zeros(rng, n, z)}
        yield {name: bytes(40)}
        yield {name: b"\xff" * 82}
        while True:
            yield {name: payload_with_zeros(rng, rng.randrange(0, 87), rng.choice([0, 0, 0, 1, 2, 3, 8]))}
    return gen


contract("buidl.helper.encode_base58", props=("C09",), params={"s": B2S},
         ensures=["returns()", "result == spec.text.base58_encode(s)"], gen=_gen_b58_raw("s"))
contract("buidl.helper.encode_base58_checksum", props=("C09",), params={"raw": B2S},
         ensures=["returns()", "result == spec.text.base58check_encode(raw)"], gen=_gen_b58_raw("raw"))
contract(H + "b58check_roundtrip", props=("C09",), params={"payload": B2S},
         ensures=["returns()", "result == payload"], gen=_gen_b58_raw("payload"))


def _gen_b58_str(rng, tier):
    for s in ["", "1", "11", "1111", "3QJmnh", " 1BvBMSEYstWetqTFn5Au4m4GFg7xJaNVN2", "1BvBMSEYstWetqTFn5Au4m4GFg7xJaNVN2 ",
              "1BvBMSEYstWetqTFn5Au4m4GFg7xJaNVN2", "1BvBMSEYstWetqTFn5Au4m4GFg7xJaNVN3", "0OIl", "1PMycacnJaSqwwJqjawXBErnLsZ7RkXUAs",
              "1PMycacnJaSqwwJqjawXBErnLsZ7RkXUA5", "11PMycacnJaSqwwJqjawXBErnLsZ7RkXUAs", "PMycacnJaSqwwJqjawXBErnLsZ7RkXUAs",
              "1111111111111111111114oLvT2", "111111111111111111114oLvT2", "11111111111111111111114oLvT2", "3QJmnhé"]:
        yield {"s": s}
    while True:
        for s in sample_b58_strings(rng):
            yield {"s": s}
            yield {"s": mutate(rng, s, T.B58)}
            yield {"s": mutate(rng, s, T.B58 + "0OIl +/")}
            yield {"s": "1" + s}
            if s[:1] == "1":
                yield {"s": s[1:]}


contract("buidl.helper.raw_decode_base58", props=("C09",), params={"s": STR},
         ensures=["implies(returns(), spec.text.base58check_decode(s) is not None)",        # accepted only if the checksum matches
                  "implies(returns(), result == spec.text.base58check_decode(s))",         # ... and yields exactly that payload
                  "implies(spec.text.base58check_valid(s), returns())"],                    # accepted whenever it matches
         gen=_gen_b58_str)
contract("buidl.helper.decode_base58", props=("C09",), params={"s": STR},
         ensures=["implies(returns(), spec.text.base58check_decode(s) is not None and result == spec.text.base58check_decode(s)[1:])",
                  "implies(spec.text.base58check_valid(s), returns())"], gen=_gen_b58_str)

# ------------------------------------------------------------------------------------------- bech32 checksum
# all 32^7 symbol sequences of length 7; because the first six symbols reach every 30-bit register state, this also
# shows that the loop body is the GF(32) shift-register step of BIP173 for every (state, symbol) pair
contract(H + "polymod7", props=("C09", "C20"), params={"v%d" % i: V5 for i in range(7)}, bv=40, timeout_ms=30000, max_paths=64,
         ensures=["returns()", "result == spec.text.bech32_polymod([v0, v1, v2, v3, v4, v5, v6])", "0 <= result < 2**30"],
         gen=lambda rng, tier: ({"v%d" % i: rng.randrange(32) for i in range(7)} for _ in range(10**6)))


def _gen_vals(rng, tier):
    yield {"values": []}
    for n in (1, 5, 6, 7, 8, 13, 39, 71, 90, 1023, 1024):
        yield {"values": [rng.randrange(32) for _ in range(n)]}
        yield {"values": [31] * n}
        yield {"values": [0] * n}
    while True:
        yield {"values": [rng.randrange(32) for _ in range(rng.randrange(0, 120))]}


contract(H + "polymod_list", props=("C09", "C20"), params={"values": LIST5},
         ensures=["returns()", "result == spec.text.bech32_polymod(values)"], gen=_gen_vals)


# EVERY list length: the loop of bech32_polymod is cut by the invariant "chk is the recursively defined BIP173 register
# after _k symbols" (spec.text.polymod_rec, one independent GF(32) shift-register step per symbol); the body is verified
# once for an arbitrary 30-bit register and an arbitrary 5-bit symbol in 40-bit bit-vector mode
from verif.pyvc import symlist as _symlist
contract("buidl.bech32.bech32_polymod#anylen", props=("C09", "C20"), bv=40,
         params={"values": _symlist.symvalues("v5", ("int", 0, 31), max_len=2**24)},
         ensures=["returns()", "result == spec.text.polymod_rec(values, len(values))", "0 <= result < 2**30"],
         invariants={1: {"inv": ["chk == spec.text.polymod_rec(values, _k)", "0 <= chk < 2**30"],
                         "types": {"chk": ("int", 0, 2**30 - 1)}}},
         gen=_gen_vals)


def _gen_hrp(rng, tier):
    for h in ("bc", "tb", "bcrt", "a", "?", "split", "an83characterlonghumanreadablepartthatcontainsthenumber1andtheexcludedcharactersbio"):
        yield {"s": h}
    while True:
        yield {"s": "".join(chr(rng.randrange(33, 127)) for _ in range(rng.randrange(1, 12))).lower()}


contract("buidl.bech32.bech32_hrp_expand", props=("C09",), params={"s": STR},
         ensures=["returns()", "result == spec.text.hrp_expand(s)"], gen=_gen_hrp)


def _gen_cs(rng, tier):
    for hrp in ("bc", "tb", "bcrt"):
        for m in (False, True):
            for n in (0, 1, 5, 33, 53, 65):
                yield {"hrp": hrp, "data": [rng.randrange(32) for _ in range(n)], "m": m}
    while True:
        yield {"hrp": rng.choice(["bc", "tb", "bcrt", "x", "test"]), "data": [rng.randrange(32) for _ in range(rng.randrange(0, 70))], "m": rng.random() < 0.5}


contract(H + "checksum_roundtrip", props=("C09",), params={"hrp": STR, "data": LIST5, "m": "bool"},
         ensures=["returns()", "result[0] == True", "result[1] == False",
                  "result[2] == spec.text.bech32_create_checksum(hrp, data, spec.text.BECH32M_CONST if m else spec.text.BECH32_CONST)"],
         gen=_gen_cs)


# ------------------------------------------------------------------------------------------- 8 -> 5 regrouping
def _gen_g32(rng, tier):
    for n in range(1, 42):
        yield {"s": rand_bytes(rng, n)}
        yield {"s": b"\xff" * n}
    while True:
        yield {"s": rand_bytes(rng, rng.randrange(1, 41))}


for _n in (2, 5, 20, 32):
    contract("buidl.bech32.group_32#len%d" % _n, props=("C09",), params={"s": "bytes:%d" % _n}, bv=64, timeout_ms=30000,
             ensures=["returns()", "result == spec.text.regroup(s, 8, 5, True)"], gen=_gen_g32 if _n == 2 else None)


# ------------------------------------------------------------------------------------------- segwit addresses
def _spk(ver, prog):
    return T.witness_spk(ver, prog)


def _gen_enc(rng, tier):
    for net in NETS:
        for ver, n in ((0, 20), (0, 32), (1, 32), (1, 2), (16, 40), (2, 33), (0, 2), (0, 40), (16, 2)):
            yield {"s": _spk(ver, rand_bytes(rng, n)), "network": net}
    yield {"s": _spk(0, bytes(20)), "network": "foonet"}
    while True:
        yield {"s": _spk(rng.randrange(17), rand_bytes(rng, rng.randrange(2, 41))), "network": rng.choice(NETS)}


contract("buidl.bech32.encode_bech32_checksum", props=("C09",), params={"s": B2S, "network": STR},
         requires=["spec.text.witness_parts(s) is not None"],
         raises={"ValueError": "network not in spec.text.SEGWIT_HRP"},
         ensures=["implies(network in spec.text.SEGWIT_HRP, returns())",
                  "implies(returns(), result == spec.text.segwit_addr_encode(spec.text.SEGWIT_HRP[network], spec.text.witness_parts(s)[0], spec.text.witness_parts(s)[1], False))",
                  # version 0 <=> Bech32 constant, versions 1..16 <=> Bech32m
                  "implies(returns(), spec.text.bech32_decode(result)[2] == spec.text.segwit_const(spec.text.witness_parts(s)[0]))"],
         gen=_gen_enc)
contract(H + "segwit_roundtrip", props=("C09",), params={"spk": B2S, "network": STR},
         requires=["spec.text.witness_parts(spk) is not None", "network in spec.text.SEGWIT_HRP"],
         ensures=["implies(spec.text.segwit_valid_program(spec.text.witness_parts(spk)[0], len(spk) - 2), returns())",
                  "implies(returns(), list(result) == [spec.text.HRP_NETS[spec.text.SEGWIT_HRP[network]][0], spec.text.witness_parts(spk)[0], spec.text.witness_parts(spk)[1]])"],
         gen=lambda rng, tier: ({"spk": d["s"], "network": d["network"]} for d in _gen_enc(rng, tier) if d["network"] != "foonet"))


def _gen_addr(rng, tier):
    for a in BIP_VALID + BIP_INVALID:
        yield {"s": a}
    for a in crafted_segwit(rng):
        yield {"s": a}
    while True:
        hrp = rng.choice(["bc", "tb", "bcrt"])
        ver = rng.randrange(17)
        n = rng.choice([20, 32]) if ver == 0 else rng.randrange(2, 41)
        a = T.segwit_addr_encode(hrp, ver, rand_bytes(rng, n))
        yield {"s": a}
        yield {"s": mutate(rng, a, T.CHARSET)}
        yield {"s": mutate(rng, a, T.CHARSET + "1bio")}


def crafted_by_reason(rng, reason):
    """one string whose FIRST broken rule is `reason` (None = valid, 'upper' = valid upper case)"""
    hrp = rng.choice(["bc", "tb", "bcrt"])
    ver = rng.randrange(17)
    n = rng.choice([20, 32]) if ver == 0 else rng.randrange(2, 41)
    prog = rand_bytes(rng, n)
    d5 = T.regroup(prog, 8, 5, True)
    if reason is None:
        return T.segwit_addr_encode(hrp, ver, prog)
    if reason == "upper":
        return T.segwit_addr_encode(hrp, ver, prog).upper()
    if reason == "bech32":
        a = T.segwit_addr_encode(hrp, ver, prog)
        k = rng.randrange(6)
        if k == 5:          # the separator '1' replaced by another character
            i = len(hrp)
            return a[:i] + rng.choice("xq0!b2 ") + a[i + 1:]
        if k == 0:          # one or two substituted characters
            return mutate(rng, a, T.CHARSET)
        if k == 1:          # character outside the set
            i = rng.randrange(len(hrp) + 1, len(a))
            return a[:i] + rng.choice("1bio") + a[i + 1:]
        if k == 2:          # mixed case
            i = rng.choice([j for j in range(len(a)) if a[j].isalpha()])
            return a[:i] + a[i].upper() + a[i + 1:]
        if k == 3:          # no separator / too short
            return rng.choice([a.replace("1", "", 1), hrp + "1" + a[-5:], hrp, ""])
        return T.bech32_encode(hrp, [1] + T.regroup(rand_bytes(rng, 40), 8, 5, True) + [0] * 20, T.BECH32M_CONST)[:95]     # > 90 characters
    if reason == "hrp":
        return T.bech32_encode(rng.choice(["tc", "bcr", "b", "ltc", "bcrtt"]), [ver] + d5, T.segwit_const(ver))
    if reason == "length":
        k = rng.randrange(3)
        if k == 0:
            return T.bech32_encode(hrp, [], rng.choice([T.BECH32_CONST, T.BECH32M_CONST]))
        v = rng.randrange(1, 17)
        return T.bech32_encode(hrp, [v] + T.regroup(rand_bytes(rng, 1 if k == 1 else rng.randrange(41, 46)), 8, 5, True), T.BECH32M_CONST)
    if reason == "version":
        return T.bech32_encode(hrp, [rng.randrange(17, 32)] + d5, T.BECH32M_CONST)
    if reason == "constant":
        return T.bech32_encode(hrp, [ver] + d5, T.BECH32_CONST ^ T.BECH32M_CONST ^ T.segwit_const(ver))
    if reason == "padding":
        k = rng.randrange(2)
        pad = 5 * len(d5) - 8 * n
        if pad > 0 and (k == 0 or pad > 2):        # non-zero padding bits
            return T.bech32_encode(hrp, [ver] + d5[:-1] + [d5[-1] | (1 + rng.randrange((1 << pad) - 1))], T.segwit_const(ver))
        return T.bech32_encode(hrp, [ver] + d5 + [0], T.segwit_const(ver))       # a whole extra group: 5..7 padding bits
    if reason == "v0-length":
        return T.segwit_addr_encode(hrp, 0, rand_bytes(rng, rng.choice([x for x in range(2, 41) if x not in (20, 32)])), strict=False)
    raise KeyError(reason)


def _gen_reason(reason, extra=()):
    def gen(rng, tier):
        for a in extra:
            yield {"s": a}
        while True:
            yield {"s": crafted_by_reason(rng, reason)}
    return gen


SEGWIT_REASONS = ("bech32", "hrp", "length", "version", "constant", "padding", "v0-length")
for _r in SEGWIT_REASONS:
    contract("buidl.bech32.decode_bech32#rejects-" + _r, props=("C09",), params={"s": STR},
             requires=["spec.text.segwit_reject_reason(s) == %r" % _r], ensures=["not returns()"],
             gen=_gen_reason(_r, sorted([a for a in BIP_INVALID if T.segwit_reject_reason(a) == _r], key=lambda a: not a.startswith("bcrtx"))))
_ACC = ["returns()", "result[0] in spec.text.HRP_NETS[spec.text.segwit_addr_decode(s)[0]]",
        "(result[1], result[2]) == spec.text.segwit_addr_decode(s)[1:]"]
contract("buidl.bech32.decode_bech32#accepts", props=("C09",), params={"s": STR},
         requires=["spec.text.segwit_reject_reason(s) is None", "s == s.lower()"], ensures=_ACC,
         gen=_gen_reason(None, [a for a in BIP_VALID if a == a.lower()]))
contract("buidl.bech32.decode_bech32#accepts-uppercase", props=("C09",), params={"s": STR},
         requires=["spec.text.segwit_reject_reason(s) is None", "s == s.upper()"], ensures=_ACC,
         gen=_gen_reason("upper", [a for a in BIP_VALID if a == a.upper()]))


# ------------------------------------------------------------------------------------------- script <-> address
def _gen_tmpl(rng, tier):
    for kind in T.TEMPLATES:
        for net in NETS:
            for h in (bytes(T.TEMPLATE_HASHLEN[kind]), b"\xff" * T.TEMPLATE_HASHLEN[kind], rand_bytes(rng, T.TEMPLATE_HASHLEN[kind])):
                yield {"kind": kind, "h": h, "network": net}
    while True:
        kind = rng.choice(T.TEMPLATES)
        yield {"kind": kind, "h": rand_bytes(rng, T.TEMPLATE_HASHLEN[kind]), "network": rng.choice(NETS)}


_TMPL = dict(params={"kind": STR, "h": B2S, "network": STR},
             requires=["kind in spec.text.TEMPLATES", "len(h) == spec.text.TEMPLATE_HASHLEN[kind]", "network in spec.text.NETWORKS"])
for _k in T.TEMPLATES:      # the script half of the address map, symbolically for every hash value
    contract(H + "spk_raw#" + _k, props=("C09",), params={"kind": ("const", _k), "h": "bytes:%d" % T.TEMPLATE_HASHLEN[_k]},
             ensures=["returns()", "result == spec.text.template_spk(kind, h)", "spec.text.classify_spk(result) == (kind if kind != 'p2wsh' and kind != 'p2wpkh' else ('p2wpkh' if len(h) == 20 else 'p2wsh'), h)"],
             gen=(lambda k: (lambda rng, tier: ({"kind": k, "h": rand_bytes(rng, T.TEMPLATE_HASHLEN[k])} for _ in range(50))))(_k))
contract(H + "spk_address", props=("C09",), ensures=["returns()", "result == spec.text.spk_to_address(spec.text.template_spk(kind, h), network)"],
         gen=_gen_tmpl, **_TMPL)
_CLS = "{'p2pkh': 'P2PKHScriptPubKey', 'p2sh': 'P2SHScriptPubKey', 'p2wpkh': 'P2WPKHScriptPubKey', 'p2wsh': 'P2WSHScriptPubKey', 'p2tr': 'P2TRScriptPubKey'}[kind]"
for _f in ("addr_roundtrip", "txout_roundtrip"):
    contract(H + _f, props=("C09",),
             ensures=["returns()", "result[1] == spec.text.template_spk(kind, h)", "result[0] == " + _CLS, "result[2] == result[3]"],
             gen=_gen_tmpl, **_TMPL)


def crafted_address(rng, reason):
    kind = rng.choice(T.TEMPLATES)
    net = rng.choice(NETS)
    if reason is None:
        return T.spk_to_address(T.template_spk(kind, rand_bytes(rng, T.TEMPLATE_HASHLEN[kind])), net)
    if reason == "upper":
        kind = rng.choice(T.TEMPLATES[2:])
        return T.spk_to_address(T.template_spk(kind, rand_bytes(rng, T.TEMPLATE_HASHLEN[kind])), net).upper()
    if reason == "b58-version":
        # version bytes whose 21-byte payloads start with the same character as real addresses, then any other byte
        ver = rng.choice([0x01, 0x04, 0x06, 0x07, 0x6D, 0x6E, 0x70, 0x71, 0xC3, 0xC5, 0xFF, 0x90, rng.choice([v for v in range(256) if v not in (0, 5, 0x6F, 0xC4)])])
        return T.base58check_encode(bytes([ver]) + rand_bytes(rng, 20))
    if reason == "b58-length":
        k = rng.randrange(4)
        if k == 0:
            return T.base58check_encode(bytes([rng.choice([0, 5, 0x6F, 0xC4])]) + rand_bytes(rng, rng.choice([0, 1, 19, 21, 32, 33])))
        if k == 1:
            return T.wif_encode(rng.randrange(1, T.SECP_N), rng.random() < 0.5, rng.random() < 0.5)
        if k == 2:
            return T.base58check_encode(bytes.fromhex(rng.choice(["0488b21e", "043587cf"])) + rand_bytes(rng, 74))
        return T.base58check_encode(rand_bytes(rng, rng.choice([0, 2, 5, 22, 40])))
    if reason.startswith("segwit-"):
        return crafted_by_reason(rng, reason[7:])
    if reason == "witness-nonstandard":
        hrp = rng.choice(["bc", "tb", "bcrt"])
        ver, n = rng.choice([(1, 20), (1, 33), (1, 2), (1, 40), (2, 32), (2, 20), (16, 32), (16, 2), (rng.randrange(2, 17), rng.randrange(2, 41))])
        return T.segwit_addr_encode(hrp, ver, rand_bytes(rng, n))
    raise KeyError(reason)


def _gen_addr_reason(reason, extra=()):
    def gen(rng, tier):
        for a in extra:
            yield {"addr": a}
        while True:
            yield {"addr": crafted_address(rng, reason)}
    return gen


ADDRESS_REASONS = ("b58-version", "b58-length", "witness-nonstandard") + tuple("segwit-" + r for r in SEGWIT_REASONS)
for _f in ("addr_to_spk", "txout_spk"):
    for _r in ADDRESS_REASONS:
        contract(H + _f + "#rejects-" + _r, props=("C09",), params={"addr": STR},
                 requires=["spec.text.address_reject_reason(addr) == %r" % _r], ensures=["not returns()"],
                 gen=_gen_addr_reason(_r, [x for x in BIP_INVALID + BIP_VALID if T.address_reject_reason(x) == _r]))
    contract(H + _f + "#accepts", props=("C09",), params={"addr": STR},
             requires=["spec.text.address_reject_reason(addr) is None", "addr[:1] not in 'BT'"],
             ensures=["returns()", "result == spec.text.address_to_spk(addr)[0]"],
             gen=_gen_addr_reason(None, [x for x in BIP_VALID if x == x.lower() and T.address_reject_reason(x) is None]))
    contract(H + _f + "#accepts-uppercase", props=("C09",), params={"addr": STR},
             requires=["spec.text.address_reject_reason(addr) is None", "addr[:1] in 'BT'"],
             ensures=["returns()", "result == spec.text.address_to_spk(addr)[0]"], gen=_gen_addr_reason("upper"))


# history (seed C09-E: decoded addresses memoised under the lower-cased spelling): a valid address, then a spelling of it
# with the case of some letters changed -- a different Base58 string (checksum no longer matches / characters outside the
# alphabet) or a mixed-case segwit string; the second call is judged by the spec on its own
def _gen_addr_history(rng, tier):
    def variants(a):
        idx = [i for i, c in enumerate(a) if c.isalpha()]
        for i in (idx[:2] + idx[-2:] + [rng.choice(idx) for _ in range(3)]):
            yield a[:i] + a[i].swapcase() + a[i + 1:]
        yield a.swapcase()
        yield a.lower()
        yield a.upper()
    n = 0
    while True:
        a = crafted_address(rng, None)
        for v in variants(a):
            if v != a:
                yield {"first": a, "second": v}
                yield {"first": v, "second": a}
        n += 1


contract(H + "addr_after_addr", props=("C09",), params={"first": STR, "second": STR}, tiers=("runtime-only",),
         ensures=["implies(spec.text.address_reject_reason(second) is not None, not returns())",
                  "implies(spec.text.address_reject_reason(second) is None, returns() and result == spec.text.address_to_spk(second)[0])"],
         gen=_gen_addr_history)


# ------------------------------------------------------------------------------------------- WIF
def _gen_wif(rng, tier):
    for secret in (1, 2, 255, 256, 2**128, 2**255, T.SECP_N - 1, T.SECP_N - 2, 2**248 - 1):
        for c in (True, False):
            for net in NETS:
                yield {"secret": secret, "compressed": c, "network": net}
    while True:
        yield {"secret": rng.randrange(1, T.SECP_N), "compressed": rng.random() < 0.5, "network": rng.choice(NETS)}


_WIF = dict(params={"secret": ("int", 1, T.SECP_N - 1), "compressed": "bool", "network": STR},
            requires=["1 <= secret < spec.text.SECP_N", "network in spec.text.NETWORKS"], gen=_gen_wif)
contract(H + "wif_of", props=("C09",), ensures=["returns()", "result == spec.text.wif_encode(secret, compressed, network == 'mainnet')"], **_WIF)
contract(H + "wif_roundtrip", props=("C09",),
         ensures=["returns()", "result == (secret, compressed, 'mainnet' if network == 'mainnet' else 'testnet')"], **_WIF)


def crafted_wif(rng, reason):
    k = rng.randrange(1, T.SECP_N).to_bytes(32, "big")
    ver = bytes([rng.choice([0x80, 0xEF])])
    flag = rng.choice([b"", b"\x01"])
    if reason is None:
        return T.base58check_encode(ver + rng.choice([k, (1).to_bytes(32, "big"), (T.SECP_N - 1).to_bytes(32, "big")]) + flag)
    if reason == "checksum":
        return mutate(rng, T.base58check_encode(ver + k + flag), T.B58)
    if reason == "length":
        return T.base58check_encode(ver + rng.choice([k[:31], k[:20], b"", k + b"\x01\x01", k + k, k[:1], k + b"\x01" + k[:3]]))
    if reason == "version":
        return T.base58check_encode(bytes([rng.choice([0x00, 0x81, 0xB0, 0x7F, 0xEE, 0x6F])]) + k + flag)
    if reason == "flag":
        return T.base58check_encode(ver + k + bytes([rng.choice([0, 2, 0x80, 0xFF])]))
    if reason == "range":
        return T.base58check_encode(ver + rng.choice([bytes(32), T.SECP_N.to_bytes(32, "big"), b"\xff" * 32, (T.SECP_N + 1).to_bytes(32, "big")]) + flag)
    raise KeyError(reason)


def _gen_wif_reason(reason):
    def gen(rng, tier):
        while True:
            yield {"s": crafted_wif(rng, reason)}
    return gen


WIF_REASONS = ("checksum", "length", "version", "flag", "range")
for _r in WIF_REASONS:
    contract(H + "wif_parse#rejects-" + _r, props=("C09",), params={"s": STR},
             requires=["spec.text.wif_reject_reason(s) == %r" % _r], ensures=["not returns()"], gen=_gen_wif_reason(_r))
contract(H + "wif_parse#accepts", props=("C09",), params={"s": STR}, requires=["spec.text.wif_reject_reason(s) is None"],
         ensures=["returns()", "tuple(result) == spec.text.wif_decode(s)"], gen=_gen_wif_reason(None))


# ------------------------------------------------------------------------------------------- published vectors through the engine
# The string-level contracts above are `undecided` for symbolic strings; the same clauses are additionally run by the
# symbolic executor on the (concrete) BIP173/BIP350/wiki test vectors -- every path of the real source that these
# vectors take is interpreted by pyvc and the clauses are checked on it.  These are enumerated inputs, not a proof.
_VEC_B58 = ["1PMycacnJaSqwwJqjawXBErnLsZ7RkXUAs", "1PMycacnJaSqwwJqjawXBErnLsZ7RkXUA5", "1111111111111111111114oLvT2", "0OIl", "",
            "5HueCGU8rMjxEXxiPuD5BDku4MkFqeZyd4dZ1jvhTVqvbTLvyTJ", "mnrVtF8DWjMu839VW3rBfgYaAfKk8983Xf", "3QJmnh"]
contract("buidl.helper.raw_decode_base58#vectors", props=("C09",), params={"s": ("choice", _VEC_B58)},
         ensures=REG.contracts["buidl.helper.raw_decode_base58"].ensures)
_VEC_SEG = ["bc1qw508d6qejxtdg4y5r3zarvary0c5xw7kv8f3t4", "bc1sw50qgdz25j", "bc1pw5dgrnzv", "bc1gmk9yu",
            T.bech32_encode("bc", [1] + T.regroup(b"\x75\x1e", 8, 5, True)[:-1] + [T.regroup(b"\x75\x1e", 8, 5, True)[-1] | 1], T.BECH32M_CONST)]   # non-zero padding
_DEC = ["implies(returns(), spec.text.segwit_addr_decode(s) is not None)",
        "implies(returns() and spec.text.segwit_addr_decode(s) is not None, result[0] in spec.text.HRP_NETS[spec.text.segwit_addr_decode(s)[0]] and (result[1], result[2]) == spec.text.segwit_addr_decode(s)[1:])",
        "implies(spec.text.segwit_addr_decode(s) is not None, returns())"]
contract("buidl.bech32.decode_bech32#vectors", props=("C09",), params={"s": ("choice", _VEC_SEG)}, ensures=_DEC, max_paths=64)
