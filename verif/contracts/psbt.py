"""C10 / C11: PSBT codec, signing workflow and review summary (buidl/psbt.py, psbt_helper.py, tx.py).

Symbolic contracts aim at the leaves that are ints/bytes (key-value record, Tx.fee, unknown-record map round
trips, derivation/xpub records).  Contracts on whole PSBTs take the serialised bytes; the engine cannot execute
them symbolically yet (they stay `undecided`) and they run concretely in the bounded companion, judged by the
independent spec functions of verif/specs/psbt.py.  The properties' own quantifiers (wallets, signer subsets,
orders, tampering catalogue) are the bounded jobs of verif/props/C10.py and C11.py."""
from .common import *  # noqa

P = ("C10",)
U64 = ("int", 0, 2**64 - 1)
SATS = ("int", 0, 21 * 10**14)


# ---------------------------------------------------------------------------- key-value record
def _gen_kv(rng, tier):
    for kl in (1, 2, 34, 79, 252, 253, 300):
        for vl in (0, 1, 4, 252, 253, 65535, 65536):
            yield {"key": rand_bytes(rng, kl), "value": rand_bytes(rng, vl)}
    while True:
        yield {"key": rand_bytes(rng, rng.randrange(1, 90)), "value": rand_bytes(rng, rng.randrange(0, 700))}


contract("buidl.helper.serialize_key_value", props=("C10",), params={"key": "bytes", "value": "bytes"},
         requires=["len(key) < 2**32", "len(value) < 2**32"],
         ensures=["returns()", "result == spec.psbt.kv(key, value)"], gen=_gen_kv)


# ---------------------------------------------------------------------------- Tx.fee (C11.1)
def _gen_fee(rng, tier):
    for v in ((0, 0, 0, 0), (1, 0, 0, 0), (0, 0, 1, 0), (21 * 10**14, 21 * 10**14, 1, 2), (5, 6, 7, 8)):
        yield dict(zip(("v0", "v1", "a0", "a1"), v))
    while True:
        yield {k: rng.randrange(0, 21 * 10**14) for k in ("v0", "v1", "a0", "a1")}


contract("verif.harness.psbt.fee_2x2", props=("C11",), params={"v0": SATS, "v1": SATS, "a0": SATS, "a1": SATS},
         ensures=["returns()", "result == v0 + v1 - a0 - a1", "result == spec.psbt.fee([v0, v1], [a0, a1])",
                  "result + a0 + a1 == v0 + v1"], gen=_gen_fee)


# ---------------------------------------------------------------------------- maps carrying one unknown record
def _gen_unknown(lo):
    def gen(rng, tier):
        for t in (lo, lo + 1, 0x7F, 0xFC, 0xFF):
            for kl in (0, 1, 33, 252):
                for vl in (0, 1, 253):
                    yield {"t": t, "k": rand_bytes(rng, kl), "v": rand_bytes(rng, vl), "tail": rand_bytes(rng, 2)}
        while True:
            yield {"t": rng.randrange(lo, 256), "k": rand_bytes(rng, rng.randrange(0, 60)), "v": rand_bytes(rng, rng.randrange(0, 300)),
                   "tail": rand_bytes(rng, rng.randrange(0, 3))}
    return gen


for _nm, _lo in (("out_map_roundtrip", 3), ("in_map_roundtrip", 9)):
    contract("verif.harness.psbt." + _nm, props=("C10",),
             ghost={"t": ("int", _lo, 255), "k": ("bytes", 0, 40), "v": "bytes", "tail": "bytes"},
             requires=["len(v) < 2**32"],
             setup=StreamOf("spec.psbt.kv(spec.le(t, 1) + k, v) + b'\\x00' + tail"), args=["s"],
             ensures=["returns()", "result == spec.psbt.kv(spec.le(t, 1) + k, v) + b'\\x00'", "s.read() == tail"],
             gen=_gen_unknown(_lo))

# an empty map
for _nm in ("out_map_roundtrip", "in_map_roundtrip"):
    contract("verif.harness.psbt.%s#empty" % _nm, props=("C10",), ghost={"tail": "bytes"},
             setup=StreamOf("b'\\x00' + tail"), args=["s"],
             ensures=["returns()", "result == b'\\x00'", "s.read() == tail"],
             gen=lambda rng, tier: ({"tail": rand_bytes(rng, k)} for k in range(4)))


# ---------------------------------------------------------------------------- derivation / xpub records
def _keys():
    import verif.harness.psbt as hp
    return hp


def _gen_named(rng, tier):
    hp = _keys()
    for i in range(3):
        for a, b in ((0, 0), (1, 0), (0, 2)):
            x = hp.named(i, a, b)
            for prefix in (b"\x06", b"\x02"):
                yield {"prefix": prefix, "sec": x.sec(), "raw_path": x.raw_path}
        yield {"prefix": b"\x06", "sec": hp.named(i, 0, 0).sec(), "raw_path": hp.root(i).fingerprint()}       # the master key itself
    yield {"prefix": b"\x06", "sec": hp.named(0, 0, 0).sec(), "raw_path": hp.root(0).fingerprint() + b"\x30\x00\x00\x80"}   # path m/48'
    yield {"prefix": b"\x06", "sec": b"\x02" + b"\x00" * 31 + b"\x05", "raw_path": b"\x00" * 8}               # x = 5 is not on the curve


contract("verif.harness.psbt.named_pub_record", props=("C10",),
         params={"prefix": ("choice", [b"\x06", b"\x02"]), "sec": "bytes:33", "raw_path": ("bytes", 4, 44)},
         requires=["len(raw_path) % 4 == 0"],
         ensures=["implies(returns(), result == spec.psbt.bip32_record(prefix, sec, raw_path[:4], raw_path[4:]))"],
         tiers=(), gen=_gen_named)     # S256Point.parse takes a modular square root of the symbolic x: z3 does not answer in budget
# concrete only (tiers=()): the curve-membership oracle is a modular square root, which the engine cannot evaluate symbolically
contract("verif.harness.psbt.named_pub_record#loadable", props=("C10",),
         params={"prefix": ("choice", [b"\x06", b"\x02"]), "sec": "bytes:33", "raw_path": ("bytes", 4, 44)},
         requires=["len(raw_path) % 4 == 0"],
         ensures=["implies(returns(), spec.psbt.on_curve(sec))",
                  # a well-formed record (key on the curve) with a path of ANY depth is loadable
                  "implies(spec.psbt.on_curve(sec), returns())"],
         tiers=(), gen=_gen_named)


def _gen_hd(rng, tier):
    hp = _keys()
    import verif.specs.psbt as S
    for i in range(3):
        x78 = hp.acct(i).pub.raw_serialize()
        yield {"xpub78": x78, "raw_path": hp.root(i).fingerprint() + S.path_bytes(hp.BASE_IDX)}
        yield {"xpub78": x78, "raw_path": hp.root(i).fingerprint() + S.path_bytes(hp.BASE_IDX[:3])}       # depth mismatch -> must raise
        yield {"xpub78": hp.root(i).pub.raw_serialize(), "raw_path": hp.root(i).fingerprint()}
        yield {"xpub78": hp.root(i).child(0x80000000 + 48).pub.raw_serialize(), "raw_path": hp.root(i).fingerprint() + S.path_bytes(hp.BASE_IDX[:1])}


contract("verif.harness.psbt.named_hd_record", props=("C10",),
         params={"xpub78": "bytes:78", "raw_path": ("bytes", 4, 44)},
         requires=["len(raw_path) % 4 == 0"],
         ensures=["implies(returns(), result == spec.psbt.xpub_record(xpub78, raw_path[:4], raw_path[4:]))",
                  "implies(returns(), xpub78[4] == (len(raw_path) - 4) // 4)"],
         tiers=(), gen=_gen_hd)
contract("verif.harness.psbt.named_hd_record#loadable", props=("C10",),
         params={"xpub78": "bytes:78", "raw_path": ("bytes", 4, 44)},
         requires=["len(raw_path) % 4 == 0"],
         # a well-formed record (key on the curve, depth == path length) of ANY depth is loadable
         ensures=["implies(xpub78[4] == (len(raw_path) - 4) // 4 and spec.psbt.on_curve(xpub78[45:]), returns())"],
         tiers=(), gen=_gen_hd)


# ---------------------------------------------------------------------------- whole-PSBT contracts (bytes in, bytes out)
_CASES = {}


def _case(m, n, kind, a, b, **kw):
    hp = _keys()
    k = (m, n, kind, a, b, tuple(sorted(kw.items())))
    if k not in _CASES:
        _CASES[k] = hp.build_case(m, n, kind, a, b, **kw)
    return _CASES[k]


def _stages(case, signers):
    """serialised PSBTs of one honest workflow: created, updated, signed by each of `signers`, combined, finalized"""
    hp = _keys()
    import copy
    out = [("created", case.created), ("updated", case.updated)]
    base = hp.parse(case.updated)
    parts = []
    for k in signers:
        c = copy.deepcopy(base)
        c.sign(hp.root(case.ids[k]))
        parts.append(c)
        out.append(("signed-%d" % k, c.serialize()))
    if parts:
        acc = copy.deepcopy(parts[0])
        for c in parts[1:]:
            acc.combine(copy.deepcopy(c))
        out.append(("combined", acc.serialize()))
        if len(signers) >= case.m:
            acc.finalize()
            out.append(("finalized", acc.serialize()))
    return out


_SMALL = [(1, 1, "p2sh", 1, 1), (2, 2, "p2wsh", 1, 2), (1, 2, "p2sh-p2wsh", 2, 1), (1, 1, "p2pkh", 1, 1), (1, 1, "p2wpkh", 2, 2)]


def _gen_rt(rng, tier):
    for cfg in _SMALL:
        case = _case(*cfg)
        for stage, raw in _stages(case, list(range(case.m))):
            yield {"raw": raw}
    yield {"raw": b"psbt\xff\x00"}                                   # no unsigned tx: must raise
    yield {"raw": b"psbu\xff" + _case(*_SMALL[0]).created[5:]}       # bad magic: must raise


contract("verif.harness.psbt.psbt_roundtrip", props=("C10",), params={"raw": "bytes"},
         ensures=["implies(returns(), result[0] == result[1])",
                  "implies(returns(), result[2] == result[0])",
                  "implies(returns(), spec.psbt.canonical(result[0]))",
                  "implies(returns(), spec.psbt.is_legacy_unsigned_tx(spec.psbt.global_tx_bytes(result[0])))",
                  "implies(returns() and spec.psbt.canonical(raw), result[0] == raw)"],
         tiers=(), gen=_gen_rt)       # symbolic execution of the whole parser over unconstrained bytes does not terminate in the job budget


# a whole (minimal) PSBT around one symbolic unknown global record: 1-in/1-out unsigned tx, empty input/output maps
TX0 = (b"\x02\x00\x00\x00" + b"\x01" + b"\x07" * 32 + b"\x00\x00\x00\x00" + b"\x00" + b"\xff\xff\xff\xff"
       + b"\x01" + b"\xe8\x03\x00\x00\x00\x00\x00\x00" + b"\x01\x6a" + b"\x00\x00\x00\x00")
contract("verif.harness.psbt.psbt_stream_roundtrip", props=("C10",),
         ghost={"t": ("int", 2, 255), "k": ("bytes", 0, 40), "v": "bytes", "tail": "bytes", "tx0": ("const", TX0)},
         requires=["len(v) < 2**32"],
         setup=StreamOf("b'psbt\\xff' + spec.psbt.kv(b'\\x00', tx0) + spec.psbt.kv(spec.le(t, 1) + k, v) + b'\\x00\\x00\\x00' + tail"), args=["s"],
         ensures=["returns()",
                  "result == b'psbt\\xff' + spec.psbt.kv(b'\\x00', tx0) + spec.psbt.kv(spec.le(t, 1) + k, v) + b'\\x00\\x00\\x00'",
                  "s.read() == tail"],
         gen=lambda rng, tier: ({"t": t, "k": rand_bytes(rng, kl), "v": rand_bytes(rng, vl), "tail": rand_bytes(rng, 1), "tx0": TX0}
                                for t in (2, 3, 0xFB, 0xFC, 0xFF) for kl in (0, 1, 40) for vl in (0, 5, 300)))


def _gen_combine(rng, tier):
    for cfg in _SMALL[:3]:
        case = _case(*cfg)
        st = dict(_stages(case, list(range(case.n))))
        names = [k for k in st if k.startswith("signed-")]
        for x in names:
            for y in names:
                yield {"a": st[x], "b": st[y]}
        yield {"a": st["updated"], "b": st[names[0]]}
        yield {"a": st[names[0]], "b": st["updated"]}
    yield {"a": _case(*_SMALL[0]).updated, "b": _case(*_SMALL[1]).updated}      # different transactions: must raise


contract("verif.harness.psbt.combine_raw", props=("C10",), params={"a": "bytes", "b": "bytes"},
         requires=["spec.psbt.parses(a)", "spec.psbt.parses(b)"],
         raises={"ValueError": "spec.psbt.psbt_parse(a)['tx'] != spec.psbt.psbt_parse(b)['tx']"},
         ensures=["implies(returns() and spec.psbt.compatible(spec.psbt.psbt_parse(a), spec.psbt.psbt_parse(b)), result == spec.psbt.merged(a, b))",
                  "implies(returns() and spec.psbt.compatible(spec.psbt.psbt_parse(a), spec.psbt.psbt_parse(b)), result == spec.psbt.merged(b, a))"],
         gen=_gen_combine)


def _gen_final(rng, tier):
    for cfg in _SMALL:
        case = _case(*cfg)
        st = dict(_stages(case, list(range(case.m))))
        yield {"raw": st["combined"]}
        yield {"raw": st["updated"]}            # nothing signed: must raise RuntimeError
        if case.m > 1:
            yield {"raw": st["signed-0"]}       # below the threshold


contract("verif.harness.psbt.finalize_extract", props=("C10",), params={"raw": "bytes"},
         requires=["spec.psbt.parses(raw)"],
         raises={"RuntimeError": "not spec.psbt.can_finalize(raw)"},
         ensures=["implies(returns(), result == spec.psbt.final_tx_of(raw))"],
         gen=_gen_final)


def _gen_describe(rng, tier):
    hp = _keys()
    for cfg in ((1, 1, "p2sh", 1, 2), (2, 2, "p2wsh", 2, 2), (1, 2, "p2sh", 2, 1), (2, 3, "p2wsh", 1, 3)):
        for kw in ({}, {"has_change": False}):
            case = _case(*cfg, **kw)
            ids = case.ids
            yield {"raw": case.updated, "xfps": [hp.root(i).fingerprint().hex() for i in ids],
                   "xpubs": [hp.acct_xpub(i) for i in ids], "wallet": case.wallet}
    # a wallet that does not own the inputs: must not be summarised
    case = _case(1, 2, "p2sh", 2, 1)
    yield {"raw": case.updated, "xfps": [hp.root(i).fingerprint().hex() for i in (3, 4)],
           "xpubs": [hp.acct_xpub(i) for i in (3, 4)], "wallet": hp.spec_wallet(1, [3, 4])}


contract("verif.harness.psbt.describe", props=("C11",),
         params={"raw": "bytes"}, ghost={"wallet": ("const", None), "xfps": ("const", None), "xpubs": ("const", None)},
         args=["raw", "xfps", "xpubs"],
         ensures=["implies(returns(), result[2] == result[0] - result[1])",
                  "implies(returns(), result[3] + result[4] + result[2] == result[0])",
                  "implies(returns(), spec.psbt.review_of(raw, wallet) is not None)",
                  "implies(returns(), result[0] == spec.psbt.review_of(raw, wallet)[0])",
                  "implies(returns(), spec.psbt.change_sound(raw, wallet, result[5]))",
                  "implies(returns(), result == spec.psbt.review_of(raw, wallet))"],
         tiers=(), gen=_gen_describe)
