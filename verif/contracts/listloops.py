"""C04: transaction serialisers for EVERY number of inputs and outputs (loop invariants over lists of
symbolic length with abstract elements; the element serialisers have their own contracts in txcodec.py)"""
from .common import *  # noqa
from verif.pyvc import symlist

U32 = ("int", 0, 2**32 - 1)


class _AtomSetup:
    """Tx object with symbolic version/locktime and input/output lists of arbitrary length"""

    def __call__(self, m, env):
        from buidl import tx as _tx, witness as _w
        from verif.pyvc.values import HObj, TInt
        from buidl.timelock import Locktime
        symlist.install(m, {_tx.TxIn.serialize: "txin", _tx.TxOut.serialize: "txout", _w.Witness.serialize: "witness"})
        ins = m.make_sym("tx_ins", symlist.symlist("buidl.tx.TxIn", {"witness": "buidl.witness.Witness"}, max_len=2**32))
        outs = m.make_sym("tx_outs", symlist.symlist("buidl.tx.TxOut", max_len=2**32))
        lt = m.make_sym("locktime", U32)
        env["self"] = m.p.alloc(HObj(_tx.Tx, {"version": m.make_sym("version", U32), "tx_ins": ins, "tx_outs": outs,
                                              "locktime": TInt(Locktime, lt), "segwit": True, "network": "mainnet"}))

    def conc(self, env, glob):
        pass


def _gen_tx(rng, tier):
    from verif.contracts import txcodec  # noqa: reuse nothing, build plain objects
    for n_in in (0, 1, 2, 3, 252, 253, 254):
        for n_out in (0, 1, 2, 253):
            ins = [{"__class__": "buidl.tx.TxIn", "fields": {"prev_tx": rand_bytes(rng, 32), "prev_index": rng.randrange(4),
                    "script_sig": {"__class__": "buidl.script.Script", "fields": {"commands": [], "raw": None}},
                    "sequence": {"__tint__": "buidl.timelock.Sequence", "value": 0xffffffff},
                    "witness": {"__class__": "buidl.witness.Witness", "fields": {"items": [rand_bytes(rng, 3)]}}}} for _ in range(n_in)]
            outs = [{"__class__": "buidl.tx.TxOut", "fields": {"amount": rng.randrange(10**8),
                     "script_pubkey": {"__class__": "buidl.script.Script", "fields": {"commands": [0x51], "raw": None}}}} for _ in range(n_out)]
            yield {"self": {"__class__": "buidl.tx.Tx", "fields": {"version": 2, "tx_ins": ins, "tx_outs": outs,
                            "locktime": {"__tint__": "buidl.timelock.Locktime", "value": 7}, "segwit": True, "network": "mainnet"}}}


_HEAD = "spec.le(self.version, 4) + spec.compact_size(len(self.tx_ins))"
contract("buidl.tx.Tx.serialize_legacy#anylen", props=("C04",), setup=_AtomSetup(), args=["self"],
         ensures=["returns()", "result == spec.listser.tx_legacy(self.version, self.tx_ins, self.tx_outs, self.locktime.serialize())"],
         invariants={1: {"inv": ["result == %s + spec.listser.concat_ser(self.tx_ins, _k)" % _HEAD], "types": {"result": "bytes"}},
                     2: {"inv": ["result == %s + spec.listser.concat_ser(self.tx_ins, len(self.tx_ins)) + "
                                 "spec.compact_size(len(self.tx_outs)) + spec.listser.concat_ser(self.tx_outs, _k)" % _HEAD],
                         "types": {"result": "bytes"}}},
         gen=_gen_tx)

contract("buidl.tx.Tx.serialize_witness#anylen", props=("C04",), setup=_AtomSetup(), args=["self"],
         ensures=["returns()", "result == spec.listser.concat_wit(self.tx_ins, len(self.tx_ins))"],
         invariants={1: {"inv": ["result == spec.listser.concat_wit(self.tx_ins, _k)"], "types": {"result": "bytes"}}},
         gen=_gen_tx)

_HEAD_SW = "spec.le(self.version, 4) + b'\\x00\\x01' + spec.compact_size(len(self.tx_ins))"
contract("buidl.tx.Tx.serialize_segwit#anylen", props=("C04",), setup=_AtomSetup(), args=["self"],
         ensures=["returns()", "result == spec.listser.tx_segwit(self.version, self.tx_ins, self.tx_outs, self.locktime.serialize())"],
         invariants={1: {"inv": ["result == %s + spec.listser.concat_ser(self.tx_ins, _k)" % _HEAD_SW], "types": {"result": "bytes"}},
                     2: {"inv": ["result == %s + spec.listser.concat_ser(self.tx_ins, len(self.tx_ins)) + "
                                 "spec.compact_size(len(self.tx_outs)) + spec.listser.concat_ser(self.tx_outs, _k)" % _HEAD_SW],
                         "types": {"result": "bytes"}}},
         gen=_gen_tx)

# txid: byte-reversed double SHA-256 of the witness-stripped serialisation, for every transaction shape;
# no witness symbol occurs in the term, so the id is invariant under witness changes
contract("buidl.tx.Tx.hash#anylen", props=("C04",), setup=_AtomSetup(), args=["self"],
         ensures=["returns()",
                  "result == spec.hash256(spec.listser.tx_legacy(self.version, self.tx_ins, self.tx_outs, self.locktime.serialize()))[::-1]"],
         gen=_gen_tx)


# ---------------------------------------------------------------------------- C05: BIP143 for every shape
class _Bip143Setup:
    """Tx with input/output lists of arbitrary length; inputs carry symbolic outpoint, sequence and amount
    (functions of the abstract element), outputs and the witness script are abstract serialisable elements"""

    def __call__(self, m, env):
        from buidl import tx as _tx, script as _sc
        from verif.pyvc.values import HObj, TInt
        from buidl.timelock import Locktime
        symlist.install(m, {_tx.TxOut.serialize: "txout", _sc.Script.serialize: "script"})
        ins = m.make_sym("tx_ins", symlist.symlist("buidl.tx.TxIn", max_len=2**32, fields={
            "prev_tx": "bytes:32", "prev_index": U32, "sequence": ("tint", "buidl.timelock.Sequence", 0, 2**32 - 1),
            "_value": ("int", 0, 2**63 - 1)}))
        outs = m.make_sym("tx_outs", symlist.symlist("buidl.tx.TxOut", max_len=2**32))
        lt = m.make_sym("locktime", U32)
        env["self"] = m.p.alloc(HObj(_tx.Tx, {"version": m.make_sym("version", U32), "tx_ins": ins, "tx_outs": outs,
                                              "locktime": TInt(Locktime, lt), "segwit": True, "network": "mainnet",
                                              "_hash_prevouts": None, "_hash_sequence": None, "_hash_outputs": None}))
        ws = m.make_sym("ws", symlist.symlist("buidl.script.WitnessScript", max_len=1))
        env["witness_script"] = m.p.deref(ws).pre[2](0)
        env["redeem_script"] = None
        env["input_index"] = m.make_sym("input_index", ("int", 0, 2**32))

    def conc(self, env, glob):
        pass


def _gen_bip143(rng, tier):
    from buidl.script import WitnessScript
    for n_in, n_out in ((1, 0), (1, 1), (2, 1), (3, 2), (2, 3), (5, 4)):
        for ht in (0, 1, 2, 3, 0x81, 0x82, 0x83):
            for idx in range(n_in):
                ins = [{"__class__": "buidl.tx.TxIn", "fields": {
                    "prev_tx": rand_bytes(rng, 32), "prev_index": rng.getrandbits(32),
                    "script_sig": {"__class__": "buidl.script.Script", "fields": {"commands": [], "raw": None}},
                    "sequence": {"__tint__": "buidl.timelock.Sequence", "value": rng.getrandbits(32)},
                    "witness": {"__class__": "buidl.witness.Witness", "fields": {"items": []}},
                    "_value": rng.getrandbits(62), "_script_pubkey": None}} for _ in range(n_in)]
                outs = [{"__class__": "buidl.tx.TxOut", "fields": {"amount": rng.randrange(10**8), "script_pubkey": {
                    "__class__": "buidl.script.Script", "fields": {"commands": [0x51 + rng.randrange(4)], "raw": None}}}} for _ in range(n_out)]
                yield {"self": {"__class__": "buidl.tx.Tx", "fields": {
                    "version": rng.getrandbits(32), "tx_ins": ins, "tx_outs": outs,
                    "locktime": {"__tint__": "buidl.timelock.Locktime", "value": rng.getrandbits(32)}, "segwit": True,
                    "network": "mainnet", "_hash_prevouts": None, "_hash_sequence": None, "_hash_outputs": None}},
                    "input_index": idx, "redeem_script": None, "hash_type": ht,
                    "witness_script": {"__class__": "buidl.script.WitnessScript",
                                       "fields": {"commands": [rand_bytes(rng, 33), 0xac], "raw": None}}}


contract("buidl.tx.Tx.hash_prevouts#anylen", props=("C05",), setup=_Bip143Setup(), args=["self"],
         ensures=["returns()", "result == spec.hash256(spec.listser.concat_outpoints(self.tx_ins, len(self.tx_ins)))",
                  "self._hash_sequence == spec.hash256(spec.listser.concat_sequences(self.tx_ins, len(self.tx_ins)))"],
         invariants={1: {"inv": ["all_prevouts == spec.listser.concat_outpoints(self.tx_ins, _k)",
                                 "all_sequence == spec.listser.concat_sequences(self.tx_ins, _k)"],
                         "types": {"all_prevouts": "bytes", "all_sequence": "bytes"}}},
         gen=_gen_bip143)

contract("buidl.tx.Tx.hash_outputs#anylen", props=("C05",), setup=_Bip143Setup(), args=["self"],
         ensures=["returns()", "result == spec.hash256(spec.listser.concat_ser(self.tx_outs, len(self.tx_outs)))"],
         invariants={1: {"inv": ["all_outputs == spec.listser.concat_ser(self.tx_outs, _k)"], "types": {"all_outputs": "bytes"}}},
         gen=_gen_bip143)

contract("buidl.tx.Tx.sig_hash_bip143#anylen", props=("C05",), setup=_Bip143Setup(),
         params={"hash_type": ("choice", [0, 1, 2, 3, 0x81, 0x82, 0x83])},
         args=["self", "input_index", "redeem_script", "witness_script", "hash_type"],
         requires=["input_index < len(self.tx_ins)"],
         ensures=["returns()",
                  "result == spec.int_be(spec.hash256(spec.listser.bip143_preimage(self.version, self.tx_ins, self.tx_outs, "
                  "input_index, witness_script.serialize(), self.tx_ins[input_index]._value, self.locktime.serialize(), hash_type)))"],
         gen=_gen_bip143)


# ---------------------------------------------------------------------------- C05: BIP341 key path (no annex) for every shape
class _Bip341Setup:
    def __call__(self, m, env):
        from buidl import tx as _tx, script as _sc
        from verif.pyvc.values import HObj, TInt
        from buidl.timelock import Locktime
        symlist.install(m, {_tx.TxOut.serialize: "txout", _sc.Script.serialize: "script"})
        ins = m.make_sym("tx_ins", symlist.symlist("buidl.tx.TxIn", {"_script_pubkey": "buidl.script.Script"}, max_len=2**32, fields={
            "prev_tx": "bytes:32", "prev_index": U32, "sequence": ("tint", "buidl.timelock.Sequence", 0, 2**32 - 1),
            "_value": ("int", 0, 2**63 - 1), "witness": ("keypath_witness",)}))
        outs = m.make_sym("tx_outs", symlist.symlist("buidl.tx.TxOut", max_len=2**32))
        lt = m.make_sym("locktime", U32)
        env["self"] = m.p.alloc(HObj(_tx.Tx, {"version": m.make_sym("version", U32), "tx_ins": ins, "tx_outs": outs,
                                              "locktime": TInt(Locktime, lt), "segwit": True, "network": "mainnet"}))
        env["input_index"] = m.make_sym("input_index", ("int", 0, 2**32))
        env["ext_flag"] = 0

    def conc(self, env, glob):
        pass


def _gen_bip341(rng, tier):
    for n_in, n_out in ((1, 0), (1, 1), (2, 1), (3, 2), (2, 3), (5, 4)):
        for ht in (0, 1, 2, 3, 0x81, 0x82, 0x83):
            for idx in range(n_in):
                ins = [{"__class__": "buidl.tx.TxIn", "fields": {
                    "prev_tx": rand_bytes(rng, 32), "prev_index": rng.getrandbits(32),
                    "script_sig": {"__class__": "buidl.script.Script", "fields": {"commands": [], "raw": None}},
                    "sequence": {"__tint__": "buidl.timelock.Sequence", "value": rng.getrandbits(32)},
                    "witness": {"__class__": "buidl.witness.Witness", "fields": {"items": [rand_bytes(rng, 64)]}},
                    "_value": rng.getrandbits(62),
                    "_script_pubkey": {"__class__": "buidl.script.Script", "fields": {"commands": [0x51, rand_bytes(rng, 32)], "raw": None}}}}
                    for _ in range(n_in)]
                outs = [{"__class__": "buidl.tx.TxOut", "fields": {"amount": rng.randrange(10**8), "script_pubkey": {
                    "__class__": "buidl.script.Script", "fields": {"commands": [0x51 + rng.randrange(4)], "raw": None}}}} for _ in range(n_out)]
                yield {"self": {"__class__": "buidl.tx.Tx", "fields": {
                    "version": rng.getrandbits(32), "tx_ins": ins, "tx_outs": outs,
                    "locktime": {"__tint__": "buidl.timelock.Locktime", "value": rng.getrandbits(32)}, "segwit": True, "network": "mainnet"}},
                    "input_index": idx, "ext_flag": 0, "hash_type": ht}


_SP = "self.tx_ins, len(self.tx_ins)"
contract("buidl.tx.Tx.sha_prevouts#anylen", props=("C05",), setup=_Bip341Setup(), args=["self"],
         ensures=["returns()", "result == spec.sha256(spec.listser.concat_outpoints(%s))" % _SP,
                  "self._sha_amounts == spec.sha256(spec.listser.concat_amounts(%s))" % _SP,
                  "self._sha_script_pubkeys == spec.sha256(spec.listser.concat_spent_spks(%s))" % _SP,
                  "self._sha_sequences == spec.sha256(spec.listser.concat_sequences(%s))" % _SP],
         invariants={1: {"inv": ["all_prevouts == spec.listser.concat_outpoints(self.tx_ins, _k)",
                                 "all_amounts == spec.listser.concat_amounts(self.tx_ins, _k)",
                                 "all_script_pubkeys == spec.listser.concat_spent_spks(self.tx_ins, _k)",
                                 "all_sequence == spec.listser.concat_sequences(self.tx_ins, _k)"],
                         "types": {"all_prevouts": "bytes", "all_amounts": "bytes", "all_script_pubkeys": "bytes", "all_sequence": "bytes"}}},
         gen=_gen_bip341)

contract("buidl.tx.Tx.sha_outputs#anylen", props=("C05",), setup=_Bip341Setup(), args=["self"],
         ensures=["returns()", "result == spec.sha256(spec.listser.concat_ser(self.tx_outs, len(self.tx_outs)))"],
         invariants={1: {"inv": ["all_outputs == spec.listser.concat_ser(self.tx_outs, _k)"], "types": {"all_outputs": "bytes"}}},
         gen=_gen_bip341)

_NOOUT = "(hash_type & 3 == 3 and input_index >= len(self.tx_outs))"
contract("buidl.tx.Tx.sig_hash_bip341#anylen-keypath", props=("C05",), setup=_Bip341Setup(),
         params={"hash_type": ("choice", [0, 1, 2, 3, 0x81, 0x82, 0x83])},
         args=["self", "input_index", "ext_flag", "hash_type"],
         requires=["input_index < len(self.tx_ins)"],
         ensures=["implies(not %s, returns())" % _NOOUT,
                  "implies(not %s, result == spec.sighash.tagged_hash(b'TapSighash', spec.listser.bip341_keypath_message("
                  "self.version, self.tx_ins, self.tx_outs, input_index, self.locktime.serialize(), hash_type)))" % _NOOUT,
                  "implies(%s, raises())" % _NOOUT],
         gen=_gen_bip341)


# ---------------------------------------------------------------------------- C05: original sighash for every shape
class _LegacySetup:
    def __call__(self, m, env):
        from buidl import tx as _tx, script as _sc
        from verif.pyvc.values import HObj, TInt
        from buidl.timelock import Locktime
        symlist.install(m, {_tx.TxOut.serialize: "txout", _sc.Script.serialize: "script"})
        ins = m.make_sym("tx_ins", symlist.symlist("buidl.tx.TxIn", max_len=2**32, fields={
            "prev_tx": "bytes:32", "prev_index": U32, "sequence": ("tint", "buidl.timelock.Sequence", 0, 2**32 - 1)}))
        outs = m.make_sym("tx_outs", symlist.symlist("buidl.tx.TxOut", max_len=2**32))
        lt = m.make_sym("locktime", U32)
        env["self"] = m.p.alloc(HObj(_tx.Tx, {"version": m.make_sym("version", U32), "tx_ins": ins, "tx_outs": outs,
                                              "locktime": TInt(Locktime, lt), "segwit": False, "network": "mainnet"}))
        rs = m.make_sym("rs", symlist.symlist("buidl.script.RedeemScript", max_len=1))
        env["redeem_script"] = m.p.deref(rs).pre[2](0)
        env["input_index"] = m.make_sym("input_index", ("int", 0, 2**32))

    def conc(self, env, glob):
        pass


def _gen_legacy(rng, tier):
    for n_in, n_out in ((1, 0), (1, 1), (2, 1), (3, 2), (2, 3), (5, 4)):
        for ht in (0, 1, 2, 3, 0x81, 0x82, 0x83):
            for idx in range(n_in + 1):
                ins = [{"__class__": "buidl.tx.TxIn", "fields": {
                    "prev_tx": rand_bytes(rng, 32), "prev_index": rng.getrandbits(32),
                    "script_sig": {"__class__": "buidl.script.Script", "fields": {"commands": [rand_bytes(rng, 5)], "raw": None}},
                    "sequence": {"__tint__": "buidl.timelock.Sequence", "value": rng.getrandbits(32)},
                    "witness": {"__class__": "buidl.witness.Witness", "fields": {"items": []}},
                    "_value": None, "_script_pubkey": None}} for _ in range(n_in)]
                outs = [{"__class__": "buidl.tx.TxOut", "fields": {"amount": rng.randrange(10**8), "script_pubkey": {
                    "__class__": "buidl.script.Script", "fields": {"commands": [0x51 + rng.randrange(4)], "raw": None}}}} for _ in range(n_out)]
                yield {"self": {"__class__": "buidl.tx.Tx", "fields": {
                    "version": rng.getrandbits(32), "tx_ins": ins, "tx_outs": outs,
                    "locktime": {"__tint__": "buidl.timelock.Locktime", "value": rng.getrandbits(32)}, "segwit": False, "network": "mainnet"}},
                    "input_index": idx, "hash_type": ht,
                    "redeem_script": {"__class__": "buidl.script.RedeemScript",
                                      "fields": {"commands": [0x51, rand_bytes(rng, 33), 0x51, 0xae], "raw": None}}}


_L1 = "spec.listser.legacy_through_inputs(self.version, self.tx_ins, %s, input_index, redeem_script.serialize(), hash_type)"
_UNDEF = "(input_index >= len(self.tx_ins) or (hash_type & 3 == 3 and input_index >= len(self.tx_outs)))"
contract("buidl.tx.Tx.sig_hash_legacy#anylen", props=("C05",), setup=_LegacySetup(),
         params={"hash_type": ("choice", [0, 1, 2, 3, 0x81, 0x82, 0x83])},
         args=["self", "input_index", "redeem_script", "hash_type"],
         ensures=["returns()",
                  "implies(%s, result == 1 << 248)" % _UNDEF,
                  "implies(not %s, result == spec.int_be(spec.hash256(spec.listser.legacy_preimage(self.version, self.tx_ins, "
                  "self.tx_outs, input_index, redeem_script.serialize(), self.locktime.serialize(), hash_type))))" % _UNDEF],
         invariants={1: {"inv": ["s == " + _L1 % "_k"], "types": {"s": "bytes"}},
                     2: {"inv": ["s == " + _L1 % "len(self.tx_ins)" + " + spec.listser.legacy_out_count(self.tx_outs, input_index, hash_type)"
                                 " + spec.listser.legacy_outs_upto(self.tx_outs, _k, hash_type)",
                                 "hash_type & 3 != 3 or _k <= input_index"],
                         "types": {"s": "bytes"}}},
         gen=_gen_legacy)


# ---------------------------------------------------------------------------- C11: fee arithmetic for every shape
class _FeeSetup:
    def __call__(self, m, env):
        from buidl import tx as _tx
        from verif.pyvc.values import HObj
        ins = m.make_sym("tx_ins", symlist.symlist("buidl.tx.TxIn", max_len=2**32, fields={"_value": ("int", 0, 21 * 10**14)}))
        outs = m.make_sym("tx_outs", symlist.symlist("buidl.tx.TxOut", max_len=2**32, fields={"amount": ("int", 0, 21 * 10**14)}))
        env["self"] = m.p.alloc(HObj(_tx.Tx, {"version": 2, "tx_ins": ins, "tx_outs": outs, "segwit": True, "network": "mainnet"}))

    def conc(self, env, glob):
        pass


def _gen_fee(rng, tier):
    for n_in, n_out in ((0, 0), (1, 0), (1, 1), (2, 3), (7, 5), (40, 60)):
        ins = [{"__class__": "buidl.tx.TxIn", "fields": {"prev_tx": rand_bytes(rng, 32), "prev_index": 0, "_value": rng.randrange(21 * 10**14),
                                                         "_script_pubkey": None}} for _ in range(n_in)]
        outs = [{"__class__": "buidl.tx.TxOut", "fields": {"amount": rng.randrange(21 * 10**14)}} for _ in range(n_out)]
        yield {"self": {"__class__": "buidl.tx.Tx", "fields": {"version": 2, "tx_ins": ins, "tx_outs": outs, "segwit": True, "network": "mainnet"}}}


contract("buidl.tx.Tx.fee#anylen", props=("C11",), setup=_FeeSetup(), args=["self"],
         ensures=["returns()", "result == spec.listser.sum_values(self.tx_ins, len(self.tx_ins)) - spec.listser.sum_amounts(self.tx_outs, len(self.tx_outs))"],
         invariants={1: {"inv": ["input_sum == spec.listser.sum_values(self.tx_ins, _k)"], "types": {"input_sum": "int"}},
                     2: {"inv": ["output_sum == spec.listser.sum_amounts(self.tx_outs, _k)"], "types": {"output_sum": "int"}}},
         gen=_gen_fee)


# ---------------------------------------------------------------------------- C04: Tx.parse_legacy / parse_segwit for every shape
# Elements are abstract: TxIn.parse / TxOut.parse / Witness.parse on a stream that starts with the abstract serialisation of an
# element return that element and consume exactly those bytes (ASSUMED here: the element codecs are inverse and self-delimiting;
# that is what the element-level round-trip contracts of txcodec.py prove for concrete element shapes).  What is proved is the
# structure: counts, order, nothing skipped or read twice, segwit marker, witness section, locktime, rest of the stream untouched.
def _elem_parser(tag, pick):
    def h(m, args, kwargs):
        from verif.pyvc.values import OB, HStream, Ref
        s = args[-1] if not kwargs else kwargs.get("s", args[-1])
        o = m.p.deref(s) if isinstance(s, Ref) else None
        if not isinstance(o, HStream) or not o.rem or not isinstance(o.rem[0], OB):
            return NotImplemented
        t = o.rem[0].t
        import z3
        if not (z3.is_app(t) and t.decl().name() == "atom_ser_" + tag):
            return NotImplemented
        el = pick(m, t.arg(0))
        if el is None:
            return NotImplemented
        o.consumed.append(o.rem.pop(0))
        return el
    return h


class _TxParseSetup:
    def __init__(self, segwit):
        self.segwit = segwit

    def __call__(self, m, env):
        import z3
        from buidl import tx as _tx, witness as _w
        from verif.pyvc.values import HStream, as_chunks
        from verif.pyvc.interp import Frame
        symlist.install(m, {_tx.TxIn.serialize: "txin", _tx.TxOut.serialize: "txout", _w.Witness.serialize: "witness"})
        env["ins"] = m.make_sym("ins", symlist.symlist("buidl.tx.TxIn", {"witness": "buidl.witness.Witness"}, max_len=2**32))
        env["outs"] = m.make_sym("outs", symlist.symlist("buidl.tx.TxOut", max_len=2**32))
        lists = {"txin": m.p.deref(env["ins"]).pre, "txout": m.p.deref(env["outs"]).pre}

        def pick_elem(tag):
            def pick(mm, atom):                   # atom == list_elem(L, idx) of the matching list
                L, n, elem = lists[tag]
                if z3.is_app(atom) and atom.decl().name() == "list_elem" and atom.arg(0).eq(L):
                    return elem(atom.arg(1))
                return None
            return pick

        def pick_wit(mm, atom):                   # atom == atom_field_witness(list_elem(L_ins, idx))
            L, n, elem = lists["txin"]
            if z3.is_app(atom) and atom.decl().name() == "atom_field_witness":
                inner = atom.arg(0)
                if z3.is_app(inner) and inner.decl().name() == "list_elem" and inner.arg(0).eq(L):
                    return mm.getattr(elem(inner.arg(1)), "witness")
            return None
        m.intrinsics[_tx.TxIn.parse.__func__] = _elem_parser("txin", pick_elem("txin"))
        m.intrinsics[_tx.TxOut.parse.__func__] = _elem_parser("txout", pick_elem("txout"))
        m.intrinsics[_w.Witness.parse.__func__] = _elem_parser("witness", pick_wit)
        fr = Frame(dict(env, spec=REG.spec_module), REG.spec_globals)
        f = "tx_segwit_any" if self.segwit else "tx_legacy_any"
        v = m.eval_spec("spec.listser.%s(version, ins, outs, spec.le(locktime, 4)) + tail" % f, fr)
        env["s"] = m.p.alloc(HStream(as_chunks(v)))

    def conc(self, env, glob):
        pass


_REST_L = "spec.listser.tx_legacy_from_outs(outs, spec.le(locktime, 4)) + tail"
contract("buidl.tx.Tx.parse_legacy#anylen", props=("C04",), bcat_unit=True,
         ghost={"version": U32, "locktime": U32, "tail": "bytes"},
         params={"cls": ("const_cls", "buidl.tx.Tx")},
         setup=_TxParseSetup(False), args=["cls", "s"],
         ensures=["returns()", "result.version == version", "result.tx_ins == ins", "result.tx_outs == outs",
                  "result.locktime == locktime", "result.segwit is False", "s.read() == tail"],
         invariants={1: {"inv": ["stream_is(s, spec.listser.concat_ser_from(ins, _k) + %s)" % _REST_L, "inputs == ins[:_k]"], "index": "_k"},
                     2: {"inv": ["stream_is(s, spec.listser.concat_ser_from(outs, _k) + spec.le(locktime, 4) + tail)",
                                 "outputs == outs[:_k]"], "index": "_k"}})

# BLIND SPOT of the segwit contract (stated in the evidence): an abstract input element and "the TxIn parsed from its bytes, later
# given its witness" are the same object in this model, so the assignment `tx_in.witness = Witness.parse(s)` is invisible: the
# contract proves that the witness section is consumed element by element in order (stream invariant of loop 3) but NOT that each
# parsed witness ends up on its input (a hand-made mutant that skips the assignment for input 257 still verifies).  That clause is
# decided by the explicit-shape contracts of txcodec.py (1-2 inputs) and the bounded companion (up to 300 inputs).
_REST_S1 = ("spec.compact_size(len(outs)) + spec.listser.concat_ser_from(outs, 0) + spec.listser.concat_wit_from(ins, 0) "
            "+ spec.le(locktime, 4) + tail")
contract("buidl.tx.Tx.parse_segwit#anylen", props=("C04",), bcat_unit=True,
         ghost={"version": U32, "locktime": U32, "tail": "bytes"},
         params={"cls": ("const_cls", "buidl.tx.Tx")},
         setup=_TxParseSetup(True), args=["cls", "s"],
         ensures=["returns()", "result.version == version", "result.tx_ins == ins", "result.tx_outs == outs",
                  "result.locktime == locktime", "result.segwit is True", "s.read() == tail"],
         invariants={1: {"inv": ["stream_is(s, spec.listser.concat_ser_from(ins, _k) + %s)" % _REST_S1, "inputs == ins[:_k]"], "index": "_k"},
                     2: {"inv": ["stream_is(s, spec.listser.concat_ser_from(outs, _k) + spec.listser.concat_wit_from(ins, 0) "
                                 "+ spec.le(locktime, 4) + tail)", "outputs == outs[:_k]"], "index": "_k"},
                     3: {"inv": ["stream_is(s, spec.listser.concat_wit_from(ins, _k) + spec.le(locktime, 4) + tail)"], "index": "_k"}})

# the dispatcher: byte 5 decides (BIP144 marker 0x00), then the stream is rewound
for _sw in (False, True):
    contract("buidl.tx.Tx.parse#anylen-%s" % ("segwit" if _sw else "legacy"), props=("C04",), bcat_unit=True,
             ghost={"version": U32, "locktime": U32, "tail": "bytes"},
             params={"cls": ("const_cls", "buidl.tx.Tx")},
             requires=[] if _sw else ["len(ins) != 0"],      # a legacy serialisation with zero inputs reads as the segwit marker (BIP144)
             setup=_TxParseSetup(_sw), args=["cls", "s"],
             ensures=["returns()", "result.version == version", "result.tx_ins == ins", "result.tx_outs == outs",
                      "result.locktime == locktime", "result.segwit is %s" % _sw, "s.read() == tail"])
