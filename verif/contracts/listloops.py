"""C04: transaction serialisers for EVERY number of inputs and outputs (loop invariants over lists of
symbolic length with abstract elements; the element serialisers have their own contracts in txcodec.py)"""
from .common import *  # noqa
from verif.pyvc import symlist

U32 = ("int", 0, 2**32 - 1)


class _AtomSetup:
    """Tx object with symbolic version/locktime and input/output lists of arbitrary length"""

    def __call__(self, m, env):
        from buidl import tx as _tx, witness as _w
        from verif.pyvc.values import HObj, TInt
        from buidl.timelock import Locktime
        symlist.install(m, {_tx.TxIn.serialize: "txin", _tx.TxOut.serialize: "txout", _w.Witness.serialize: "witness"})
        ins = m.make_sym("tx_ins", symlist.symlist("buidl.tx.TxIn", {"witness": "buidl.witness.Witness"}, max_len=2**32))
        outs = m.make_sym("tx_outs", symlist.symlist("buidl.tx.TxOut", max_len=2**32))
        lt = m.make_sym("locktime", U32)
        env["self"] = m.p.alloc(HObj(_tx.Tx, {"version": m.make_sym("version", U32), "tx_ins": ins, "tx_outs": outs,
                                              "locktime": TInt(Locktime, lt), "segwit": True, "network": "mainnet"}))

    def conc(self, env, glob):
        pass


def _gen_tx(rng, tier):
    from verif.contracts import txcodec  # noqa: reuse nothing, build plain objects
    for n_in in (0, 1, 2, 3, 252, 253, 254):
        for n_out in (0, 1, 2, 253):
            ins = [{"__class__": "buidl.tx.TxIn", "fields": {"prev_tx": rand_bytes(rng, 32), "prev_index": rng.randrange(4),
                    "script_sig": {"__class__": "buidl.script.Script", "fields": {"commands": [], "raw": None}},
                    "sequence": {"__tint__": "buidl.timelock.Sequence", "value": 0xffffffff},
                    "witness": {"__class__": "buidl.witness.Witness", "fields": {"items": [rand_bytes(rng, 3)]}}}} for _ in range(n_in)]
            outs = [{"__class__": "buidl.tx.TxOut", "fields": {"amount": rng.randrange(10**8),
                     "script_pubkey": {"__class__": "buidl.script.Script", "fields": {"commands": [0x51], "raw": None}}}} for _ in range(n_out)]
            yield {"self": {"__class__": "buidl.tx.Tx", "fields": {"version": 2, "tx_ins": ins, "tx_outs": outs,
                            "locktime": {"__tint__": "buidl.timelock.Locktime", "value": 7}, "segwit": True, "network": "mainnet"}}}


_HEAD = "spec.le(self.version, 4) + spec.compact_size(len(self.tx_ins))"
contract("buidl.tx.Tx.serialize_legacy#anylen", props=("C04",), setup=_AtomSetup(), args=["self"],
         ensures=["returns()", "result == spec.listser.tx_legacy(self.version, self.tx_ins, self.tx_outs, self.locktime.serialize())"],
         invariants={1: {"inv": ["result == %s + spec.listser.concat_ser(self.tx_ins, _k)" % _HEAD], "types": {"result": "bytes"}},
                     2: {"inv": ["result == %s + spec.listser.concat_ser(self.tx_ins, len(self.tx_ins)) + "
                                 "spec.compact_size(len(self.tx_outs)) + spec.listser.concat_ser(self.tx_outs, _k)" % _HEAD],
                         "types": {"result": "bytes"}}},
         gen=_gen_tx)

contract("buidl.tx.Tx.serialize_witness#anylen", props=("C04",), setup=_AtomSetup(), args=["self"],
         ensures=["returns()", "result == spec.listser.concat_wit(self.tx_ins, len(self.tx_ins))"],
         invariants={1: {"inv": ["result == spec.listser.concat_wit(self.tx_ins, _k)"], "types": {"result": "bytes"}}},
         gen=_gen_tx)

_HEAD_SW = "spec.le(self.version, 4) + b'\\x00\\x01' + spec.compact_size(len(self.tx_ins))"
contract("buidl.tx.Tx.serialize_segwit#anylen", props=("C04",), setup=_AtomSetup(), args=["self"],
         ensures=["returns()", "result == spec.listser.tx_segwit(self.version, self.tx_ins, self.tx_outs, self.locktime.serialize())"],
         invariants={1: {"inv": ["result == %s + spec.listser.concat_ser(self.tx_ins, _k)" % _HEAD_SW], "types": {"result": "bytes"}},
                     2: {"inv": ["result == %s + spec.listser.concat_ser(self.tx_ins, len(self.tx_ins)) + "
                                 "spec.compact_size(len(self.tx_outs)) + spec.listser.concat_ser(self.tx_outs, _k)" % _HEAD_SW],
                         "types": {"result": "bytes"}}},
         gen=_gen_tx)

# txid: byte-reversed double SHA-256 of the witness-stripped serialisation, for every transaction shape;
# no witness symbol occurs in the term, so the id is invariant under witness changes
contract("buidl.tx.Tx.hash#anylen", props=("C04",), setup=_AtomSetup(), args=["self"],
         ensures=["returns()",
                  "result == spec.hash256(spec.listser.tx_legacy(self.version, self.tx_ins, self.tx_outs, self.locktime.serialize()))[::-1]"],
         gen=_gen_tx)
