"""C18: SipHash-2-4, MurmurHash3, BIP158 Golomb-coded sets, BIP157 filter headers, BIP37 bloom filters
(buidl/siphash.py, buidl/compactfilter.py, buidl/bloomfilter.py, buidl/helper.py murmur3)."""
from .common import *  # noqa

P = ("C18",)
U64 = ("int", 0, 2**64 - 1)
U32 = ("int", 0, 2**32 - 1)
M64 = "0xFFFFFFFFFFFFFFFF"
H32 = "bytes:32"


# ---------------------------------------------------------------------------- SipHash-2-4
def _tup4(m, name):
    return tuple(m.make_sym("%s%d" % (name, i), U64) for i in range(4))


def _gen_dsr(rng, tier):
    edge = [0, 1, 2**63, 2**64 - 1, 0x8000000000000000, 0x7FFFFFFFFFFFFFFF, 0xFFFFFFFF, 0x100000000]
    for a in edge:
        for m in edge[:4]:
            yield {"v": (a, edge[(edge.index(a) + 1) % 8], a ^ 0xFF, 2**64 - 1 - a), "m": m}
    while True:
        yield {"v": tuple(rng.getrandbits(64) for _ in range(4)), "m": rng.getrandbits(64)}


# one absorption step = XOR the word into v3, two SipRounds, XOR into v0.  64-bit bit-vector mode; the
# tuple is compared element by element.  Used by contract at the call sites in SipHash_2_4.
_dsr = contract("buidl.siphash._doublesipround", props=P, bv=64, params={"v": _tup4, "m": U64}, by_contract=True,
                requires=["v[%d] <= %s" % (i, M64) for i in range(4)] + ["m <= " + M64],
                ensures=(["returns()", "len(result) == 4"]
                         + ["result[%d] == spec.filters.sip_compress(v[0], v[1], v[2], v[3], m)[%d]" % (i, i) for i in range(4)]
                         + ["result[%d] <= %s" % (i, M64) for i in range(4)]),
                gen=_gen_dsr)
_dsr.returns_expr = "spec.filters.sip_compress(v[0], v[1], v[2], v[3], m)"

_SIP_LENS = [0, 1, 2, 3, 4, 5, 6, 7, 8, 9, 15, 16, 17, 23, 24, 25]


def _gen_sip(n):
    def gen(rng, tier):
        yield {"key": bytes(range(16)), "data": bytes(range(n))}         # reference vectors of the paper
        yield {"key": bytes(16), "data": bytes(n)}
        yield {"key": b"\xff" * 16, "data": b"\xff" * n}
        for _ in range(60):
            yield {"key": rand_bytes(rng, 16), "data": rand_bytes(rng, n)}
    return gen


# whole hash for fixed message lengths (every tail length 0..7, one and two and three full words)
for _n in _SIP_LENS:
    contract("verif.harness.filters.siphash#len%d" % _n, props=P, bv=64,
             params={"key": "bytes:16", "data": "bytes:%d" % _n},
             ensures=["returns()", "result == spec.filters.siphash24(key, data)"],
             gen=_gen_sip(_n))


def _gen_sip_any(rng, tier):
    for n in range(0, 71):
        yield {"key": bytes(range(16)), "data": bytes(range(n))}
    for n in range(0, 71):
        for _ in range(3):
            yield {"key": rand_bytes(rng, 16), "data": rand_bytes(rng, n)}
    while True:
        yield {"key": rand_bytes(rng, 16), "data": rand_bytes(rng, rng.randrange(0, 700))}


# every length: concrete (the block loop needs the Struct model and a loop invariant)
contract("verif.harness.filters.siphash", props=P, params={"key": "bytes:16", "data": "bytes"},
         ensures=["returns()", "result == spec.filters.siphash24(key, data)", "0 <= result < 2**64"],
         tiers=(), gen=_gen_sip_any)
contract("verif.harness.filters.siphash_digest", props=P, params={"key": "bytes:16", "data": "bytes"},
         ensures=["returns()", "result == spec.filters.siphash24_digest(key, data)"],
         tiers=(), gen=_gen_sip_any)


def _gen_sip_split(rng, tier):
    for n in range(0, 40):
        for cut in range(0, n + 1, 3):
            d = rand_bytes(rng, n)
            yield {"key": rand_bytes(rng, 16), "a": d[:cut], "b": d[cut:]}


# the incremental interface: hashing a || b in two updates equals hashing it at once
contract("verif.harness.filters.siphash_split", props=P, params={"key": "bytes:16", "a": "bytes", "b": "bytes"},
         ensures=["returns()", "result == spec.filters.siphash24(key, a + b)"],
         tiers=(), gen=_gen_sip_split)

contract("buidl.compactfilter._siphash", props=P, params={"key": "bytes", "value": "bytes"},
         raises={"ValueError": "len(key) != 16"},
         ensures=["implies(returns(), result == spec.filters.siphash24(key, value))"],
         tiers=(), gen=lambda rng, tier: ({"key": rand_bytes(rng, [16, 16, 16, 15, 17, 0][k % 6]), "value": rand_bytes(rng, k % 70)} for k in range(400)))


# ---------------------------------------------------------------------------- MurmurHash3_x86_32
def _gen_mm(n):
    def gen(rng, tier):
        for seed in (0, 1, 0xFBA4C795, 0xFFFFFFFF, 0x100000000, 0x1FBA4C795, 50 * 0xFBA4C795 + 0xFFFFFFFF):
            yield {"data": bytes(range(n)), "seed": seed}
            yield {"data": b"\xff" * n, "seed": seed}
        for _ in range(60):
            yield {"data": rand_bytes(rng, n), "seed": rng.getrandbits(rng.choice([32, 32, 38]))}
    return gen


# fixed lengths 0..12 (every tail shape with 0, 1, 2 and 3 blocks), any seed below 2**38 -- BloomFilter.add
# passes i * 0xFBA4C795 + tweak unreduced, i < 50 -- in 64-bit bit-vector mode
for _n in range(0, 13):
    contract("buidl.helper.murmur3#len%d" % _n, props=P, bv=32, bv_bytes_direct=True,
             params={"data": "bytes:%d" % _n, "seed": ("int", 0, 2**38 - 1)},
             ensures=["returns()", "result == spec.filters.murmur3_32(data, seed)", "result <= 0xFFFFFFFF"],
             gen=_gen_mm(_n))


def _gen_mm_any(rng, tier):
    for n in range(0, 71):
        for seed in (0, 0xFBA4C795, 0xFFFFFFFF, 2**32, 2**32 + 5, 49 * 0xFBA4C795 + 0xFFFFFFFF):
            yield {"data": rand_bytes(rng, n), "seed": seed}
    while True:
        yield {"data": rand_bytes(rng, rng.randrange(0, 700)), "seed": rng.getrandbits(rng.choice([32, 33, 38, 64]))}


# every length below 2**24 and every seed below 2**64 (BloomFilter.add passes i * 0xFBA4C795 + tweak unreduced): 32-bit
# bit-vector mode with exactness tracking (the accumulator h1 is only ever known modulo 2**32 inside the loop), the block
# loop cut by an invariant over the recursive spec function murmur3_blocks
contract("buidl.helper.murmur3#anylen", props=P, bv=32, bv_bytes_direct=True,
         params={"data": ("bytes", 0, 2**24 - 1), "seed": ("int", 0, 2**64 - 1)},
         ensures=["returns()", "result == spec.filters.murmur3_32_r(data, seed)", "result <= 0xFFFFFFFF"],
         invariants={1: {"inv": ["(h1 & 0xFFFFFFFF) == spec.filters.murmur3_blocks(data, seed & 0xFFFFFFFF, _k)"],
                         "types": {"h1": ("int", 0, 2**4096 - 1), "k1": ("int", 0, 2**4096 - 1)}}},
         tiers=("runtime-only",),   # symbolic run: establish/preserve discharge, the post-loop obligations exceed the solver budget
         gen=_gen_mm_any)

contract("buidl.helper.murmur3", props=P, params={"data": "bytes", "seed": ("int", 0, 2**64 - 1)},
         ensures=["returns()", "result == spec.filters.murmur3_32(data, seed)", "0 <= result < 2**32"],
         tiers=(), gen=_gen_mm_any)


# ---------------------------------------------------------------------------- BIP158 pieces
def _gen_h2r(rng, tier):
    for n in (0, 1, 2, 3, 1000, 2000, 10**6):
        for k in range(6):
            yield {"key": rand_bytes(rng, 16), "value": rand_bytes(rng, k * 7), "f": n * 784931}
    while True:
        yield {"key": rand_bytes(rng, 16), "value": rand_bytes(rng, rng.randrange(0, 600)), "f": rng.randrange(0, 2001) * 784931}


contract("buidl.compactfilter.hash_to_range", props=P, params={"key": "bytes:16", "value": "bytes", "f": ("int", 0, 2**64 - 1)},
         ensures=["returns()", "result == spec.filters.hash_to_range(key, value, f)",
                  "result == (spec.filters.siphash24(key, value) * f) >> 64",
                  "implies(f > 0, 0 <= result < f)", "implies(f == 0, result == 0)"],
         tiers=(), gen=_gen_h2r)

# the arithmetic of hash_to_range given the hash value: `h * f >> 64` is (h * f) >> 64 (Python precedence) and
# lands in [0, f)
contract("verif.harness.filters.range_of_hash", props=P, params={"h": U64, "f": ("int", 0, 2**64 - 1)},
         ensures=["returns()", "result == (h * f) // 2**64", "implies(f > 0, 0 <= result < f)"],
         gen=lambda rng, tier: ({"h": rng.getrandbits(64), "f": rng.getrandbits(rng.choice([1, 20, 31, 64]))} for _ in range(300)))

contract("verif.harness.filters.golomb_m", props=P, params={},
         ensures=["returns()", "result == (784931, 19)"], gen=lambda rng, tier: iter([{}]))


def _gen_golomb(rng, tier):
    p = 19
    for x in (0, 1, 2**p - 1, 2**p, 2**p + 1, 2 * 2**p - 1, 2 * 2**p, 5 * 2**p + 3, 8 * 2**p - 1, 8 * 2**p, 40 * 2**p - 1,
              2**26 - 1, 2**26 - 2**19, 2**25 + 12345):
        yield {"x": x, "p": p}
    while True:
        yield {"x": rng.getrandbits(rng.choice([5, 19, 20, 22, 24, 26])), "p": 19}


# Golomb-Rice with P = 19: quotient < 8 symbolically (x < 2**22: the unary part is at most 7 ones; larger
# quotients are the same loop unrolled further and run concretely up to 2**26)
contract("buidl.compactfilter.encode_golomb", props=P, params={"x": ("int", 0, 2**22 - 1), "p": ("const", 19)},
         ensures=["returns()", "len(result) == (x >> 19) + 1 + 19",
                  "spec.filters.truthy01(result) == spec.filters.golomb_bits(x, 19)"],
         gen=_gen_golomb)
contract("buidl.compactfilter.encode_golomb#p2", props=P, params={"x": ("int", 0, 63), "p": ("const", 2)},
         ensures=["returns()", "spec.filters.truthy01(result) == spec.filters.golomb_bits(x, 2)"],
         gen=lambda rng, tier: ({"x": x, "p": 2} for x in range(64)))
contract("verif.harness.filters.golomb_round_trip", props=P, params={"x": ("int", 0, 2**22 - 1), "p": ("const", 19)},
         ensures=["returns()", "result[0] == x",
                  "result[2] == [1, 0, 1]",               # exactly the code word is consumed
                  "result[1] == (x >> 19) + 20"],
         gen=_gen_golomb)
contract("verif.harness.filters.golomb_unpacked", props=P, params={"x": ("int", 0, 2**22 - 1), "p": ("const", 19)},
         ensures=["returns()", "result == x"], gen=_gen_golomb)
contract("verif.harness.filters.golomb_packed", props=P, params={"x": ("int", 0, 2**22 - 1), "p": ("const", 19)},
         ensures=["returns()", "result == spec.filters.bits_to_bytes_msb(spec.filters.golomb_bits(x, 19))"],
         gen=_gen_golomb)

_B8 = ["b%d" % i for i in range(8)]
contract("buidl.compactfilter.unpack_bits", props=P, params={"byte_string": ("bytes", 0, 1)},
         ensures=["returns()", "len(result) == 8 * len(byte_string)", "result == spec.filters.bytes_to_bits_msb(byte_string)"],
         gen=lambda rng, tier: ({"byte_string": rand_bytes(rng, k % 12)} for k in range(300)))
contract("verif.harness.filters.pack_unpack", props=P, params={"data": ("bytes", 0, 1)},
         ensures=["returns()", "result == data"],
         gen=lambda rng, tier: ({"data": rand_bytes(rng, k % 40)} for k in range(300)))
contract("verif.harness.filters.unpack_pack8", props=P, params={b: ("int", 0, 1) for b in _B8},
         ensures=["returns()", "result == [%s]" % ", ".join(_B8)],
         gen=lambda rng, tier: ({b: rng.randrange(2) for b in _B8} for _ in range(256)))
contract("verif.harness.filters.pack_bits5", props=P, params={b: ("int", 0, 1) for b in _B8[:5]},
         ensures=["returns()", "result == spec.filters.bits_to_bytes_msb([%s])" % ", ".join(_B8[:5]),
                  "result[0] == " + " + ".join("%s * %d" % (b, 0x80 >> i) for i, b in enumerate(_B8[:5]))],
         gen=lambda rng, tier: ({b: rng.randrange(2) for b in _B8[:5]} for _ in range(64)))


def _gen_gcs3(rng, tier):
    for _ in range(200):
        vs = sorted(rng.randrange(0, 3 * 784931) for _ in range(3))
        if rng.random() < 0.2:
            vs[1] = vs[0]
        yield {"a": vs[0], "b": vs[1], "c": vs[2]}


contract("verif.harness.filters.serialize_gcs3", props=P,
         params={"a": ("int", 0, 2**21 - 1), "b": ("int", 0, 2**21 - 1), "c": ("int", 0, 2**21 - 1)},
         requires=["a <= b <= c"],
         ensures=["returns()", "result == spec.filters.gcs_encode_values([a, b, c])"],
         gen=_gen_gcs3)


# ---------------------------------------------------------------------------- whole filters (lists: concrete only)
def _item(rng):
    k = rng.random()
    if k < 0.1:
        return rand_bytes(rng, rng.randrange(0, 4))
    if k < 0.6:
        return rand_bytes(rng, rng.choice([22, 23, 25, 34, 35]))
    return rand_bytes(rng, rng.randrange(0, 601))


def _distinct(rng, n):
    out, seen = [], set()
    while len(out) < n:
        it = _item(rng)
        if it not in seen:
            seen.add(it)
            out.append(it)
    return out


def _colliding_pair(rng, key, n_extra=0):
    """two distinct items (plus n_extra more) whose hash_to_range values collide for F = N * M (spec search)"""
    import verif.specs as s
    n = 2 + n_extra
    extra = [rand_bytes(rng, 25) for _ in range(n_extra)]
    seen = {}
    while True:
        it = rand_bytes(rng, 22)
        h = s.filters.hash_to_range(key, it, n * s.filters.GCS_M)
        if h in seen and seen[h] != it:
            return [seen[h], it] + extra
        seen[h] = it


def _gen_sets(rng, tier):
    """element SETS (distinct raw items): small sizes, pairs/triples that collide after hashing, then up to 2000"""
    for n in [0, 1, 2, 3, 4, 5]:
        yield {"key": rand_bytes(rng, 16), "items": _distinct(rng, n)}
    for extra in (0, 0, 1, 3):
        key = rand_bytes(rng, 16)
        yield {"key": key, "items": _colliding_pair(rng, key, extra)}
    for n in [10, 100, 252, 253, 254, 1000, 2000]:
        yield {"key": rand_bytes(rng, 16), "items": _distinct(rng, n)}
    while True:
        n = rng.choice([0, 1, 2, 2, 3, 5, 8, 20, 50, 300])
        yield {"key": rand_bytes(rng, 16), "items": _distinct(rng, n)}


contract("buidl.compactfilter.encode_gcs", props=P, params={},
         requires=["len(set(items)) == len(items)"],
         ensures=["returns()", "result == spec.filters.gcs_build(key, items)"],
         tiers=(), gen=_gen_sets)
contract("buidl.compactfilter.hashed_items", props=P, params={},
         ensures=["returns()", "result == spec.filters.gcs_hashed_set(key, items, len(items))"],
         tiers=(), gen=_gen_sets)
contract("verif.harness.filters.gcs_round_trip", props=P, params={},
         ensures=["returns()", "result[0] == spec.filters.gcs_decode(result[1])[1]",
                  "result[0] == spec.filters.gcs_hashed_set(key, items, len(items))",
                  "result[1] == spec.filters.gcs_build_list(key, items)"],
         tiers=(), gen=_gen_sets)


def _with_queries(gen):
    def g(rng, tier):
        for d in gen(rng, tier):
            d["queries"] = list(d["items"])
            yield d
    return g


# no false negatives: every inserted element is reported present
contract("verif.harness.filters.cf_members", props=P, params={},
         ensures=["returns()", "all(result)",
                  "result == spec.filters.gcs_match_all(key, spec.filters.gcs_build_list(key, items), queries)"],
         tiers=(), gen=_with_queries(_gen_sets))
contract("verif.harness.filters.cf_reserialize", props=P, params={},
         ensures=["returns()", "result[0] == result[1]"],
         tiers=(), gen=_gen_sets)


def _gen_cfh(rng, tier):
    for _ in range(100):
        yield {"filter_type": 0, "stop_hash": rand_bytes(rng, 32), "prev": rand_bytes(rng, 32),
               "h1": rand_bytes(rng, 32), "h2": rand_bytes(rng, 32), "h3": rand_bytes(rng, 32)}


contract("verif.harness.filters.cfheaders_last", props=P,
         params={"filter_type": ("int", 0, 255), "stop_hash": H32, "prev": H32, "h1": H32, "h2": H32, "h3": H32},
         ensures=["returns()", "result == spec.filters.filter_header_chain(prev, [h1, h2, h3])",
                  "result == spec.hash256(h3 + spec.hash256(h2 + spec.hash256(h1 + prev)))"],
         gen=_gen_cfh)
contract("verif.harness.filters.cfheaders_parse_last", props=P,
         ghost={"filter_type": ("int", 0, 255), "stop_hash": H32, "prev": H32, "h1": H32, "h2": H32, "tail": "bytes"},
         setup=StreamOf("spec.le(filter_type, 1) + stop_hash[::-1] + prev + b'\\x02' + h1 + h2 + tail"), args=["s"],
         ensures=["returns()", "result == spec.filters.filter_header_chain(prev, [h1, h2])", "s.read() == tail"],
         gen=lambda rng, tier: ({"filter_type": 0, "stop_hash": rand_bytes(rng, 32), "prev": rand_bytes(rng, 32),
                                 "h1": rand_bytes(rng, 32), "h2": rand_bytes(rng, 32), "tail": rand_bytes(rng, k % 3)} for k in range(60)))
def _gen_cfhash(rng, tier):
    for k in range(80):
        vals = [rng.randrange(0, 10**7) for _ in range(k % 9)]
        if k % 4 == 3 and vals:
            vals.append(vals[0])                 # two elements with the same hashed value: N counts both
        yield {"key": rand_bytes(rng, 16), "values": vals}


# filter hash = SHA256d of the serialised filter, whose N counts every element (BIP158: N is the number of
# items; two items may map to the same value)
contract("verif.harness.filters.cf_hash", props=P, params={},
         ensures=["returns()", "result == spec.filters.filter_hash(spec.filters.gcs_encode_values(sorted(values)))"],
         tiers=(), gen=_gen_cfhash)


# ---------------------------------------------------------------------------- BIP37 bloom filter
def _gen_bloom(rng, tier):
    for size, fc in ((1, 1), (1, 5), (2, 3), (3, 5), (3, 8), (10, 11), (36000, 50), (1, 50), (5, 1)):
        for tweak in (0, 1, 0x80000001, 0xFFFFFFFF):
            for n in (0, 1, 20, 33, 65):
                yield {"size": size, "function_count": fc, "tweak": tweak, "item": rand_bytes(rng, n)}
    while True:
        yield {"size": rng.choice([1, 2, 3, 8, 100, 36000]), "function_count": rng.randrange(1, 51), "tweak": rng.getrandbits(32),
               "item": rand_bytes(rng, rng.randrange(0, 80))}


# add sets exactly the spec positions (a fresh filter: nothing else set)
contract("verif.harness.filters.bloom_add", props=P,
         params={"size": ("int", 1, 36000), "function_count": ("int", 1, 50), "tweak": U32, "item": "bytes"},
         ensures=["returns()", "len(result) == 8 * size",
                  "spec.filters.set_bits(result) == spec.filters.bloom_position_set(item, function_count, tweak, size)",
                  "spec.filters.all_in(result, [0, 1])"],
         tiers=(), gen=_gen_bloom)

# small instance (1 byte, 2 hash functions, 3-byte item) meant for the bit-vector mode: the symbolic run does not
# finish (murmur3 equivalence for len >= 1 is already `unknown` at the solver timeout, here it sits under an
# 8-way fork per set bit) -> concrete only (tiers=())
contract("verif.harness.filters.bloom_add#small", props=P, bv=64, tiers=(),
         params={"size": ("const", 1), "function_count": ("const", 2), "tweak": U32, "item": "bytes:3"},
         ensures=["returns()", "len(result) == 8",
                  "result[spec.filters.murmur3_32(item, tweak) % 8] == 1",
                  "result[spec.filters.murmur3_32(item, (0xFBA4C795 + tweak) & 0xFFFFFFFF) % 8] == 1"],
         gen=lambda rng, tier: ({"size": 1, "function_count": 2, "tweak": rng.getrandbits(32), "item": rand_bytes(rng, 3)} for _ in range(100)))


def _gen_bloom_items(rng, tier):
    for size, fc in ((1, 1), (2, 3), (3, 5), (3, 8), (10, 11), (252, 7), (253, 7), (36000, 50)):
        for n in (0, 1, 2, 10):
            yield {"size": size, "function_count": fc, "tweak": rng.getrandbits(32), "items": [rand_bytes(rng, rng.randrange(0, 70)) for _ in range(n)]}
    while True:
        yield {"size": rng.choice([1, 3, 30, 300, 3000]), "function_count": rng.randrange(1, 51), "tweak": rng.getrandbits(32),
               "items": [rand_bytes(rng, rng.randrange(0, 70)) for _ in range(rng.randrange(0, 30))]}


contract("verif.harness.filters.bloom_add_items", props=P, params={},
         ensures=["returns()", "result[0] == spec.filters.bloom_bytes(items, size, function_count, tweak)",
                  "result[1] == spec.filters.filterload_payload(spec.filters.bloom_bytes(items, size, function_count, tweak), function_count, tweak, 1)",
                  "result[2] == b'filterload'",
                  "spec.filters.bloom_contains_all(result[0], items, function_count, tweak)"],
         tiers=(), gen=_gen_bloom_items)
contract("verif.harness.filters.bloom_add_keeps", props=P, params={},
         ensures=["returns()", "spec.filters.bits_monotone(result[0], result[1])"],
         tiers=(), gen=lambda rng, tier: ({"size": rng.choice([1, 2, 9]), "function_count": rng.randrange(1, 12), "tweak": rng.getrandbits(32),
                                           "first": rand_bytes(rng, 20), "second": rand_bytes(rng, 33)} for _ in range(200)))


# ---------------------------------------------------------------------------- SipHash finalisation from ANY absorbed state
# hash() on an object that has absorbed `b` bytes in full words (any b < 2^56, not only the short messages of the #len contracts)
# and holds a tail of l bytes: the last word carries (b + l) mod 256 in its top byte.  128-bit vectors so that an unreduced
# length (b + l) << 56 is representable and then fails the 64-bit precondition of the compression step.
def _gen_sip_state(l):
    def gen(rng, tier):
        for b in (0, 8, 248, 256, 264, 2**16, 2**32, 2**56 - 8):
            yield {"self": {"__class__": "buidl.siphash.SipHash_2_4",
                            "fields": {"v": tuple(rng.getrandbits(64) for _ in range(4)), "s": rand_bytes(rng, l), "b": b}}}
    return gen


for _l in range(8):
    contract("buidl.siphash.SipHash_2_4.hash#state-tail%d" % _l, props=P, bv=128,
             params={"self": obj("buidl.siphash.SipHash_2_4", v=_tup4, s="bytes:%d" % _l, b=("int", 0, 2**56))},
             ensures=["returns()",
                      "result == spec.filters.sip_finalize(*spec.filters.sip_compress(self.v[0], self.v[1], self.v[2], self.v[3], "
                      "spec.filters.sip_last_word(self.s, self.b + %d)))" % _l],
             gen=_gen_sip_state(_l))
