"""C17: Merkle roots, compact bits <-> target, proof of work, retargeting, header chains, BIP37 proofs
(buidl/helper.py, buidl/block.py, buidl/merkleblock.py, buidl/network.py HeadersMessage.is_valid).
Block.serialize / parse_header / hash contracts live in contracts/network.py (tagged C17 there)."""
from .common import *  # noqa

H32 = "bytes:32"
U32 = ("int", 0, 2**32 - 1)
P = ("C17",)


def _h(rng):
    return rand_bytes(rng, 32)


# ---------------------------------------------------------------------------- merkle
contract("buidl.helper.merkle_parent", props=P, params={"hash1": H32, "hash2": H32},
         ensures=["returns()", "result == spec.spv.merkle_pair(hash1, hash2)", "len(result) == 32"],
         gen=lambda rng, tier: ({"hash1": _h(rng), "hash2": _h(rng)} for _ in range(200)))

_NAMES = ["a", "b", "c", "d", "e"]


def _gen_hashes(n):
    def gen(rng, tier):
        for k in range(200):
            d = {nm: _h(rng) for nm in _NAMES[:n]}
            if k % 5 == 1 and n >= 2:            # equal neighbours (CVE-2012-2459 shapes)
                d[_NAMES[n - 1]] = d[_NAMES[n - 2]]
            if k % 7 == 2:
                d = {nm: d["a"] for nm in _NAMES[:n]}
            yield d
    return gen


for _n in range(1, 6):
    _args = ", ".join(_NAMES[:_n])
    contract("verif.harness.spv.merkle_root%d" % _n, props=P, params={nm: H32 for nm in _NAMES[:_n]},
             ensures=["returns()", "result == spec.spv.merkle_root%d(%s)" % (_n, _args),
                      "result == spec.spv.merkle_root([%s])" % _args],
             gen=_gen_hashes(_n))
    # merkle_parent_level: value = one consensus reduction step.  Frame: the real code appends a copy of
    # the last element to the CALLER's list when the level is odd.  The property is about values, and that
    # append does not change the consensus root of the list (root(xs) == root(xs + [xs[-1]]) for odd len),
    # so what the property implies is: the original ids stay in place as a prefix and the root is preserved.
    contract("verif.harness.spv.parent_level%d" % _n, props=P, params={nm: H32 for nm in _NAMES[:_n]},
             raises={"RuntimeError": "True"} if _n == 1 else {},
             ensures=(["implies(returns(), result[0] == spec.spv.merkle_level([%s]))" % _args,
                       "implies(returns(), len(result[0]) == (%d + 1) // 2)" % _n,
                       "implies(returns(), result[1][:%d] == [%s])" % (_n, _args),
                       "implies(returns(), result[1] == [%s] or result[1] == [%s] + [%s])" % (_args, _args, _NAMES[_n - 1]),
                       "implies(returns(), spec.spv.merkle_root(result[1]) == spec.spv.merkle_root([%s]))" % _args]),
             gen=_gen_hashes(_n))

contract("verif.harness.spv.merkle_root3_twice", props=P, params={nm: H32 for nm in "abc"},
         ensures=["returns()", "result[0] == spec.spv.merkle_root3(a, b, c)",
                  "result[1] == result[0]",                    # same list, same root (history independence)
                  "result[2][:3] == [a, b, c]",                # caller's ids still in place (a duplicate of c is appended)
                  "spec.spv.merkle_root(result[2]) == spec.spv.merkle_root([a, b, c])"],
         gen=_gen_hashes(3))

contract("verif.harness.spv.validate_merkle_root3", props=P,
         params={"header": obj("buidl.block.Block", merkle_root=H32), "a": H32, "b": H32, "c": H32},
         ensures=["returns()",
                  "result == (header.merkle_root == spec.spv.merkle_root3(a[::-1], b[::-1], c[::-1])[::-1])"],
         gen=lambda rng, tier: _gen_vmr3(rng))


def _gen_vmr3(rng):
    for k in range(100):
        a, b, c = _h(rng), _h(rng), _h(rng)
        root = spec_root3(a, b, c) if k % 2 == 0 else _h(rng)
        yield {"header": {"__class__": "buidl.block.Block", "fields": {"merkle_root": root}}, "a": a, "b": b, "c": c}


def spec_root3(a, b, c):
    import verif.specs as s
    return s.spv.merkle_root3(a[::-1], b[::-1], c[::-1])[::-1]


# ---------------------------------------------------------------------------- compact bits / target
_EXPS = list(range(0, 36)) + [0x7f, 0x80, 0xff]
_MANTS = [0, 1, 0xff, 0x100, 0xffff, 0x10000, 0x7fffff, 0x800000, 0x800001, 0xffffff, 0x00ffff, 0x123456, 0x008000, 0x7fff00]


def _gen_bits(rng, tier):
    for e in _EXPS:
        for mnt in _MANTS:
            yield {"bits": mnt.to_bytes(3, "little") + bytes([e])}
    while True:
        yield {"bits": rand_bytes(rng, 3) + bytes([rng.randrange(0, 40)])}


class ValueOf:
    """input `name` is the value of the contract-language expression `expr` over ghosts/params"""

    def __init__(self, expr, name):
        self.expr, self.name = expr, name

    def __call__(self, m, env):
        fr = Frame(dict(env, spec=REG.spec_module), REG.spec_globals)
        env[self.name] = m.eval_spec(self.expr, fr)

    def conc(self, env, glob):
        code, _ = rt.compile_clause(self.expr)
        env[self.name] = eval(code, glob, env)


def _gen_bits_exp(rng, tier):
    for e in _EXPS:
        for mnt in _MANTS:
            yield {"mantissa3": mnt.to_bytes(3, "little"), "exponent": e}
    while True:
        yield {"mantissa3": rand_bytes(rng, 3), "exponent": rng.randrange(0, 40)}


# Core: SetCompact.  Sign bit set (mantissa >= 0x800000) means a negative number there; the contract is
# stated for non-negative, non-overflowing compact values (every nBits a valid header can carry).
# bits = mantissa(3 bytes LE) || exponent; the exponent byte is forked over its values 0..35 (36..255
# overflow for every non-zero mantissa; covered concretely)
_COMPACT = "spec.int_le(mantissa3) + exponent * 2**24"
contract("buidl.helper.bits_to_target", props=P,
         ghost={"mantissa3": "bytes:3", "exponent": ("choice", list(range(0, 36)))},
         setup=ValueOf("mantissa3 + bytes([exponent])", "bits"), args=["bits"],
         requires=["not spec.spv.compact_negative(%s)" % _COMPACT,
                   "not spec.spv.compact_overflow(%s)" % _COMPACT],
         ensures=["returns()",
                  "isinstance(result, int)",
                  "result == spec.spv.compact_to_target(%s)" % _COMPACT],
         gen=_gen_bits_exp)

# the same function with all four bytes symbolic: concrete (bounded companion) only -- symbolically the
# engine forks 4094 ways on `256 ** (bits[-1] - 3)` (240 s) and its counter-models do not replay
contract("buidl.helper.bits_to_target#bytes4", props=P, params={"bits": "bytes:4"},
         requires=["not spec.spv.compact_negative(spec.int_le(bits))",
                   "not spec.spv.compact_overflow(spec.int_le(bits))"],
         ensures=["returns()", "isinstance(result, int)",
                  "result == spec.spv.compact_to_target(spec.int_le(bits))"],
         tiers=(), gen=_gen_bits)


def _gen_targets(rng, tier):
    for k in range(0, 257):
        for t in (2**k - 1, 2**k, 2**k + 1, 0x7fffff << max(0, k - 23), 0x800000 << max(0, k - 23), 0xffff << max(0, k - 16)):
            if 0 <= t < 2**256:
                yield {"target": t}
    while True:
        k = rng.randrange(1, 257)
        yield {"target": rng.getrandbits(k)}


# one contract per number of significant bytes of the target (33 classes partition [0, 2**256)): neither the
# lstrip loop of the code nor the digit-count loop of the spec has to be decided symbolically, and the
# classes run in parallel.  Classes 3..13 need more than the quick-tier solver budget: thorough only.
def _gen_targets_class(nb):
    def gen(rng, tier):
        if nb == 0:
            yield {"target": 0}
            return
        lo, hi = 256 ** (nb - 1), 256 ** nb
        for t in (lo, lo + 1, hi - 1, hi // 2 - 1, hi // 2, hi // 2 + 1, (0x7fffff << 8 * nb) >> 24, (0x800000 << 8 * nb) >> 24,
                  (0xffff << 8 * nb) >> 16, (0x7f << 8 * nb) >> 8, (0x80 << 8 * nb) >> 8):
            if lo <= t < hi:
                yield {"target": t}
        for _ in range(40):
            yield {"target": rng.randrange(lo, hi)}
    return gen


for _nb in range(0, 33):
    contract("buidl.helper.target_to_bits#n%d" % _nb, props=P, params={"target": ("int", 0, 2**256 - 1)},
             requires=["target == 0" if _nb == 0 else "256 ** %d <= target < 256 ** %d" % (_nb - 1, _nb)],
             ensures=["returns()", "len(result) == 4",
                      "result == spec.spv.target_to_compact_bytes(target)",
                      # decoding the produced bits gives the target truncated to its leading bytes, exactly as
                      # SetCompact(GetCompact(t))
                      "spec.spv.compact_to_target(spec.int_le(result)) == spec.spv.compact_to_target(spec.spv.target_to_compact(target))"],
             tiers=("thorough",) if 3 <= _nb <= 13 else ("quick", "thorough"),
             gen=_gen_targets_class(_nb))

# all classes at once: concrete (bounded companion) only -- the symbolic work is done by the 33 contracts above
contract("buidl.helper.target_to_bits", props=P, params={"target": ("int", 0, 2**256 - 1)},
         ensures=["returns()", "len(result) == 4", "result == spec.spv.target_to_compact_bytes(target)"],
         tiers=(), gen=_gen_targets)

_TW = 14 * 24 * 3600


def _gen_retarget(rng, tier):
    prevs = [0x1d00ffff, 0x1c05a3f4, 0x1c387f6f, 0x1b0404cb, 0x1a05db8b, 0x170b3ce9, 0x1d00d86a, 0x1c7fff80, 0x1c008000,
             0x1d008000, 0x03000001, 0x03000004, 0x0300ffff, 0x04000100, 0x02000100, 0x01000100, 0x01010000, 0x1d00fffe]
    spans = [0, 1, _TW // 4 - 1, _TW // 4, _TW // 4 + 1, _TW - 1, _TW, _TW + 1, 4 * _TW - 1, 4 * _TW, 4 * _TW + 1, 2**31 - 1, -1, -_TW]
    for p in prevs:
        for s in spans:
            yield {"previous_bits": p.to_bytes(4, "little"), "time_differential": s}
    while True:
        e = rng.randrange(3, 0x1e)
        mnt = rng.randrange(1, 0x800000) if e < 0x1d else rng.randrange(1, 0x10000)
        yield {"previous_bits": mnt.to_bytes(3, "little") + bytes([e]),
               "time_differential": rng.choice([rng.randrange(0, 6 * _TW), rng.randrange(_TW // 4 - 3, _TW // 4 + 3), rng.randrange(4 * _TW - 3, 4 * _TW + 3)])}


def _with_parts(gen):
    def g(rng, tier):
        for d in gen(rng, tier):
            pb = d.pop("previous_bits")
            d["mantissa3"], d["exponent"] = pb[:3], pb[3]
            yield d
    return g


# retarget (pow.cpp CalculateNextWorkRequired) with the mainnet/testnet limit, the only one helper.MAX_TARGET
# knows.  previous_bits = mantissa3 || exponent, exponent forked over 1..0x1d.
# (a) every valid previous nBits (0 < target <= powLimit): concrete only -- the small-target classes of
#     target_to_bits, which this composes with, cost minutes each (see target_to_bits#n*)
contract("buidl.helper.calculate_new_bits", props=P,
         ghost={"mantissa3": "bytes:3", "exponent": ("choice", list(range(0, 0x1e)))}, params={"time_differential": "int"},
         setup=ValueOf("mantissa3 + bytes([exponent])", "previous_bits"), args=["previous_bits", "time_differential"],
         requires=["not spec.spv.compact_negative(%s)" % _COMPACT,
                   "0 < spec.spv.compact_to_target(%s) <= spec.spv.POW_LIMIT_MAINNET" % _COMPACT],
         ensures=["returns()",
                  "result == spec.spv.retarget_bytes(previous_bits, time_differential, spec.spv.POW_LIMIT_MAINNET)"],
         tiers=(), gen=_with_parts(_gen_retarget))

# (b) the range in which difficulty lives: exponent >= 4 and a normalised mantissa (>= 0x008000, what GetCompact
#     produces), so every intermediate target is >= 2**21 -- separates the retarget formula and its clamps from
#     the small-target encoding defect of target_to_bits.  Symbolic, one contract per exponent (about a
#     minute of solver time each; three of them (0x1b..0x1d) in the quick tier).
def _gen_retarget_exp(e):
    def gen(rng, tier):
        spans = [0, 1, _TW // 4 - 1, _TW // 4, _TW // 4 + 1, _TW - 1, _TW, _TW + 1, 4 * _TW - 1, 4 * _TW, 4 * _TW + 1, 2**31 - 1, -1, -_TW]
        hi = 0x10000 if e == 0x1d else 0x800000
        for mnt in (0x008000, 0x008001, hi - 1, hi // 2, 0x00ffff, 0x00d86a):
            if 0x008000 <= mnt < hi:
                for sp in spans:
                    yield {"mantissa3": mnt.to_bytes(3, "little"), "exponent": e, "time_differential": sp}
        for _ in range(60):
            yield {"mantissa3": rng.randrange(0x008000, hi).to_bytes(3, "little"), "exponent": e,
                   "time_differential": rng.choice([rng.randrange(0, 6 * _TW), rng.randrange(_TW // 4 - 3, _TW // 4 + 3), rng.randrange(4 * _TW - 3, 4 * _TW + 3)])}
    return gen


for _e in range(4, 0x1e):
    contract("buidl.helper.calculate_new_bits#e%d" % _e, props=P,
             ghost={"mantissa3": "bytes:3", "exponent": ("const", _e)}, params={"time_differential": "int"},
             setup=ValueOf("mantissa3 + bytes([exponent])", "previous_bits"), args=["previous_bits", "time_differential"],
             requires=["0x008000 <= spec.int_le(mantissa3) < 0x800000",
                       "spec.spv.compact_to_target(%s) <= spec.spv.POW_LIMIT_MAINNET" % _COMPACT],
             ensures=["returns()",
                      "result == spec.spv.retarget_bytes(previous_bits, time_differential, spec.spv.POW_LIMIT_MAINNET)"],
             tiers=("quick", "thorough") if _e in (0x1b, 0x1c, 0x1d) else ("thorough",),
             gen=_gen_retarget_exp(_e))


# ---------------------------------------------------------------------------- Block.target / check_pow
from verif.pyvc.values import mk_bytes, as_chunks  # noqa: E402


def bits_kind(exps):
    """nBits field = symbolic 3-byte mantissa || exponent byte forked over `exps`"""
    def mk(m, name):
        mant = m.make_sym(name + ".mantissa", "bytes:3")
        e = m.make_sym(name + ".exponent", ("choice", list(exps)))
        return mk_bytes(as_chunks(mant) + [bytes([e])])
    return mk


def _blk(rng, bits):
    return {"__class__": "buidl.block.Block", "fields": {
        "version": rng.getrandbits(32), "prev_block": _h(rng), "merkle_root": _h(rng),
        "timestamp": rng.getrandbits(32), "bits": bits, "nonce": rand_bytes(rng, 4)}}


def _gen_block_bits(rng, tier):
    for d in _gen_bits(rng, tier):
        yield {"self": _blk(rng, d["bits"])}


def _block(exps):
    return obj("buidl.block.Block", version=U32, prev_block=H32, merkle_root=H32, timestamp=U32, bits=bits_kind(exps), nonce="bytes:4")


_HDR = "spec.header80(self.version, self.prev_block, self.merkle_root, self.timestamp, self.bits, self.nonce)"

contract("buidl.block.Block.target", props=P, params={"self": _block(range(0, 36))},
         requires=["not spec.spv.compact_negative(spec.int_le(self.bits))",
                   "not spec.spv.compact_overflow(spec.int_le(self.bits))"],
         ensures=["returns()", "isinstance(result, int)",
                  "result == spec.spv.compact_to_target(spec.int_le(self.bits))"],
         gen=_gen_block_bits)


def _gen_pow(rng, tier):
    # regtest-like targets so that both outcomes occur; sign-bit, overflow, zero and tiny targets
    bl = [bytes.fromhex("ffff7f20"), bytes.fromhex("ffff001d"), bytes.fromhex("00008020"), bytes.fromhex("ffffff20"),
          bytes.fromhex("ffff0021"), bytes.fromhex("ff000022"), bytes.fromhex("ffff0022"), bytes.fromhex("ffff0023"),
          bytes.fromhex("00000020"), bytes.fromhex("01000002"), bytes.fromhex("00010001"), bytes.fromhex("ffff7f1f"),
          bytes.fromhex("ffff7f21"), bytes.fromhex("010000ff"), bytes.fromhex("000080ff"), bytes.fromhex("01008020")]
    for k in range(3000):
        yield {"self": _blk(rng, bl[k % len(bl)])}


# consensus CheckProofOfWork.  Block has no network, so the claim is the sandwich that holds for every
# network: valid under the strictest limit (mainnet) => accepted; accepted => valid under the most
# permissive limit (regtest: 2**255 - 1)
contract("buidl.block.Block.check_pow", props=P, params={"self": _block(range(0, 37))},
         ensures=["returns()",
                  "implies(spec.spv.header_pow_ok(%s, spec.spv.POW_LIMIT_MAINNET), result == True)" % _HDR,
                  "implies(result, spec.spv.header_pow_ok(%s, spec.spv.POW_LIMIT_REGTEST))" % _HDR,
                  # the comparison itself, for well-formed nBits: hash <= target
                  "implies(not spec.spv.compact_negative(spec.int_le(self.bits)) and not spec.spv.compact_overflow(spec.int_le(self.bits)) "
                  "and self.bits[3] >= 3 and 0 < spec.spv.compact_to_target(spec.int_le(self.bits)) <= spec.spv.POW_LIMIT_REGTEST, "
                  "result == (spec.int_le(spec.hash256(%s)) <= spec.spv.compact_to_target(spec.int_le(self.bits))))" % _HDR],
         gen=_gen_pow)


# ---------------------------------------------------------------------------- header chains
def _mine(rng, prev, bits=bytes.fromhex("ffff7f20"), want=True):
    """a header on `prev` (display order) whose PoW validity under regtest rules is `want`"""
    import verif.specs as s
    while True:
        f = {"version": 0x20000000, "prev_block": prev, "merkle_root": _h(rng), "timestamp": rng.getrandbits(32),
             "bits": bits, "nonce": rand_bytes(rng, 4)}
        raw = s.header80(f["version"], f["prev_block"], f["merkle_root"], f["timestamp"], f["bits"], f["nonce"])
        if s.spv.header_pow_ok(raw, s.spv.POW_LIMIT_REGTEST) == want:
            return {"__class__": "buidl.block.Block", "fields": f}, s.spv.header_hash(raw)


def _gen_chain(n):
    def gen(rng, tier):
        for k in range(150):
            prev = _h(rng)
            out = {}
            mode = k % 6            # 0,1: honest; 2: broken link; 3: bad PoW; 4: sign-bit nBits; 5: overflow nBits
            bad = rng.randrange(n)
            for i in range(n):
                bits = bytes.fromhex("ffff7f20")
                want = True
                if i == bad and mode == 3:
                    want = False
                if i == bad and mode == 4:
                    bits, want = bytes.fromhex("01008020"), False
                if i == bad and mode == 5:
                    bits, want = bytes.fromhex("ffff0023"), False
                p = prev
                if i == bad and i > 0 and mode == 2:
                    p = bytes([prev[0] ^ 1]) + prev[1:]
                out[_NAMES[i]], prev = _mine(rng, p, bits, want)
            yield out
    return gen


def _hdr(x):
    return "spec.header80(%s.version, %s.prev_block, %s.merkle_root, %s.timestamp, %s.bits, %s.nonce)" % ((x,) * 6)


# chains of 1..3 headers: the loop of is_valid is about linkage and about calling check_pow on every header;
# nBits exponents restricted to two representative values per header here (check_pow has its own contract)
for _n in (1, 2, 3):
    _hs = [_hdr(nm) for nm in _NAMES[:_n]]
    _list = "[" + ", ".join(_hs) + "]"
    contract("verif.harness.spv.headers_valid%d" % _n, props=P,
             params={nm: _block([0x1d, 0x20] if _n < 3 else [0x1d]) for nm in _NAMES[:_n]},
             ensures=["returns()",
                      "implies(result, spec.spv.chain_linked(%s))" % _list,                               # linkage (sound)
                      "implies(result, spec.spv.chain_valid(%s, spec.spv.POW_LIMIT_REGTEST))" % _list,     # PoW (sound)
                      "implies(spec.spv.chain_valid(%s, spec.spv.POW_LIMIT_MAINNET), result == True)" % _list,  # complete
                      "implies(not spec.spv.chain_linked(%s), result == False)" % _list],
             tiers=("thorough",) if _n == 3 else ("quick", "thorough"),
             gen=_gen_chain(_n))


# ---------------------------------------------------------------------------- bit fields (BIP37 flag bytes)
contract("buidl.helper.bytes_to_bit_field", props=P, params={"some_bytes": ("bytes", 0, 2)},
         ensures=["returns()", "len(result) == 8 * len(some_bytes)", "result == spec.spv.flag_bits(some_bytes)"],
         gen=lambda rng, tier: ({"some_bytes": rand_bytes(rng, k % 9)} for k in range(300)))

contract("verif.harness.spv.bit_field_round_trip", props=P, params={"data": ("bytes", 0, 1)},
         ensures=["returns()", "result == data"],
         gen=lambda rng, tier: ({"data": rand_bytes(rng, k % 40)} for k in range(300)))

_B8 = ["b%d" % i for i in range(8)]
_C8 = ["c%d" % i for i in range(8)]
contract("verif.harness.spv.bit_field8", props=P, params={b: ("int", 0, 1) for b in _B8},
         ensures=["returns()", "result == spec.spv.flag_bytes([%s])" % ", ".join(_B8),
                  "result[0] == " + " + ".join("%s * %d" % (b, 1 << i) for i, b in enumerate(_B8))],
         gen=lambda rng, tier: ({b: rng.randrange(2) for b in _B8} for _ in range(256)))
contract("verif.harness.spv.bit_field16", props=P, params={b: ("int", 0, 1) for b in _B8 + _C8},
         ensures=["returns()", "result[0] == result[1]"], tiers=(),          # 2**16 paths: concrete only
         gen=lambda rng, tier: ({b: rng.randrange(2) for b in _B8 + _C8} for _ in range(300)))
contract("buidl.helper.bit_field_to_bytes#len", props=P, params={"bit_field": ("const", [1, 0, 1])},
         raises={"RuntimeError": "True"}, ensures=[],
         gen=lambda rng, tier: iter([{}]))


# ---------------------------------------------------------------------------- smallest BIP37 proofs, symbolically
def _gen_single(rng, tier):
    for k in range(100):
        leaf = _h(rng)
        root = leaf if k % 2 == 0 else _h(rng)
        yield {"header": {"__class__": "buidl.block.Block", "fields": {"merkle_root": root}}, "leaf": leaf}


contract("verif.harness.spv.merkleblock_single", props=P,
         params={"header": obj("buidl.block.Block", merkle_root=H32), "leaf": H32},
         ensures=["returns()", "result[0] == (leaf == header.merkle_root)", "result[1] == [leaf]"],
         gen=_gen_single)


def _gen_two(rng, tier):
    import verif.specs as s
    for k in range(200):
        h0, h1 = _h(rng), _h(rng)
        root = s.spv.merkle_pair(h0[::-1], h1[::-1])[::-1] if k % 3 else _h(rng)
        yield {"header": {"__class__": "buidl.block.Block", "fields": {"merkle_root": root}},
               "total_flags": [7, 3, 5, 1, 0, 15, 0x87][k % 7], "h0": h0, "h1": h1}


# two leaves: whatever flag byte is supplied, if validation succeeds the root is the pair hash and every
# proved id is one of the two supplied leaves, in order
contract("verif.harness.spv.merkleblock_two", props=P,
         params={"header": obj("buidl.block.Block", merkle_root=H32), "total_flags": ("int", 0, 255), "h0": H32, "h1": H32},
         ensures=["implies(returns() and result[0], header.merkle_root == spec.spv.merkle_pair(h0[::-1], h1[::-1])[::-1])",
                  "implies(returns() and result[0], result[1] == [h for (h, bit) in ((h0, (total_flags >> 1) & 1), (h1, (total_flags >> 2) & 1)) if bit == 1])",
                  "implies(total_flags == 7 and header.merkle_root == spec.spv.merkle_pair(h0[::-1], h1[::-1])[::-1], returns() and result[0] == True and result[1] == [h0, h1])"],
         gen=_gen_two)
