"""C01 ECDSA, C02 Schnorr, C03 encodings (buidl/pecc.py) in the discrete-log theory"""
from .common import *  # noqa
from verif.pyvc import theories

theories.install(REG)
N = theories.N
U256 = ("int", 0, 2**256 - 1)


def point(m, name):
    """an arbitrary finite curve point pt(d), 1 <= d < N"""
    import z3
    d = m.p.fresh(name + "_dlog")
    m.p.assume(z3.And(d >= 1, d < N))
    theories.register_scalar(m, d)
    return theories.mk_point(m, d)


_ZS = [0, 1, N - 1, N, N + 1, 2**256 - 1, 2**255, 2**128 + 12345]
_DS = [1, 2, N - 1, N - 2, 2**128 + 7, 2**255 + 99]


def _gen_verify(rng, tier):
    from buidl.pecc import PrivateKey
    import verif.specs as sp
    cv = sp.curve
    # valid tuples whose R has x >= N (so r = x - N): choose R first, solve the public key Q = r^-1 (s R - z G)
    found = 0
    for i in range(1, 400):
        R = cv.lift_x(N + i)
        if R is None:
            continue
        found += 1
        r = i
        for _ in range(2):
            s_, z_ = rng.randrange(1, N), rng.getrandbits(256)
            Q = cv._mul(cv.inv_mod(r, N), cv._add(cv._mul(s_, R), cv._mul((-z_) % N, cv.G_)))
            if Q is not None:
                yield {"pub": {"__point_xy__": [Q[0], Q[1]]}, "z": z_, "r": r, "s": s_}
        if found >= 3:
            break
    k = 0
    for d in _DS + [rng.randrange(1, N) for _ in range(6)]:
        for z in _ZS[: (4 if tier == "quick" else 8)] + [rng.getrandbits(256)]:
            sig = PrivateKey(d).sign(z)
            r, s = sig.r, sig.s
            forged = [(r, s), (r, N - s), (r, s + N), (r + N, s), (0, s), (r, 0), (N, s), (r, N), (2**256 - 1, s),
                      (r, (s + 1) % N), ((r + 1) % N, s)]
            for (rr, ss) in forged[: (4 if tier == "quick" else 11)]:
                k += 1
                yield {"pub": {"__point__": d}, "z": z, "r": rr, "s": ss}


contract("verif.harness.ecc.verify_rs", props=("C01",), nl_uf=True,
         params={"pub": point, "z": U256, "r": "int", "s": "int"},
         ensures=["implies(returns(), result == spec.ecdsa.ecdsa_verify(pub, z, r, s))",
                  "implies(raises(), not spec.ecdsa.ecdsa_verify(pub, z, r, s))",
                  "implies(returns() and result, 1 <= r < spec.ecdsa.N and 1 <= s < spec.ecdsa.N)"],
         gen=_gen_verify)


def _gen_dz(rng, tier):
    for d in _DS:
        for z in _ZS:
            yield {"d": d, "z": z}
    while True:
        yield {"d": rng.randrange(1, N), "z": rng.getrandbits(256)}


contract("buidl.pecc.PrivateKey.deterministic_k", props=("C01",), by_contract=True, returns=("int", 1, N - 1),
         returns_expr="spec.ecdsa.rfc6979_k(self.secret, z)",
         params={"self": obj("buidl.pecc.PrivateKey", secret=("int", 1, N - 1)), "z": U256},
         ensures=["returns()", "1 <= result < spec.ecdsa.N", "result == spec.ecdsa.rfc6979_k(self.secret, z)"],
         invariants={1: {"inv": ["len(k) == 32 and len(v) == 32", "spec.ecdsa.rfc_loop(k, v) == spec.ecdsa.rfc_loop(k0, v0)"],
                         "ghost_init": {"k0": "k", "v0": "v"}, "types": {"k": "bytes:32", "v": "bytes:32"}}},
         gen=lambda rng, tier: ({"self": {"__class__": "buidl.pecc.PrivateKey", "fields": {"secret": x["d"]}}, "z": x["z"]}
                                for x in _gen_dz(rng, tier)))

contract("verif.harness.ecc.sign_rs", props=("C01",), nl_uf=True,
         params={"d": ("int", 1, N - 1), "z": U256},
         requires=["spec.ecdsa.sign_defined(d, z)"],
         ensures=["returns()", "result[0] == spec.ecdsa.sign_rs(d, z)[0]",
                  "result[1] == spec.ecdsa.low_s(spec.ecdsa.sign_rs(d, z)[1])",
                  "1 <= result[0] < spec.ecdsa.N", "1 <= result[1] <= (spec.ecdsa.N - 1) // 2"],
         gen=_gen_dz)

contract("verif.harness.ecc.sign_then_verify", props=("C01",), nl_uf=True,
         params={"d": ("int", 1, N - 1), "z": U256},
         requires=["spec.ecdsa.sign_defined(d, z)"],
         ensures=["returns()", "result is True"],
         gen=_gen_dz)


def _gen_rs(rng, tier):
    vals = [1, 0x7f, 0x80, 0xff, 0x100, 2**255 - 1, 2**255, 2**256 - 1, 2**248 - 1, 2**248, 2**247, N - 1, (N - 1) // 2]
    for r in vals:
        for s in vals:
            yield {"r": r, "s": s}
    while True:
        yield {"r": rng.getrandbits(rng.choice([8, 64, 255, 256])) or 1, "s": rng.getrandbits(rng.choice([8, 64, 255, 256])) or 1}


U256P = ("int", 1, 2**256 - 1)
# DER.  r and s are given by their 32 big-endian bytes (every value below 2^256 is of that form), so the encoder's byte tests
# are tests on symbolic bytes; int.from_bytes is tied to the bytes (int_bytes_expand).  Quick tier: each field for ALL its
# values with the other one in its top length class (64 paths each); thorough tier: the full product (4096 paths).
def _gen_rsb(rng, tier):
    for d in _gen_rs(rng, tier):
        yield {"rb": d["r"].to_bytes(32, "big"), "sb": d["s"].to_bytes(32, "big")}


_TOPB = ("const", b"\x80" + bytes(31))
_NZ = ["int.from_bytes(rb, 'big') >= 1", "int.from_bytes(sb, 'big') >= 1"]
for _tag, _pr, _ps, _tiers, _mp in (("r-any", "bytes:32", _TOPB, ("quick", "thorough"), 400), ("s-any", _TOPB, "bytes:32", ("quick", "thorough"), 400),
                                    ("all", "bytes:32", "bytes:32", ("thorough",), 10000)):
    contract("verif.harness.ecc.der_roundtrip_bytes#" + _tag, props=("C01",), params={"rb": _pr, "sb": _ps}, requires=_NZ,
             int_bytes_expand=33, max_paths=_mp, tiers=_tiers,
             ensures=["returns()", "result == (int.from_bytes(rb, 'big'), int.from_bytes(sb, 'big'))"], gen=_gen_rsb)
    contract("verif.harness.ecc.der_of_bytes#" + _tag, props=("C01",), params={"rb": _pr, "sb": _ps}, requires=_NZ,
             int_bytes_expand=33, max_paths=_mp, tiers=_tiers,
             ensures=["returns()", "result == spec.ecdsa.der_of_bytes(rb, sb)",
                      "len(result) <= 72 and result[0] == 0x30 and result[1] == len(result) - 2"], gen=_gen_rsb)
# integer-level statements against the integer-level spec: run-time companion only (the symbolic run of to_bytes(33).lstrip on
# 256-bit integers costs several solver-seconds per path and 1100 paths)
contract("verif.harness.ecc.der_of", props=("C01",), params={"r": U256P, "s": U256P},
         ensures=["returns()", "result == spec.ecdsa.der(r, s)",
                  "result == spec.ecdsa.der_of_bytes(r.to_bytes(32, 'big'), s.to_bytes(32, 'big'))"], gen=_gen_rs, tiers=("runtime-only",))
contract("verif.harness.ecc.der_roundtrip", props=("C01",), params={"r": U256P, "s": U256P},
         ensures=["returns()", "result == (r, s)"], gen=_gen_rs, tiers=("runtime-only",))


# ---------------------------------------------------------------------------- C02 BIP340
B32 = "bytes:32"


def _gen_schnorr_sign(rng, tier):
    # BIP340 masks the secret as a 32-byte STRING: t = bytes(d') xor hash_aux(aux) may exceed N as an integer
    # (probability 2^-128 for random inputs), so construct such keys: d' = t xor hash_aux(aux), signing key d' or N - d'
    import verif.specs as s
    for t in (N - 1, N, N + 1, 2**256 - 1, N + 2**127):
        for _ in range(40):
            aux = rand_bytes(rng, 32)
            dd = t ^ int.from_bytes(s.schnorr.tagged(b"BIP0340/aux", aux), "big")
            if 1 <= dd < N and s.curve.has_even_y(s.curve.mul_G(dd)):      # dd is then the key BIP340 actually masks
                yield {"d": dd, "msg": rand_bytes(rng, 32), "aux": aux}
                yield {"d": N - dd, "msg": rand_bytes(rng, 32), "aux": aux}
                break
    for d in _DS:
        for m in (bytes(32), b"\xff" * 32, rand_bytes(rng, 32)):
            yield {"d": d, "msg": m, "aux": bytes(32)}
            yield {"d": d, "msg": m, "aux": rand_bytes(rng, 32)}
    while True:
        yield {"d": rng.randrange(1, N), "msg": rand_bytes(rng, 32), "aux": rand_bytes(rng, 32)}


contract("verif.harness.ecc.schnorr_sign_bytes", props=("C02",), nl_uf=True,
         params={"d": ("int", 1, N - 1), "msg": B32, "aux": B32},
         requires=["spec.schnorr.sign_defined(d, msg, aux)"],
         ensures=["returns()", "result == spec.schnorr.sign(d, msg, aux)"],
         gen=_gen_schnorr_sign)

contract("verif.harness.ecc.schnorr_sign_then_verify", props=("C02",), nl_uf=True,
         params={"d": ("int", 1, N - 1), "msg": B32, "aux": B32},
         requires=["spec.schnorr.sign_defined(d, msg, aux)"],
         ensures=["returns()", "result is True"],
         gen=_gen_schnorr_sign)


def _gen_schnorr_verify(rng, tier):
    from buidl.pecc import PrivateKey
    import verif.specs as s
    Pf = s.curve.P
    for d in _DS[:4] + [rng.randrange(1, N) for _ in range(4 if tier == "quick" else 30)]:
        m = rand_bytes(rng, 32)
        sig = PrivateKey(d).sign_schnorr(m, rand_bytes(rng, 32)).serialize()
        r, sv = sig[:32], int.from_bytes(sig[32:], "big")
        yield {"pub": {"__point__": d}, "msg": m, "sig": sig}
        yield {"pub": {"__point__": N - d}, "msg": m, "sig": sig}
        forged = [r + ((sv + N) % 2**256).to_bytes(32, "big"), r + (N - sv).to_bytes(32, "big"), r + N.to_bytes(32, "big"),
                  r + bytes(32), Pf.to_bytes(32, "big") + sig[32:], bytes(32) + sig[32:], sig[:31] + bytes([sig[31] ^ 1]) + sig[32:],
                  sig[:63] + bytes([sig[63] ^ 1])]
        for f in forged:
            yield {"pub": {"__point__": d}, "msg": m, "sig": f}
        yield {"pub": {"__point__": d}, "msg": bytes([m[0] ^ 1]) + m[1:], "sig": sig}
        yield {"pub": {"__point__": d + 1 if d + 1 < N else 1}, "msg": m, "sig": sig}


contract("verif.harness.ecc.schnorr_verify_bytes", props=("C02",), nl_uf=True,
         params={"pub": point, "msg": B32, "sig": "bytes:64"},
         ensures=["implies(returns(), result == spec.schnorr.verify(spec.curve.x_of(pub).to_bytes(32, 'big'), msg, sig))",
                  "implies(raises(), not spec.schnorr.verify(spec.curve.x_of(pub).to_bytes(32, 'big'), msg, sig))"],
         gen=_gen_schnorr_verify)

# keys as 32-byte strings, including strings that are no x coordinate of a curve point (BIP340 lift_x fails: 0, p, 2^256-1,
# non-residues): nothing verifies under them.  Added after seed C02-E (the point at infinity, which parse_xonly returns for
# 32 zero bytes, got a parity attribute, so verification under it ran through with P = infinity and accepted x(kG) || k)
def _gen_schnorr_xonly(rng, tier):
    from buidl.pecc import PrivateKey
    import verif.specs as s
    Pf = s.curve.P
    bad = [bytes(32), Pf.to_bytes(32, "big"), (Pf + 1).to_bytes(32, "big"), b"\xff" * 32, (5).to_bytes(32, "big")]
    for j in range(6):
        x = rng.randrange(1, Pf)
        if s.curve.lift_x(x) is None:
            bad.append(x.to_bytes(32, "big"))
    for t, pk in enumerate(bad):
        m = rand_bytes(rng, 32)
        for k in (1, 2, 3, 7, rng.randrange(1, N)):
            R = s.curve.mul_G(k)
            kk = k if s.curve.has_even_y(R) else N - k
            yield {"pk32": pk, "msg": m, "sig": s.curve.x_of(R).to_bytes(32, "big") + kk.to_bytes(32, "big")}
        yield {"pk32": pk, "msg": m, "sig": rand_bytes(rng, 64)}
    for d in _DS[:3] + [rng.randrange(1, N) for _ in range(3 if tier == "quick" else 20)]:
        m = rand_bytes(rng, 32)
        sig = PrivateKey(d).sign_schnorr(m, rand_bytes(rng, 32)).serialize()
        pk = s.curve.x_of(s.curve.mul_G(d)).to_bytes(32, "big")
        yield {"pk32": pk, "msg": m, "sig": sig}
        yield {"pk32": pk, "msg": m, "sig": sig[:40] + bytes([sig[40] ^ 4]) + sig[41:]}
        yield {"pk32": bytes([pk[0] ^ 1]) + pk[1:], "msg": m, "sig": sig}


contract("verif.harness.ecc.schnorr_verify_xonly", props=("C02",), tiers=("runtime-only",),
         params={"pk32": B32, "msg": B32, "sig": "bytes:64"},
         ensures=["implies(returns(), result == spec.schnorr.verify(pk32, msg, sig))",
                  "implies(raises(), not spec.schnorr.verify(pk32, msg, sig))"],
         gen=_gen_schnorr_xonly)

# history contract (added after seeded change C02-D: verify_schnorr negating an odd-Y key in place and restoring it only on
# some exits): rejected signatures must leave the key object as it was -- the honest signature verifies before and after
def _gen_schnorr_history(rng, tier):
    for t in range(12 if tier == "quick" else 60):
        d = _DS[t % len(_DS)] if t < 4 else rng.randrange(1, N)
        yield {"d": d, "msg": rand_bytes(rng, 32), "aux": rand_bytes(rng, 32),
               "flips": [256 + rng.randrange(256) for _ in range(4)] + [rng.randrange(256) for _ in range(2)]}


contract("verif.harness.ecc.schnorr_verify_history", props=("C02",), tiers=("runtime-only",),
         params={"d": ("int", 1, N - 1), "msg": B32, "aux": B32, "flips": "list"},
         ensures=["returns()", "result[0] is True", "not any(result[1])", "result[2] is True", "result[3] is True"],
         gen=_gen_schnorr_history)

contract("verif.harness.ecc.schnorr_sig_init", props=("C02",), nl_uf=True,
         params={"r_point": point, "s": "int"},
         raises={"ValueError": "s >= spec.schnorr.N"},
         ensures=["implies(returns(), result == s)"],
         gen=lambda rng, tier: ({"r_point": {"__point__": 5}, "s": v} for v in (0, 1, N - 1, N, N + 1, 2**256 - 1, 2**256)))


def _gen_tagged(rng, tier):
    for tag in (b"BIP0340/aux", b"BIP0340/nonce", b"BIP0340/challenge", b"TapLeaf", b"TapBranch", b"TapTweak", b"TapSighash", b"", b"x" * 70):
        for n in (0, 1, 31, 32, 33, 64, 100):
            yield {"tag": tag, "msg": rand_bytes(rng, n)}
    while True:
        yield {"tag": rand_bytes(rng, rng.randrange(0, 40)), "msg": rand_bytes(rng, rng.randrange(0, 100))}


contract("verif.harness.ecc.tagged", props=("C02",),
         params={"tag": ("choice", [b"BIP0340/aux", b"BIP0340/nonce", b"BIP0340/challenge", b"TapLeaf", b"TapBranch", b"TapTweak", b"TapSighash", b"KeyAgg list", b"KeyAgg coefficient", b"MuSig/noncecoef"]),
                 "msg": "bytes"},
         ensures=["returns()", "result == spec.schnorr.tagged(tag, msg)", "len(result) == 32"], gen=_gen_tagged)


# ---------------------------------------------------------------------------- C03 field and encodings
def _gen_fe_for(op):
    def gen(rng, tier):
        for p in (2, 3, 5, 7, 11, 13, 17, 19, 23, 29, 31):
            for a in range(p):
                for b in range(p):
                    yield {"op": op, "a": a, "b": b, "p": p}
        Pf = 2**256 - 2**32 - 977
        while True:
            yield {"op": op, "a": rng.randrange(Pf), "b": rng.randrange(Pf), "p": Pf}
    return gen


for _op, _f in (("add", "(a + b) % p"), ("sub", "(a - b) % p"), ("mul", "(a * b) % p"), ("rmul", "(a * b) % p")):
    contract("verif.harness.ecc.fe_op#%s" % _op, props=("C03",),
             params={"op": ("const", _op), "a": "int", "b": "int", "p": "int"},
             requires=["p >= 2", "0 <= a < p", "0 <= b < p"],
             ensures=["returns()", "result == (%s, p)" % _f, "0 <= result[0] < p"],
             gen=_gen_fe_for(_op))
contract("verif.harness.ecc.fe_new", props=("C03",), params={"a": "int", "p": "int"}, requires=["p >= 2"],
         raises={"ValueError": "a < 0 or a >= p"}, ensures=["implies(returns(), result == a)"],
         gen=lambda rng, tier: ({"a": a, "p": p} for p in (2, 7, 31) for a in (-1, 0, 1, p - 1, p, p + 1)))

_PF = 2**256 - 2**32 - 977
contract("verif.harness.ecc.s256_div", props=("C03",), nl_uf=True,
         params={"a": ("int", 0, _PF - 1), "b": ("int", 1, _PF - 1)},
         ensures=["returns()", "0 <= result < %d" % _PF, "(result * b) %% %d == a" % _PF],
         gen=lambda rng, tier: ({"a": rng.randrange(_PF), "b": rng.randrange(1, _PF)} for _ in range(300)))


def _gen_sec(rng, tier):
    from buidl.pecc import PrivateKey
    for d in _DS + [rng.randrange(1, N) for _ in range(10)]:
        pt_ = PrivateKey(d).point
        for comp in (True, False):
            s = pt_.sec(comp)
            yield {"b": s}
            for pre in (0, 1, 2, 3, 4, 5, 6, 7, 0x82, 0xff):
                yield {"b": bytes([pre]) + s[1:]}
            yield {"b": s[:-1]}
            yield {"b": s + b"\x00"}
            yield {"b": s[:1] + bytes([s[1] ^ 1]) + s[2:]}
    for n in (0, 1, 31, 32, 33, 34, 64, 65, 66):
        yield {"b": rand_bytes(rng, n)}


for _n in (33, 65):
    contract("verif.harness.ecc.parse_then_sec#len%d" % _n, props=("C03",), nl_uf=True,
             params={"b": "bytes:%d" % _n}, requires=["len(b) == %d" % _n],
             ensures=["implies(returns(), result == b)",
                      "implies(returns(), b[0] in ((2, 3) if len(b) == 33 else (4,)))"],
             gen=_gen_sec)

def _gen_sec_big(rng, tier):
    """SEC strings whose coordinates are >= p but congruent to a real curve point (the field has 2**32 + 977 such x)"""
    from buidl.pecc import S256Point
    Pf = _PF
    for x in range(1, 40):
        if x + Pf >= 2**256:
            break
        y2 = (x**3 + 7) % Pf
        y = pow(y2, (Pf + 1) // 4, Pf)
        if y * y % Pf != y2:
            continue
        yield {"b": bytes([2 + (y & 1)]) + (x + Pf).to_bytes(32, "big")}
        yield {"b": b"\x04" + (x + Pf).to_bytes(32, "big") + y.to_bytes(32, "big")}
        if y + Pf < 2**256:
            yield {"b": b"\x04" + x.to_bytes(32, "big") + (y + Pf).to_bytes(32, "big")}
    for x in (Pf, Pf + 1, 2**256 - 1):
        yield {"b": b"\x02" + x.to_bytes(32, "big")}
        yield {"b": b"\x04" + x.to_bytes(32, "big") + (1).to_bytes(32, "big")}
    yield from _gen_sec(rng, tier)


# a decoded point has canonical coordinates (below p) that satisfy the curve equation: strings carrying x or y >= p do not
# encode a curve point and must be refused (otherwise the decoder is not injective: x and x + p would name "different" points)
for _n in (33, 65):
    contract("verif.harness.ecc.parse_coords#len%d" % _n, props=("C03",), nl_uf=True,
             params={"b": "bytes:%d" % _n}, requires=["len(b) == %d" % _n],
             ensures=["implies(returns(), 0 <= result[0] < %d)" % _PF,
                      "implies(returns(), 0 <= result[1] < %d)" % _PF,
                      "implies(returns(), result[0] == int.from_bytes(b[1:33], 'big'))",
                      "implies(int.from_bytes(b[1:33], 'big') >= %d, raises(ValueError))" % _PF,
                      "implies(returns(), (result[1] * result[1] - result[0] ** 3 - 7) %% %d == 0)" % _PF],
             gen=_gen_sec_big)

contract("buidl.pecc.S256Point.parse#badlen", props=("C03",),
         params={"cls": ("const_cls", "buidl.pecc.S256Point"), "binary": ("bytes", 0, 70)}, args=["cls", "binary"],
         requires=["len(binary) not in (32, 33, 65)"], ensures=["raises(ValueError)"],
         gen=lambda rng, tier: ({"binary": rand_bytes(rng, n)} for n in (0, 1, 31, 34, 64, 66, 70)))


def _gen_pub(rng, tier):
    for d in _DS + [rng.randrange(1, N) for _ in range(20)]:
        for c in (True, False):
            yield {"pub": {"__point__": d}, "compressed": c}


contract("verif.harness.ecc.sec_then_parse", props=("C03",), nl_uf=True,
         params={"pub": point, "compressed": "bool"},
         ensures=["returns()", "result == (spec.curve.x_of(pub), spec.curve.y_of(pub))"], gen=_gen_pub)
contract("verif.harness.ecc.xonly_then_parse", props=("C03",), nl_uf=True,
         params={"pub": point},
         ensures=["returns()", "result[0] == spec.curve.x_of(pub)", "result[1] % 2 == 0",
                  "result[1] == (spec.curve.y_of(pub) if spec.curve.has_even_y(pub) else spec.curve.P - spec.curve.y_of(pub))"],
         gen=lambda rng, tier: ({"pub": x["pub"]} for x in _gen_pub(rng, tier)))


# ---------------------------------------------------------------------------- C03.4 double-and-add in an abstract group
def _group_setup(m, env):
    """self is an arbitrary element of the (abstract, commutative) point group"""
    import z3
    from verif.pyvc import fieldmode as fm
    fm.install_group(m)
    env["self"] = fm.gpoint(m, z3.Const("g_self", fm.GS))
    from verif.pyvc.values import HObj
    # a, b are only passed through to the constructor of the point at infinity
    m.p.deref(env["self"]).fields["a"] = None
    m.p.deref(env["self"]).fields["b"] = None


class _GroupSetup:
    def __call__(self, m, env):
        _group_setup(m, env)

    def conc(self, env, glob):
        pass


def _gen_rmul(rng, tier):
    from buidl.pecc import FieldElement, Point
    for p, (x, y) in ((223, (47, 71)), (223, (192, 105)), (11, (5, 0))):
        for k in (0, 1, 2, 3, 7, 8, 21, 100):
            yield {"self": {"__class__": "buidl.pecc.Point", "fields": {
                "x": {"__class__": "buidl.pecc.FieldElement", "fields": {"num": x, "prime": p}},
                "y": {"__class__": "buidl.pecc.FieldElement", "fields": {"num": y, "prime": p}},
                "a": {"__class__": "buidl.pecc.FieldElement", "fields": {"num": 0, "prime": p}},
                "b": {"__class__": "buidl.pecc.FieldElement", "fields": {"num": 7, "prime": p}}}}, "coefficient": k}


contract("buidl.pecc.Point.__rmul__", props=("C03",),
         params={"coefficient": "nat"}, setup=_GroupSetup(), args=["self", "coefficient"],
         ensures=["returns()", "spec.group.eq(result, spec.group.nsmul(coefficient, self))"],
         invariants={1: {"inv": ["coef >= 0",
                                 "spec.group.binary_step(coef, current, result)",
                                 "spec.group.eq(spec.group.add(result, spec.group.nsmul(coef, current)), spec.group.nsmul(coefficient, self))"],
                         "types": {"result": lambda m, n: __import__("verif.pyvc.fieldmode", fromlist=["x"]).gpoint(m, __import__("z3").Const("g_" + n + str(m.p.fresh_n), __import__("verif.pyvc.fieldmode", fromlist=["x"]).GS)),
                                   "current": lambda m, n: __import__("verif.pyvc.fieldmode", fromlist=["x"]).gpoint(m, __import__("z3").Const("g_" + n + str(m.p.fresh_n), __import__("verif.pyvc.fieldmode", fromlist=["x"]).GS))}}},
         gen=_gen_rmul)
