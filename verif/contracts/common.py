"""shared helpers for contract files"""
import io
import random

from verif.pyvc.verifier import contract, REG, native  # noqa
from verif.pyvc.values import HStream, as_chunks
from verif.pyvc.interp import Frame
from verif import rt


class StreamOf:
    """input `name` is a BytesIO positioned at the start of the bytes denoted by `expr`
    (a contract-language expression over the ghosts/params)"""

    def __init__(self, expr, name="s"):
        self.expr, self.name = expr, name

    def __call__(self, m, env):
        fr = Frame(dict(env, spec=REG.spec_module), REG.spec_globals)
        v = m.eval_spec(self.expr, fr)
        env[self.name] = m.p.alloc(HStream(as_chunks(v)))

    def conc(self, env, glob):
        code, _ = rt.compile_clause(self.expr)
        env[self.name] = io.BytesIO(eval(code, glob, env))


class Multi:
    def __init__(self, *setups):
        self.setups = setups

    def __call__(self, m, env):
        for s in self.setups:
            s(m, env)

    def conc(self, env, glob):
        for s in self.setups:
            if hasattr(s, "conc"):
                s.conc(env, glob)


BOUNDARY_INTS = [0, 1, 2, 0x7f, 0x80, 0xfc, 0xfd, 0xfe, 0xff, 0x100, 0xffff, 0x10000, 0xffffffff, 0x100000000,
                 2**63 - 1, 2**63, 2**64 - 1, 2**64, 2**64 + 1]


def rand_bytes(rng, n):
    return bytes(rng.getrandbits(8) for _ in range(n))


def ints_gen(name, boundary=BOUNDARY_INTS, lo=0, hi=2**64 + 5, neg=False):
    def gen(rng, tier):
        for b in boundary:
            yield {name: b}
            if neg:
                yield {name: -b}
        while True:
            k = rng.choice([8, 16, 32, 64, 70])
            v = rng.getrandbits(k)
            if lo <= v <= hi:
                yield {name: -v if (neg and rng.random() < 0.5) else v}
    return gen


def obj(clsname, **fields):
    """symbolic object of class `clsname` whose fields are fresh symbolic values of the given kinds
    (the constructor is NOT run: any state satisfying `requires` is covered)"""
    from verif.pyvc.verifier import resolve
    from verif.pyvc.values import HObj

    def mk(m, name):
        cls = resolve(clsname)
        f = {}
        for k, kind in fields.items():
            f[k] = m.make_sym(name + "." + k, kind) if not _is_const(kind) else kind[1]
        return m.p.alloc(HObj(cls, f))
    return mk


def const(v):
    return ("const", v)


def _is_const(kind):
    return isinstance(kind, tuple) and len(kind) == 2 and kind[0] == "const"
