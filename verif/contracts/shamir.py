"""C15: SLIP39 (buidl/shamir.py).

Deductive part (integers only): one generic step of the RS1024 state machine in bit-vector mode, the range
checks of Share.__init__, the cross-share consistency checks of ShareSet.__init__, the threshold refusal of
recover(), the argument checks and the threshold-1 case of split_secret.
Contracts about words (strings), about GF(256) table look-ups with symbolic indices (256-way fork per look-up)
and about the Feistel network (XOR cancellation through PBKDF2 arguments) are run concretely only."""
from .common import *  # noqa

NO_SYMBOLIC = ()
W10 = ("int", 0, 1023)


def _engine_dedupes_sets():
    """ShareSet.__init__ decides with `len({s.id for s in shares}) != 1`.  The engine is probed once: if its set
    comprehension does not merge equal symbolic elements, every path of the constructor raises and the verdicts
    would be spurious; the contracts that build a ShareSet of two shares then run concretely only."""
    from verif.pyvc import verifier
    c = verifier.Contract("verif.harness.shamir._probe_setcomp", params={"a": ("int", 0, 3), "b": ("int", 0, 3)},
                          ensures=["result == (1 if a == b else 2)"])
    try:
        res, _ = verifier.verify_contract(c, timeout_ms=3000)
        return bool(res) and all(r.status == "ok" for r in res)
    except Exception:      # noqa
        return False


_SETS_OK = _engine_dedupes_sets()
_SET_TIERS = ("quick", "thorough") if _SETS_OK else ()
_SET_NOTE = "" if _SETS_OK else ("deductive job disabled: the engine's set comprehension does not merge equal symbolic elements "
                                 "(spurious TypeError on every path of ShareSet.__init__); run concretely only")

# ---------------------------------------------------------------------------------------- RS1024 (C15.5)
# one arbitrary state (three free words after chk = 1 reach every 30-bit state) followed by one step
contract("verif.harness.shamir.polymod4", props=("C15",), bv=32, max_paths=2048, timeout_ms=10000,
         params={"v0": W10, "v1": W10, "v2": W10, "v3": W10},
         ensures=["returns()", "result == spec.slip39.rs1024_polymod([v0, v1, v2, v3])"],
         gen=lambda rng, tier: ({"v0": rng.getrandbits(10), "v1": rng.getrandbits(10), "v2": rng.getrandbits(10),
                                 "v3": rng.getrandbits(10)} for _ in range(5000)),
         note="1024 paths: the ten `GEN[i] if bit else 0` selections of the fourth iteration")


def _gen_values(rng, tier):
    for ln in (0, 1, 2, 3, 4, 7, 20, 26, 33, 39, 60):
        for mode in range(3):
            yield {"values": [(0, 1023, rng.getrandbits(10))[mode] for _ in range(ln)]}
    while True:
        yield {"values": [rng.getrandbits(10) for _ in range(rng.randrange(0, 45))]}


contract("verif.harness.shamir.polymod", props=("C15",), tiers=NO_SYMBOLIC,
         params={"values": "list of 10-bit ints"},
         ensures=["returns()", "result == spec.slip39.rs1024_polymod(values)", "result == spec.slip39.rs1024_residue(values)"],
         gen=_gen_values, note="list-valued input; the generic step is verif.harness.shamir.polymod4")


def _gen_data(rng, tier):
    for d in _gen_values(rng, tier):
        yield {"data": d["values"]}


contract("verif.harness.shamir.create_checksum", props=("C15",), tiers=NO_SYMBOLIC,
         params={"data": "list of 10-bit ints"},
         ensures=["returns()", "result == spec.slip39.rs1024_checksum(data)", "spec.slip39.rs1024_verify(data + result)"],
         gen=_gen_data, note="list-valued input")
contract("verif.harness.shamir.verify_checksum", props=("C15",), tiers=NO_SYMBOLIC,
         params={"data": "list of 10-bit ints"},
         ensures=["returns()", "result == spec.slip39.rs1024_verify(data)"],
         gen=_gen_data, note="list-valued input")
contract("verif.harness.shamir.checksum_then_verify", props=("C15",), tiers=NO_SYMBOLIC,
         params={"d0": W10, "d1": W10, "d2": W10, "d3": W10},
         ensures=["returns()", "result == True"],
         gen=lambda rng, tier: ({"d0": rng.getrandbits(10), "d1": rng.getrandbits(10), "d2": rng.getrandbits(10),
                                 "d3": rng.getrandbits(10)} for _ in range(3000)),
         note="16 iterations with symbolic state = 1024^13 paths in the engine (no if-expression merging)")

# ---------------------------------------------------------------------------------------- Share.__init__
_RANGE_OK = ("0 <= group_index <= 15 and 1 <= group_threshold <= group_count and 1 <= group_count <= 16 and "
             "0 <= member_index <= 15 and 1 <= member_threshold <= 16")


def _gen_share_init(rng, tier):
    base = dict(share_bit_length=128, id=1234, exponent=0, group_index=0, group_threshold=1, group_count=1,
                member_index=0, member_threshold=1, value=5)
    for f, vals in (("group_index", (-1, 0, 15, 16)), ("group_threshold", (0, 1, 2, 16, 17)), ("group_count", (0, 1, 16, 17)),
                    ("member_index", (-1, 0, 15, 16)), ("member_threshold", (0, 1, 16, 17))):
        for v in vals:
            d = dict(base, group_count=16 if f == "group_threshold" else 1)
            d[f] = v
            d["self"] = {"__class__": "buidl.shamir.Share", "fields": {}}
            yield d
    while True:
        bits = rng.choice((128, 256))
        yield dict(self={"__class__": "buidl.shamir.Share", "fields": {}}, share_bit_length=bits, id=rng.getrandbits(15),
                   exponent=rng.randrange(32), group_index=rng.randrange(-1, 17), group_threshold=rng.randrange(0, 18),
                   group_count=rng.randrange(0, 18), member_index=rng.randrange(-1, 17),
                   member_threshold=rng.randrange(0, 18), value=rng.getrandbits(bits))


contract("buidl.shamir.Share.__init__", props=("C15",),
         params={"self": obj("buidl.shamir.Share"), "share_bit_length": ("choice", [128, 256]), "id": ("int", 0, 2**15 - 1),
                 "exponent": ("int", 0, 31), "group_index": "int", "group_threshold": "int", "group_count": "int",
                 "member_index": "int", "member_threshold": "int", "value": "nat"},
         requires=["value < 2**share_bit_length"],
         raises={"ValueError": "not (%s)" % _RANGE_OK},
         ensures=["implies(returns(), self.id == id and self.exponent == exponent and self.group_index == group_index "
                  "and self.group_threshold == group_threshold and self.group_count == group_count "
                  "and self.member_index == member_index and self.member_threshold == member_threshold "
                  "and self.value == value and self.share_bit_length == share_bit_length)",
                  "implies(returns(), self.bytes == spec.be(value, share_bit_length // 8))"],
         gen=_gen_share_init)

# ---------------------------------------------------------------------------------------- ShareSet.__init__ (C15.2)
_F4 = ("int", 0, 15)
_CNT = ("int", 1, 16)
_SAME = ("id0 == id1 and e0 == e1 and gt0 == gt1 and gc0 == gc1 and bits0 == bits1 and "
         "(gi0, mi0) != (gi1, mi1)")


def _gen_set2(rng, tier):
    base = dict(bits0=128, id0=77, e0=1, gi0=0, gt0=2, gc0=3, mi0=0, bits1=128, id1=77, e1=1, gi1=1, gt1=2, gc1=3, mi1=0)
    yield dict(base)
    for k, v in (("id1", 78), ("e1", 0), ("gt1", 3), ("gc1", 4), ("bits1", 256), ("gi1", 0), ("mi1", 1)):
        yield dict(base, **{k: v})
    yield dict(base, gi1=0, mi1=1)
    while True:
        d = dict(base, id0=rng.getrandbits(15), e0=rng.randrange(32), gi0=rng.randrange(16), mi0=rng.randrange(16))
        gc = rng.randrange(1, 17)
        d.update(gc0=gc, gt0=rng.randrange(1, gc + 1), bits0=rng.choice((128, 256)))
        for a in ("id", "e", "gi", "gt", "gc", "mi", "bits"):
            d[a + "1"] = d[a + "0"]
        k = rng.choice(("id1", "e1", "gi1", "gt1", "gc1", "mi1", "bits1", "gi1", "gi1"))
        d[k] = {"id1": rng.getrandbits(15), "e1": rng.randrange(32), "gi1": rng.randrange(16), "mi1": rng.randrange(16),
                "gt1": rng.randrange(1, 17), "gc1": rng.randrange(1, 17), "bits1": rng.choice((128, 256))}[k]
        if d["gt1"] <= d["gc1"]:
            yield d


# shares of different splits (identifier, exponent, thresholds, length) or with a duplicate index are refused
contract("verif.harness.shamir.shareset_of2", props=("C15",), max_paths=4096, tiers=_SET_TIERS, note=_SET_NOTE,
         params={"bits0": ("choice", [128, 256]), "id0": ("int", 0, 2**15 - 1), "e0": ("int", 0, 31), "gi0": _F4, "gt0": _CNT,
                 "gc0": _CNT, "mi0": _F4,
                 "bits1": ("choice", [128, 256]), "id1": ("int", 0, 2**15 - 1), "e1": ("int", 0, 31), "gi1": _F4, "gt1": _CNT,
                 "gc1": _CNT, "mi1": _F4},
         requires=["gt0 <= gc0", "gt1 <= gc1"],
         ensures=["returns() == (%s)" % _SAME,
                  "implies(not returns(), raises(TypeError) or raises(ValueError))",
                  "implies(id0 != id1 or e0 != e1, raises(TypeError))"],
         gen=_gen_set2)


# ---------------------------------------------------------------------------------------- recover below threshold
def _gen_rec1(rng, tier):
    for gt in range(2, 17):
        for gc in (gt, 16):
            bits = rng.choice((128, 256))
            yield dict(bits=bits, id=rng.getrandbits(15), e=0, gi=rng.randrange(gc), gt=gt, gc=gc, value=rng.getrandbits(bits),
                       passphrase=b"x")


contract("verif.harness.shamir.recover_of1", props=("C15",),
         params={"bits": ("choice", [128, 256]), "id": ("int", 0, 2**15 - 1), "e": ("const", 0), "gi": _F4, "gt": ("int", 2, 16),
                 "gc": _CNT, "value": "nat", "passphrase": "bytes"},
         requires=["gt <= gc", "gi < gc", "value < 2**bits"],
         ensures=["raises(ValueError)", "not returns()"],
         gen=_gen_rec1)


def _gen_rec2(rng, tier):
    for gt in range(3, 17):
        for gc in (gt, 16):
            bits = rng.choice((128, 256))
            a, b = rng.sample(range(gc), 2)
            yield dict(bits=bits, id=rng.getrandbits(15), e=0, gt=gt, gc=gc, gi0=a, gi1=b, v0=rng.getrandbits(bits),
                       v1=rng.getrandbits(bits), passphrase=b"")


contract("verif.harness.shamir.recover_of2", props=("C15",), tiers=_SET_TIERS, note=_SET_NOTE,
         params={"bits": ("choice", [128, 256]), "id": ("int", 0, 2**15 - 1), "e": ("const", 0), "gt": ("int", 3, 16), "gc": _CNT,
                 "gi0": _F4, "gi1": _F4, "v0": "nat", "v1": "nat", "passphrase": "bytes"},
         requires=["gt <= gc", "gi0 < gc", "gi1 < gc", "gi0 != gi1", "v0 < 2**bits", "v1 < 2**bits"],
         ensures=["raises(ValueError)", "not returns()"],
         gen=_gen_rec2)


# ---------------------------------------------------------------------------------------- split_secret
def _gen_split_args(rng, tier):
    for k in (-1, 0, 1, 2, 16, 17):
        for n in (-1, 0, 1, 2, 16, 17):
            for ln in (0, 15, 16, 17, 31, 32, 33):
                yield {"secret": rand_bytes(rng, ln), "k": k, "n": n}


# refused exactly for 1 <= k <= n <= 16 violated or a secret that is not 128/256 bits (checked where the body
# does not reach the interpolation: invalid arguments or k == 1)
contract("buidl.shamir.ShareSet.split_secret#args", props=("C15",),
         params={"cls": ("const_cls", "buidl.shamir.ShareSet"), "secret": ("bytes", 0, 40), "k": ("int", -2, 20), "n": ("int", -2, 20)},
         requires=["not (2 <= k <= n <= 16 and len(secret) in (16, 32))"],
         raises={"ValueError": "not (1 <= k <= n <= 16 and len(secret) in (16, 32))"},
         gen=_gen_split_args)


def _gen_split_k1(rng, tier):
    for n in range(1, 17):
        for ln in (16, 32):
            yield {"secret": rand_bytes(rng, ln), "k": 1, "n": n}


# SLIP-39 SplitSecret step 2: "If T is 1, then let y_i = S for all i, 1 <= i <= N"  (N shares, all equal to S)
contract("buidl.shamir.ShareSet.split_secret#k1", props=("C15",),
         params={"cls": ("const_cls", "buidl.shamir.ShareSet"), "secret": "bytes:16", "k": ("const", 1), "n": ("int", 1, 16)},
         ensures=["returns()",
                  "len(result) == n", "b''.join([y for _, y in result]) == secret * len(result)",
                  "[x for x, _ in result] == list(range(len(result)))"],
         gen=_gen_split_k1)
# (the same clause through the spec function, concretely)
contract("buidl.shamir.ShareSet.split_secret#k1spec", props=("C15",), tiers=NO_SYMBOLIC,
         params={"cls": ("const_cls", "buidl.shamir.ShareSet"), "secret": "bytes", "k": ("const", 1), "n": ("int", 1, 16)},
         requires=["len(secret) in (16, 32)"],
         ensures=["returns()", "[(x, y) for x, y in result] == spec.slip39.split_secret(1, n, secret, b'', [])"],
         gen=_gen_split_k1)


# ---------------------------------------------------------------------------------------- GF(256) (C15.1, C15.2)
contract("verif.harness.shamir.gf_mul", props=("C15",), tiers=NO_SYMBOLIC,
         params={"a": ("int", 0, 255), "b": ("int", 0, 255)},
         ensures=["returns()", "result == spec.slip39.gf256_mul(a, b)"],
         gen=lambda rng, tier: ({"a": a, "b": b} for a in list(range(0, 256, 5)) + [255] for b in list(range(0, 256, 3)) + [255]),
         note="table look-ups with symbolic indices fork 256 ways each; decided exhaustively by table gf256_tables")


def _gen_interp(npts, ylen):
    def gen(rng, tier):
        while True:
            xs = rng.sample(range(16), npts) if rng.random() < 0.7 else rng.sample(list(range(14)) + [254, 255], npts)
            x = rng.choice([v for v in (254, 255, *range(16)) if v not in xs])
            d = {"x": x}
            for i, xi in enumerate(xs):
                d["x%d" % i] = xi
                d["y%d" % i] = rand_bytes(rng, ylen)
            yield d
    return gen


# interpolate == Lagrange value at x for x not among the (distinct) share x's
contract("verif.harness.shamir.interpolate2", props=("C15",), max_paths=300, timeout_ms=2000,
         params={"x": ("const", 255), "x0": ("const", 0), "y0": "bytes:1", "x1": ("const", 1), "y1": "bytes:1"},
         ensures=["returns()", "result == spec.slip39.interpolate(x, [(x0, y0), (x1, y1)])"],
         gen=_gen_interp(2, 16), tiers=NO_SYMBOLIC,
         note="65536 paths (256-way fork per symbolic table index, two symbolic bytes) exceed the path cap; the spec's "
              "memo tables use a `global` statement the engine refuses; decided by tables gf256_tables + interpolation_all_subsets")
contract("verif.harness.shamir.interpolate3", props=("C15",), tiers=NO_SYMBOLIC,
         params={"x": "byte", "x0": "byte", "y0": "bytes", "x1": "byte", "y1": "bytes", "x2": "byte", "y2": "bytes"},
         requires=["len({x, x0, x1, x2}) == 4", "len(y0) == len(y1) == len(y2)"],
         ensures=["returns()", "result == spec.slip39.interpolate(x, [(x0, y0), (x1, y1), (x2, y2)])"],
         gen=_gen_interp(3, 32), note="as interpolate2")


def _gen_interp_n(rng, tier):
    while True:
        k = rng.randrange(1, 17)
        xs = rng.sample(range(16), k)
        ln = rng.choice((1, 16, 32))
        yield {"x": rng.choice((254, 255)), "points": [(x, rand_bytes(rng, ln)) for x in xs]}
        if k >= 2:
            xs = list(range(k - 2)) + [254, 255]
            yield {"x": rng.randrange(k - 2, 16), "points": [(x, rand_bytes(rng, ln)) for x in xs]}


contract("verif.harness.shamir.interpolate", props=("C15",), tiers=NO_SYMBOLIC,
         params={"x": "byte", "points": "list of (x_i, bytes)"},
         requires=["x not in [p[0] for p in points]", "len({p[0] for p in points}) == len(points)"],
         ensures=["returns()", "result == spec.slip39.interpolate(x, points)"],
         gen=_gen_interp_n, note="as interpolate2")


# ---------------------------------------------------------------------------------------- encryption (C15.3)
def _gen_crypt(rng, tier):
    pws = [b"", b"TREZOR", b"x" * 70, bytes(range(32, 127))]
    exps = (0, 0, 0, 1) if tier == "quick" else (0, 1, 2, 3)
    k = 0
    for ln in (16, 32):
        for p in (bytes(ln), b"\xff" * ln, b"\xaa" * ln):
            yield {"payload": p, "id": (0, 32767, 12345)[k % 3], "exponent": exps[k % 4], "passphrase": pws[k % 4]}
            k += 1
    while True:
        ln = rng.choice((16, 32, 2, 18, 64))
        yield {"payload": rand_bytes(rng, ln), "id": rng.getrandbits(15), "exponent": rng.choice(exps),
               "passphrase": rand_bytes(rng, rng.randrange(0, 40))}


_CR = {"payload": ("bytes", 2, 64), "id": ("int", 0, 2**15 - 1), "exponent": ("int", 0, 3), "passphrase": "bytes"}
contract("verif.harness.shamir.encrypt", props=("C15",), tiers=NO_SYMBOLIC, params=_CR, requires=["len(payload) % 2 == 0"],
         ensures=["returns()", "result == spec.slip39.encrypt(payload, id, exponent, passphrase)", "len(result) == len(payload)"],
         gen=_gen_crypt, note="Feistel rounds: PBKDF2 applied to XOR-ed halves; engine returns spurious counter-models (no "
                              "XOR cancellation under the uninterpreted PBKDF2 argument); run concretely only")
contract("verif.harness.shamir.decrypt", props=("C15",), tiers=NO_SYMBOLIC, params=_CR, requires=["len(payload) % 2 == 0"],
         ensures=["returns()", "result == spec.slip39.decrypt(payload, id, exponent, passphrase)"],
         gen=_gen_crypt, note="as encrypt")
contract("verif.harness.shamir.crypt_roundtrip", props=("C15",), tiers=NO_SYMBOLIC, params=_CR, requires=["len(payload) % 2 == 0"],
         ensures=["returns()", "result == payload"], gen=_gen_crypt,
         note="symbolic run (payload bytes:2, exponent 0) returned a counter-model that does not replay on the real code "
              "(spurious); deductive job disabled so that no false VIOLATION is printed")
contract("verif.harness.shamir.crypt_roundtrip_rev", props=("C15",), tiers=NO_SYMBOLIC, params=_CR, requires=["len(payload) % 2 == 0"],
         ensures=["returns()", "result == payload"], gen=_gen_crypt, note="as crypt_roundtrip")
contract("buidl.shamir.ShareSet._crypt#odd", props=("C15",),
         params={"cls": ("const_cls", "buidl.shamir.ShareSet"), "payload": ("bytes", 0, 9), "id": ("int", 0, 2**15 - 1),
                 "exponent": ("const", 0), "passphrase": "bytes", "indices": ("const", ())},
         ensures=["raises(ValueError) == (len(payload) % 2 == 1)",
                  "implies(returns(), result == payload[len(payload) // 2:] + payload[:len(payload) // 2])"],
         gen=lambda rng, tier: ({"payload": rand_bytes(rng, n), "id": 5, "passphrase": b"", "exponent": 0, "indices": ()} for n in range(10)))


# ---------------------------------------------------------------------------------------- share <-> words (C15.4)
def _rand_share(rng, bits=None):
    bits = bits or rng.choice((128, 256))
    gc = rng.randrange(1, 17)
    return dict(share_bit_length=bits, id=rng.getrandbits(15), exponent=rng.randrange(32), group_index=rng.randrange(16),
                group_threshold=rng.randrange(1, gc + 1), group_count=gc, member_index=rng.randrange(16),
                member_threshold=rng.randrange(1, 17), value=rng.getrandbits(bits))


def _gen_share(rng, tier):
    for bits in (128, 256):
        for v in (0, 2**bits - 1, 1 << (bits - 1), 1):
            yield dict(share_bit_length=bits, id=(0, 32767)[v & 1], exponent=(0, 31)[v & 1], group_index=(0, 15)[v & 1],
                       group_threshold=(1, 16)[v & 1], group_count=16, member_index=(0, 15)[v & 1],
                       member_threshold=(1, 16)[v & 1], value=v)
    while True:
        yield _rand_share(rng)


contract("verif.harness.shamir.share_indices", props=("C15",), tiers=NO_SYMBOLIC,
         params={"share_bit_length": ("choice", [128, 256]), "id": ("int", 0, 2**15 - 1), "exponent": ("int", 0, 31),
                 "group_index": _F4, "group_threshold": _CNT, "group_count": _CNT, "member_index": _F4,
                 "member_threshold": _CNT, "value": "nat"},
         requires=["group_threshold <= group_count", "value < 2**share_bit_length"],
         ensures=["returns()",
                  "result == spec.slip39.share_indices(id, exponent, group_index, group_threshold, group_count, member_index, "
                  "member_threshold, spec.be(value, share_bit_length // 8))",
                  "len(result) == (20 if share_bit_length == 128 else 33)"],
         gen=_gen_share, note="symbolic strings (word lookup and join)")


def _gen_parse(rng, tier):
    import verif.specs as s
    S = s.slip39
    while True:
        d = _rand_share(rng)
        idx = S.share_indices(d["id"], d["exponent"], d["group_index"], d["group_threshold"], d["group_count"],
                              d["member_index"], d["member_threshold"], d["value"].to_bytes(d["share_bit_length"] // 8, "big"))
        mode = rng.randrange(8)
        if mode == 1:          # substituted word
            j = rng.randrange(len(idx))
            idx[j] = (idx[j] + 1 + rng.randrange(1023)) % 1024
        elif mode == 2:        # non-zero padding with a valid checksum
            data = idx[:-3]
            data[4] |= 512 >> rng.randrange(2 if d["share_bit_length"] == 128 else 4)
            idx = data + S.rs1024_checksum(data)
        elif mode == 3:        # other lengths with a valid checksum (value words 12..28)
            vw = rng.choice((10, 12, 13, 14, 15, 16, 20, 25, 27))
            data = idx[:4] + [0 if k == 0 else rng.getrandbits(10) for k in range(vw)]
            if rng.random() < 0.5:
                data[4] = rng.getrandbits(10)
            idx = data + S.rs1024_checksum(data)
        elif mode == 4:        # group threshold above group count, valid checksum
            data = idx[:-3]
            h = S.share_indices(d["id"], d["exponent"], d["group_index"], 5, 3, d["member_index"], d["member_threshold"], bytes(16))[:4]
            idx = h + data[4:]
            idx = idx + S.rs1024_checksum(idx)
        yield {"idx": idx}


# Share.parse accepts exactly the mnemonics the SLIP-39 text accepts, and returns their fields
contract("verif.harness.shamir.parse_indices", props=("C15",), tiers=NO_SYMBOLIC,
         params={"idx": "list of 10-bit ints"},
         requires=["all(0 <= i < 1024 for i in idx)"],
         ensures=["returns() == isinstance(spec.slip39.parse_indices(idx), dict)",
                  "implies(returns(), {k: v for k, v in result.items() if k != 'share_bit_length'} == spec.slip39.parse_indices(idx))",
                  "implies(returns(), result['share_bit_length'] == 8 * len(result['value']))"],
         gen=_gen_parse, note="symbolic strings")
contract("verif.harness.shamir.reencode", props=("C15",), tiers=NO_SYMBOLIC,
         params={"idx": "list of 10-bit ints"},
         requires=["all(0 <= i < 1024 for i in idx)"],
         ensures=["implies(returns(), result == idx)"],
         gen=_gen_parse, note="symbolic strings")


# EVERY list length: the loop of rs1024_polymod cut by the invariant "chk is the recursively defined RS1024 register after
# _k symbols" (spec.slip39.rs1024_rec); body verified once for an arbitrary 30-bit register and an arbitrary 10-bit symbol.
# Thorough tier only: 4110 obligations, about 25 minutes of z3 stand-alone (the ten conditional xors per symbol split the
# body into many paths); in the quick tier the contract runs concretely in the bounded companion.
from verif.pyvc import symlist as _symlist
contract("buidl.shamir.rs1024_polymod#anylen", props=("C15",), bv=40, tiers=("thorough",),
         params={"values": _symlist.symvalues("v10", ("int", 0, 1023), max_len=2**24)},
         ensures=["returns()", "result == spec.slip39.rs1024_rec(values, len(values))", "0 <= result < 2**30"],
         invariants={1: {"inv": ["chk == spec.slip39.rs1024_rec(values, _k)", "0 <= chk < 2**30"],
                         "types": {"chk": ("int", 0, 2**30 - 1)}}},
         gen=lambda rng, tier: ({"values": [rng.randrange(1024) for _ in range(n)]} for n in list(range(0, 40)) + [59, 200, 1000]))
