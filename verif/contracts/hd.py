"""C08: BIP32 derivation, path folding, 78-byte extended-key codec with SLIP-132 versions, xpub blinding
(buidl/hd.py, buidl/blinding.py).  Symbolic contracts run in the discrete-log theory (nl_uf=True):
secrets are scalars mod N, public keys are pt(a), HMAC-SHA512 / HASH160 are uninterpreted functions."""
from .common import *  # noqa
from .ecc import point, N

SECRET = ("int", 1, N - 1)
CC = "bytes:32"
FP = "bytes:4"
DEPTH = ("int", 0, 255)
NUM = ("int", 0, 2**32 - 1)
H = 2**31
IDX = [0, 1, 2, H - 2, H - 1, H, H + 1, 2**32 - 2, 2**32 - 1]
KS = [1, 2, N - 1, N - 2, 2**128 + 7, 2**255 + 99]
NETWORKS = ["mainnet", "testnet", "signet", "regtest"]


def _node_gen(rng, tier, extra):
    """boundary secrets x chain codes x depth/child-number boundaries, then seeded random nodes"""
    ccs = [bytes(32), b"\xff" * 32]
    for k in KS:
        for c in ccs + [rand_bytes(rng, 32)]:
            yield {"k": k, "c": c, "depth": rng.choice([0, 1, 254, 255]), "fp": rng.choice([bytes(4), b"\xff" * 4, rand_bytes(rng, 4)]),
                   "num": rng.choice([0, 1, H - 1, H, 2**32 - 1])}
    while True:
        yield {"k": rng.randrange(1, N), "c": rand_bytes(rng, 32), "depth": rng.randrange(0, 256), "fp": rand_bytes(rng, 4),
               "num": rng.getrandbits(32)}


def _with_index(names=("i",), lo=0, hi=2**32 - 1, also=()):
    def gen(rng, tier):
        idx = [v for v in IDX + list(also) if lo <= v <= hi or v in also]
        nodes = _node_gen(rng, tier, None)
        n = 0
        while True:
            node = next(nodes)
            if n < 4 * len(idx):
                vals = [idx[(n + 3 * j) % len(idx)] for j in range(len(names))]
            else:
                vals = [rng.choice(idx) if rng.random() < 0.3 else rng.randrange(lo, hi + 1) for _ in names]
            n += 1
            d = dict(node)
            d.update(dict(zip(names, vals)))
            yield d
    return gen


def _pubnode(gen):
    def g(rng, tier):
        for d in gen(rng, tier):
            d = dict(d)
            d["K"] = {"__point__": d.pop("k")}
            yield d
    return g


# ---------------------------------------------------------------------------- master key
def _gen_seed(rng, tier):
    for n in (16, 32, 64, 17, 63):
        for fill in (b"\x00", b"\xff"):
            for net in NETWORKS:
                yield {"seed": fill * n, "network": net}
    for s in ("000102030405060708090a0b0c0d0e0f",
              "fffcf9f6f3f0edeae7e4e1dedbd8d5d2cfccc9c6c3c0bdbab7b4b1aeaba8a5a29f9c999693908d8a8784817e7b7875726f6c696663605d5a5754514e4b484542"):
        yield {"seed": bytes.fromhex(s), "network": "mainnet"}
    while True:
        yield {"seed": rand_bytes(rng, rng.choice([16, 24, 32, 48, 64, rng.randrange(16, 65)])), "network": rng.choice(NETWORKS)}


contract("verif.harness.hd.from_seed", props=("C08",), nl_uf=True,
         params={"seed": ("bytes", 16, 64), "network": ("choice", NETWORKS)},
         requires=["spec.hd.master_defined(seed)"],
         ensures=["returns()",
                  "result[0] == spec.hd.master(seed)[0]", "result[1] == spec.hd.master(seed)[1]",
                  "result[2] == 0 and result[3] == bytes(4) and result[4] == 0",
                  "spec.curve.same(result[5], spec.curve.mul_G(spec.hd.master(seed)[0]))",
                  "result[6] == result[1] and result[7] == 0 and result[8] == bytes(4) and result[9] == 0",
                  "result[10] == network",
                  "result[11] == spec.hd.version_prv('x' if network == 'mainnet' else 't')",
                  "result[12] == spec.hd.version_pub('x' if network == 'mainnet' else 't')"],
         gen=_gen_seed)

# ---------------------------------------------------------------------------- CKDpriv / CKDpub
_PRIV_PARAMS = {"k": SECRET, "c": CC, "depth": DEPTH, "fp": FP, "num": NUM}
_PUB_PARAMS = {"K": point, "c": CC, "depth": DEPTH, "fp": FP, "num": NUM}

_CHILD_PRIV = ["implies(returns(), result[0] == spec.hd.ckd_priv((k, c), i)[0])",
               "implies(returns(), result[1] == spec.hd.ckd_priv((k, c), i)[1])",
               "implies(returns(), result[2] == depth + 1)",
               "implies(returns(), result[3] == spec.hd.fingerprint_priv(k))",
               "implies(returns(), result[4] == i)",
               # the public twin of the child
               "implies(returns(), spec.curve.same(result[5], spec.curve.mul_G(spec.hd.ckd_priv((k, c), i)[0])))",
               "implies(returns(), result[6] == result[1] and result[7] == result[2] and result[8] == result[3] and result[9] == result[4])"]

contract("verif.harness.hd.priv_child#normal", props=("C08",), nl_uf=True,
         params=dict(_PRIV_PARAMS, i=("int", 0, H - 1)),
         requires=["spec.hd.ckd_priv_defined((k, c), i)"],
         ensures=["returns()"] + _CHILD_PRIV,
         gen=_with_index(lo=0, hi=H - 1))

contract("verif.harness.hd.priv_child#hardened", props=("C08",), nl_uf=True,
         params=dict(_PRIV_PARAMS, i=("int", H, 2**32 - 1)),
         requires=["spec.hd.ckd_priv_defined((k, c), i)"],
         ensures=["returns()"] + _CHILD_PRIV,
         gen=_with_index(lo=H, hi=2**32 - 1))

contract("verif.harness.hd.priv_child#range", props=("C08",), nl_uf=True,
         params=dict(_PRIV_PARAMS, i="int"),
         requires=["i < 0 or i >= 2**32 or spec.hd.ckd_priv_defined((k, c), i)"],
         raises={"ValueError": "i < 0", "OverflowError": "i >= 2**32"},
         ensures=[],
         gen=_with_index(lo=-5, hi=2**32 + 5, also=(-1, -2**31, 2**32, 2**32 + 1, 2**33)))

_CHILD_PUB = ["implies(returns(), spec.curve.same(result[0], spec.hd.ckd_pub((K, c), i)[0]))",
              "implies(returns(), result[1] == spec.hd.ckd_pub((K, c), i)[1])",
              "implies(returns(), result[2] == depth + 1)",
              "implies(returns(), result[3] == spec.hd.fingerprint(K))",
              "implies(returns(), result[4] == i)"]

contract("verif.harness.hd.pub_child#normal", props=("C08",), nl_uf=True,
         params=dict(_PUB_PARAMS, i=("int", 0, H - 1)),
         requires=["spec.hd.ckd_pub_defined((K, c), i)"],
         ensures=["returns()"] + _CHILD_PUB,
         gen=_pubnode(_with_index(lo=0, hi=H - 1)))

contract("verif.harness.hd.pub_child#hardened", props=("C08",), nl_uf=True,
         params=dict(_PUB_PARAMS, i="int"),
         requires=["i < 0 or i >= 2**31"],
         ensures=["raises(ValueError)", "i < 0 or spec.hd.ckd_pub((K, c), i) is None"],
         gen=_pubnode(_with_index(lo=H, hi=2**32 + 5, also=(-1, -H, 2**32, 2**33))))

# ---------------------------------------------------------------------------- public / private consistency
_SAME10 = ["spec.curve.same(result[0], result[5])", "result[1] == result[6]", "result[2] == result[7]",
           "result[3] == result[8]", "result[4] == result[9]"]

contract("verif.harness.hd.consistency", props=("C08",), nl_uf=True,
         params=dict(_PRIV_PARAMS, i=("int", 0, H - 1)),
         requires=["spec.hd.ckd_priv_defined((k, c), i)"],
         ensures=["returns()"] + _SAME10 + ["result[10] is True", "result[11] is True", "result[12] is True",
                                            "result[2] == depth + 1 and result[4] == i"],
         gen=_with_index(lo=0, hi=H - 1))

# ---------------------------------------------------------------------------- two steps (composition)
_TWO = "spec.hd.derive_priv((k, c), [i, j], depth, fp, num)"
contract("verif.harness.hd.priv_child2", props=("C08",), nl_uf=True,
         params=dict(_PRIV_PARAMS, depth=("int", 0, 254), i=NUM, j=NUM),
         requires=[_TWO + " is not None"],
         ensures=["returns()", "result[0] == %s[0]" % _TWO, "result[1] == %s[1]" % _TWO, "result[2] == depth + 2",
                  "result[3] == %s[3]" % _TWO, "result[4] == j",
                  "result[3] == spec.hd.fingerprint_priv(spec.hd.ckd_priv((k, c), i)[0])",
                  "spec.curve.same(result[5], spec.curve.mul_G(%s[0]))" % _TWO],
         gen=_with_index(names=("i", "j")), tiers=("thorough",))

_TWOP = "spec.hd.derive_pub((K, c), [i, j], depth, fp, num)"
contract("verif.harness.hd.pub_child2", props=("C08",), nl_uf=True,
         params=dict(_PUB_PARAMS, depth=("int", 0, 254), i=("int", 0, H - 1), j=("int", 0, H - 1)),
         requires=[_TWOP + " is not None"],
         ensures=["returns()", "spec.curve.same(result[0], %s[0])" % _TWOP, "result[1] == %s[1]" % _TWOP, "result[2] == depth + 2",
                  "result[3] == %s[3]" % _TWOP, "result[4] == j"],
         gen=_pubnode(_with_index(names=("i", "j"), lo=0, hi=H - 1)), tiers=("thorough",))

contract("verif.harness.hd.consistency2", props=("C08",), nl_uf=True,
         params=dict(_PRIV_PARAMS, depth=("int", 0, 254), i=("int", 0, H - 1), j=("int", 0, H - 1)),
         requires=[_TWO + " is not None"],
         ensures=["returns()"] + _SAME10,
         gen=_with_index(names=("i", "j"), lo=0, hi=H - 1), tiers=("thorough",))

# ---------------------------------------------------------------------------- fingerprints
contract("verif.harness.hd.fingerprint_pub", props=("C08",), nl_uf=True, params={"K": point},
         ensures=["returns()", "result == spec.hd.fingerprint(K)", "len(result) == 4"],
         gen=lambda rng, tier: ({"K": {"__point__": d}} for d in KS + [rng.randrange(1, N) for _ in range(40)]))
contract("verif.harness.hd.fingerprint_priv", props=("C08",), nl_uf=True, params={"k": SECRET},
         ensures=["returns()", "result == spec.hd.fingerprint_priv(k)", "len(result) == 4"],
         gen=lambda rng, tier: ({"k": d} for d in KS + [rng.randrange(1, N) for _ in range(40)]))

# lemma about the spec itself: the one-term form used for the hardened HMAC input is 0x00 || ser256(k)
contract("verif.specs.hd.ser_hardened_key", props=("C08",), params={"k": ("int", 0, 2**256 - 1)},
         ensures=["returns()", "result == bytes(1) + spec.hd.ser256(k)", "len(result) == 33"],
         gen=lambda rng, tier: ({"k": v} for v in [0, 1, N - 1, N, 2**256 - 1, 2**248, 2**248 - 1] + [rng.getrandbits(256) for _ in range(30)]))


# ---------------------------------------------------------------------------- 78-byte serialisation
def _gen_priv_raw(rng, tier):
    vers = [bytes.fromhex(v) for pair in __import__("verif.specs", fromlist=["hd"]).hd.SLIP132.values() for v in pair]
    n = 0
    for node in _node_gen(rng, tier, None):
        d = dict(node)
        d["version"] = vers[n % len(vers)] if n < 60 else rand_bytes(rng, 4)
        if n % 7 == 3:
            d["depth"] = rng.choice([-1, 256, 0, 255, 1000])
        if n % 11 == 5:
            d["num"] = rng.choice([-1, 2**32, 2**32 - 1, 0, 2**40])
        n += 1
        yield d


contract("verif.harness.hd.priv_raw", props=("C08",), nl_uf=True,
         params=dict(_PRIV_PARAMS, depth="int", num="int", version="bytes:4"),
         raises={"ValueError": "depth < 0 or depth > 255",
                 "OverflowError": "0 <= depth <= 255 and (num < 0 or num >= 2**32)"},
         ensures=["implies(returns(), result == spec.hd.xprv_ser(version, depth, fp, num, c, k))",
                  "implies(returns(), len(result) == 78)"],
         gen=_gen_priv_raw)


def _gen_pub_raw(rng, tier):
    for d in _gen_priv_raw(rng, tier):
        d = dict(d)
        d["K"] = {"__point__": d.pop("k")}
        d["pub_version"] = d.pop("version")
        d["network"] = rng.choice(NETWORKS)
        yield d


contract("verif.harness.hd.pub_raw", props=("C08",), nl_uf=True,
         params=dict(_PUB_PARAMS, depth="int", num="int", network=("choice", NETWORKS), pub_version="bytes:4"),
         raises={"ValueError": "depth < 0 or depth > 255",
                 "OverflowError": "0 <= depth <= 255 and (num < 0 or num >= 2**32)"},
         ensures=["implies(returns(), result[0] == spec.hd.xpub_ser(spec.hd.version_pub('x' if network == 'mainnet' else 't'), depth, fp, num, c, K))",
                  "implies(returns(), result[1] == result[0])",       # memoised second call
                  "implies(returns(), result[2] == spec.hd.xpub_ser(pub_version, depth, fp, num, c, K))",
                  "implies(returns(), len(result[0]) == 78 and len(result[2]) == 78)"],
         gen=_gen_pub_raw)


def _valid_raws(rng, private):
    """well-formed payloads for every version, then the BIP32 test-vector-5 style malformed ones"""
    import verif.specs as s
    Hs = s.hd
    vers = Hs.ALL_PRV_VERSIONS if private else Hs.ALL_PUB_VERSIONS
    other = Hs.ALL_PUB_VERSIONS if private else Hs.ALL_PRV_VERSIONS
    out = []
    for v in vers:
        for depth in (0, 1, 255):
            k = rng.choice(KS + [rng.randrange(1, N)])
            fp = bytes(4) if depth == 0 else rand_bytes(rng, 4)
            num = 0 if depth == 0 else rng.choice([0, 1, H - 1, H, 2**32 - 1])
            cc = rand_bytes(rng, 32)
            key = (b"\x00" + k.to_bytes(32, "big")) if private else Hs.serP(s.curve.mul_G(k))
            out.append(Hs.xkey_ser(v, depth, fp, num, cc, key))
    good = out[0]
    good1 = out[1]
    bad = [other[0] + good[4:],                                   # version of the other kind
           bytes(4) + good[4:], b"\x04\x88\xb2\x1f" + good[4:],   # unknown versions
           good[:5] + b"\x01\x02\x03\x04" + good[9:],             # depth 0, parent fingerprint != 0
           good[:9] + b"\x00\x00\x00\x01" + good[13:],            # depth 0, child number != 0
           good[:12] + b"\x80" + good[13:],
           good1[:45] + b"\x04" + good1[46:], good1[:45] + b"\x01" + good1[46:], good1[:45] + b"\x05" + good1[46:],
           good1[:45] + (b"\x02" if private else b"\x00") + good1[46:],
           good1[:45] + (b"\x00" + bytes(32) if private else b"\x02" + bytes(31) + b"\x07"),   # key 0 / x = 7 is not on the curve
           good1[:45] + (b"\x00" + N.to_bytes(32, "big") if private else b"\x02" + s.curve.P.to_bytes(32, "big")),
           good1[:45] + (b"\x00" + b"\xff" * 32 if private else b"\x03" + b"\xff" * 32),
           good1[:45] + (b"\x00" + (N - 1).to_bytes(32, "big") if private else b"\x03" + bytes(31) + b"\x01")]
    return out, bad


def _gen_raw_parse(private):
    def gen(rng, tier):
        good, bad = _valid_raws(rng, private)
        for r in bad + good:
            yield {"raw": r}
        while True:
            good, bad = _valid_raws(rng, private)
            r = bytearray(rng.choice(good))
            if rng.random() < 0.5:
                r[rng.randrange(78)] = rng.getrandbits(8)
            yield {"raw": bytes(r)}
    return gen


_PARSE_FIELDS = ["implies(returns(), result[0] == raw[0:4] and result[1] == raw[4] and result[2] == raw[5:9] and "
                 "result[3] == int.from_bytes(raw[9:13], 'big') and result[4] == raw[13:45])"]

contract("verif.harness.hd.priv_raw_parse", props=("C08",), nl_uf=True, params={"raw": "bytes:78"},
         ensures=["implies(returns(), spec.hd.xkey_reject_reason(raw) is None)",                      # accepts only well-formed keys
                  "implies(spec.hd.xkey_reject_reason(raw) is None and spec.hd.version_info(raw[0:4])[1] == 'prv', returns())",
                  "implies(returns(), spec.hd.version_info(raw[0:4])[1] == 'prv')"] + _PARSE_FIELDS +
                 ["implies(returns(), raw[45] == 0 and result[5] == int.from_bytes(raw[46:78], 'big'))",
                  "implies(returns(), result[6] == spec.hd.version_info(raw[0:4])[2])",
                  "implies(returns(), result[7] == spec.hd.version_pub('x' if result[6] == 'mainnet' else 't'))"],
         gen=_gen_raw_parse(True))

contract("verif.harness.hd.pub_raw_parse", props=("C08",), nl_uf=True, params={"raw": "bytes:78"},
         ensures=["implies(returns(), spec.hd.xkey_reject_reason(raw) is None)",
                  "implies(spec.hd.xkey_reject_reason(raw) is None and spec.hd.version_info(raw[0:4])[1] == 'pub', returns())",
                  "implies(returns(), spec.hd.version_info(raw[0:4])[1] == 'pub')"] + _PARSE_FIELDS +
                 ["implies(returns(), spec.hd.serP(result[5]) == raw[45:78])",
                  "implies(returns(), result[6] == spec.hd.version_info(raw[0:4])[2])"],
         gen=_gen_raw_parse(False))

# round trips with symbolic fields: every version of the SLIP-132 table
_PRV_VERS = [bytes.fromhex(v) for v in ("0488ade4", "049d7878", "04b2430c", "0295b005", "02aa7a99",
                                        "04358394", "044a4e28", "045f18bc", "024285b5", "02575048")]
_PUB_VERS = [bytes.fromhex(v) for v in ("0488b21e", "049d7cb2", "04b24746", "0295b43f", "02aa7ed3",
                                        "043587cf", "044a5262", "045f1cf6", "024289ef", "02575483")]


def _gen_rt(vers, pub):
    def gen(rng, tier):
        n = 0
        for node in _node_gen(rng, tier, None):
            d = dict(node)
            d["version"] = vers[n % len(vers)]
            n += 1
            if pub:
                d["K"] = {"__point__": d.pop("k")}
            yield d
    return gen


contract("verif.harness.hd.priv_raw_roundtrip", props=("C08",), nl_uf=True,
         params=dict(_PRIV_PARAMS, version=("choice", _PRV_VERS)),
         ensures=["returns()", "result[0] is True",
                  "result[1] == k and result[2] == c and result[3] == depth and result[4] == fp and result[5] == num",
                  "spec.curve.same(result[6], spec.curve.mul_G(k)) and result[7] == c and result[8] == depth and result[9] == fp and result[10] == num",
                  "result[11] == version", "result[12] == spec.hd.version_info(version)[2]"],
         gen=_gen_rt(_PRV_VERS, False))

contract("verif.harness.hd.pub_raw_roundtrip", props=("C08",), nl_uf=True,
         params=dict(_PUB_PARAMS, version=("choice", _PUB_VERS)),
         ensures=["returns()", "result[0] is True",
                  "spec.curve.same(result[1], K) and result[2] == c and result[3] == depth and result[4] == fp and result[5] == num",
                  "result[6] == version", "result[7] == spec.hd.version_info(version)[2]"],
         gen=_gen_rt(_PUB_VERS, True))
