"""C08: BIP32 derivation, path folding, 78-byte extended-key codec with SLIP-132 versions, xpub blinding
(buidl/hd.py, buidl/blinding.py).  Symbolic contracts run in the discrete-log theory (nl_uf=True):
secrets are scalars mod N, public keys are pt(a), HMAC-SHA512 / HASH160 are uninterpreted functions."""
from .common import *  # noqa
from .common import contract as _contract
from .ecc import point, N


def contract(name, **kw):
    """deductive jobs of this file run next to a dozen CPU-bound bounded jobs: a generous per-query limit keeps a starved
    solver call from being reported as `undecided` (proved obligations cost the same)"""
    kw.setdefault("timeout_ms", 40000)
    return _contract(name, **kw)


SECRET = ("int", 1, N - 1)
CC = "bytes:32"
FP = "bytes:4"
DEPTH = ("int", 0, 255)
NUM = ("int", 0, 2**32 - 1)
H = 2**31
IDX = [0, 1, 2, H - 2, H - 1, H, H + 1, 2**32 - 2, 2**32 - 1]
KS = [1, 2, N - 1, N - 2, 2**128 + 7, 2**255 + 99]
NETWORKS = ["mainnet", "testnet", "signet", "regtest"]


def _node_gen(rng, tier, extra):
    """boundary secrets x chain codes x depth/child-number boundaries, then seeded random nodes"""
    ccs = [bytes(32), b"\xff" * 32]
    for k in KS:
        for c in ccs + [rand_bytes(rng, 32)]:
            yield {"k": k, "c": c, "depth": rng.choice([0, 1, 254, 255]), "fp": rng.choice([bytes(4), b"\xff" * 4, rand_bytes(rng, 4)]),
                   "num": rng.choice([0, 1, H - 1, H, 2**32 - 1])}
    while True:
        yield {"k": rng.randrange(1, N), "c": rand_bytes(rng, 32), "depth": rng.randrange(0, 256), "fp": rand_bytes(rng, 4),
               "num": rng.getrandbits(32)}


def _with_index(names=("i",), lo=0, hi=2**32 - 1, also=()):
    def gen(rng, tier):
        idx = [v for v in IDX + list(also) if lo <= v <= hi or v in also]
        nodes = _node_gen(rng, tier, None)
        n = 0
        while True:
            node = next(nodes)
            if n < 4 * len(idx):
                vals = [idx[(n + 3 * j) % len(idx)] for j in range(len(names))]
            else:
                vals = [rng.choice(idx) if rng.random() < 0.3 else rng.randrange(lo, hi + 1) for _ in names]
            n += 1
            d = dict(node)
            d.update(dict(zip(names, vals)))
            yield d
    return gen


def _pubnode(gen):
    def g(rng, tier):
        for d in gen(rng, tier):
            d = dict(d)
            d["K"] = {"__point__": d.pop("k")}
            yield d
    return g


# ---------------------------------------------------------------------------- master key
def _gen_seed(rng, tier):
    for n in (16, 32, 64, 17, 63):
        for fill in (b"\x00", b"\xff"):
            for net in NETWORKS:
                yield {"seed": fill * n, "network": net}
    for s in ("000102030405060708090a0b0c0d0e0f",
              "fffcf9f6f3f0edeae7e4e1dedbd8d5d2cfccc9c6c3c0bdbab7b4b1aeaba8a5a29f9c999693908d8a8784817e7b7875726f6c696663605d5a5754514e4b484542"):
        yield {"seed": bytes.fromhex(s), "network": "mainnet"}
    while True:
        yield {"seed": rand_bytes(rng, rng.choice([16, 24, 32, 48, 64, rng.randrange(16, 65)])), "network": rng.choice(NETWORKS)}


contract("verif.harness.hd.from_seed", props=("C08",), nl_uf=True,
         params={"seed": ("bytes", 16, 64), "network": ("choice", NETWORKS)},
         requires=["spec.hd.master_defined(seed)"],
         ensures=["returns()",
                  "result[0] == spec.hd.master(seed)[0]", "result[1] == spec.hd.master(seed)[1]",
                  "result[2] == 0 and result[3] == bytes(4) and result[4] == 0",
                  "spec.curve.same(result[5], spec.curve.mul_G(spec.hd.master(seed)[0]))",
                  "result[6] == result[1] and result[7] == 0 and result[8] == bytes(4) and result[9] == 0",
                  "result[10] == network",
                  "result[11] == spec.hd.version_prv('x' if network == 'mainnet' else 't')",
                  "result[12] == spec.hd.version_pub('x' if network == 'mainnet' else 't')"],
         gen=_gen_seed)

# ---------------------------------------------------------------------------- CKDpriv / CKDpub
_PRIV_PARAMS = {"k": SECRET, "c": CC, "depth": DEPTH, "fp": FP, "num": NUM}
_PUB_PARAMS = {"K": point, "c": CC, "depth": DEPTH, "fp": FP, "num": NUM}

_CHILD_PRIV = ["implies(returns(), result[0] == spec.hd.ckd_priv((k, c), i)[0])",
               "implies(returns(), result[1] == spec.hd.ckd_priv((k, c), i)[1])",
               "implies(returns(), result[2] == depth + 1)",
               "implies(returns(), result[3] == spec.hd.fingerprint_priv(k))",
               "implies(returns(), result[4] == i)",
               # the public twin of the child
               "implies(returns(), spec.curve.same(result[5], spec.curve.mul_G(spec.hd.ckd_priv((k, c), i)[0])))",
               "implies(returns(), result[6] == result[1] and result[7] == result[2] and result[8] == result[3] and result[9] == result[4])"]

contract("verif.harness.hd.priv_child#normal", props=("C08",), nl_uf=True,
         params=dict(_PRIV_PARAMS, i=("int", 0, H - 1)),
         requires=["spec.hd.ckd_priv_defined((k, c), i)"],
         ensures=["returns()"] + _CHILD_PRIV,
         gen=_with_index(lo=0, hi=H - 1))

contract("verif.harness.hd.priv_child#hardened", props=("C08",), nl_uf=True,
         params=dict(_PRIV_PARAMS, i=("int", H, 2**32 - 1)),
         requires=["spec.hd.ckd_priv_defined((k, c), i)"],
         ensures=["returns()"] + _CHILD_PRIV,
         gen=_with_index(lo=H, hi=2**32 - 1))

contract("verif.harness.hd.priv_child#range", props=("C08",), nl_uf=True,
         params=dict(_PRIV_PARAMS, i="int"),
         requires=["i < 0 or i >= 2**32 or spec.hd.ckd_priv_defined((k, c), i)"],
         raises={"ValueError": "i < 0", "OverflowError": "i >= 2**32"},
         ensures=[],
         gen=_with_index(lo=-5, hi=2**32 + 5, also=(-1, -2**31, 2**32, 2**32 + 1, 2**33)))

_CHILD_PUB = ["implies(returns(), spec.curve.same(result[0], spec.hd.ckd_pub((K, c), i)[0]))",
              "implies(returns(), result[1] == spec.hd.ckd_pub((K, c), i)[1])",
              "implies(returns(), result[2] == depth + 1)",
              "implies(returns(), result[3] == spec.hd.fingerprint(K))",
              "implies(returns(), result[4] == i)"]

contract("verif.harness.hd.pub_child#normal", props=("C08",), nl_uf=True,
         params=dict(_PUB_PARAMS, i=("int", 0, H - 1)),
         requires=["spec.hd.ckd_pub_defined((K, c), i)"],
         ensures=["returns()"] + _CHILD_PUB,
         gen=_pubnode(_with_index(lo=0, hi=H - 1)))

contract("verif.harness.hd.pub_child#hardened", props=("C08",), nl_uf=True,
         params=dict(_PUB_PARAMS, i="int"),
         requires=["i < 0 or i >= 2**31"],
         ensures=["raises(ValueError)", "i < 0 or spec.hd.ckd_pub((K, c), i) is None"],
         gen=_pubnode(_with_index(lo=H, hi=2**32 + 5, also=(-1, -H, 2**32, 2**33))))

# ---------------------------------------------------------------------------- history: memoised serialisation (HDPublicKey._raw)
# the parent has been serialised before the child is derived; the child's bytes must be its own
_XPUB = "spec.hd.version_pub('x')"
contract("verif.harness.hd.pub_child_after_serialize", props=("C08",), nl_uf=True,
         params=dict(_PUB_PARAMS, depth=("int", 0, 254), i=("int", 0, H - 1)),
         requires=["depth < 255", "spec.hd.ckd_pub_defined((K, c), i)"],
         ensures=["returns()",
                  "result[0] == spec.hd.xpub_ser(%s, depth + 1, spec.hd.fingerprint(K), i, spec.hd.ckd_pub((K, c), i)[1], "
                  "spec.hd.ckd_pub((K, c), i)[0])" % _XPUB,
                  "len(result[0]) == 78", "result[3] == depth + 1 and result[5] == i"],
         gen=_pubnode(_with_index(lo=0, hi=H - 1)))

contract("verif.harness.hd.priv_child_after_serialize", props=("C08",), nl_uf=True,
         params=dict(_PRIV_PARAMS, depth=("int", 0, 254), i=("int", 0, 2**32 - 1)),
         requires=["depth < 255", "spec.hd.ckd_priv_defined((k, c), i)"],
         ensures=["returns()",
                  "result[0] == spec.hd.xpub_ser(%s, depth + 1, spec.hd.fingerprint_priv(k), i, spec.hd.ckd_priv((k, c), i)[1], "
                  "spec.curve.mul_G(spec.hd.ckd_priv((k, c), i)[0]))" % _XPUB,
                  "len(result[0]) == 78"],
         gen=_with_index(lo=0, hi=2**32 - 1))

# ---------------------------------------------------------------------------- public / private consistency
_SAME10 = ["spec.curve.same(result[0], result[5])", "result[1] == result[6]", "result[2] == result[7]",
           "result[3] == result[8]", "result[4] == result[9]"]

contract("verif.harness.hd.consistency", props=("C08",), nl_uf=True,
         params=dict(_PRIV_PARAMS, i=("int", 0, H - 1)),
         requires=["spec.hd.ckd_priv_defined((k, c), i)"],
         ensures=["returns()"] + _SAME10 + ["result[10] is True", "result[11] is True", "result[12] is True",
                                            "result[2] == depth + 1 and result[4] == i"],
         gen=_with_index(lo=0, hi=H - 1))

# ---------------------------------------------------------------------------- two steps (composition)
_TWO = "spec.hd.derive_priv((k, c), [i, j], depth, fp, num)"
contract("verif.harness.hd.priv_child2", props=("C08",), nl_uf=True,
         params=dict(_PRIV_PARAMS, depth=("int", 0, 254), i=NUM, j=NUM),
         requires=[_TWO + " is not None"],
         ensures=["returns()", "result[0] == %s[0]" % _TWO, "result[1] == %s[1]" % _TWO, "result[2] == depth + 2",
                  "result[3] == %s[3]" % _TWO, "result[4] == j",
                  "result[3] == spec.hd.fingerprint_priv(spec.hd.ckd_priv((k, c), i)[0])",
                  "spec.curve.same(result[5], spec.curve.mul_G(%s[0]))" % _TWO],
         gen=_with_index(names=("i", "j")))

_TWOP = "spec.hd.derive_pub((K, c), [i, j], depth, fp, num)"
contract("verif.harness.hd.pub_child2", props=("C08",), nl_uf=True,
         params=dict(_PUB_PARAMS, depth=("int", 0, 254), i=("int", 0, H - 1), j=("int", 0, H - 1)),
         requires=[_TWOP + " is not None"],
         ensures=["returns()", "spec.curve.same(result[0], %s[0])" % _TWOP, "result[1] == %s[1]" % _TWOP, "result[2] == depth + 2",
                  "result[3] == %s[3]" % _TWOP, "result[4] == j"],
         gen=_pubnode(_with_index(names=("i", "j"), lo=0, hi=H - 1)))

contract("verif.harness.hd.consistency2", props=("C08",), nl_uf=True,
         params=dict(_PRIV_PARAMS, depth=("int", 0, 254), i=("int", 0, H - 1), j=("int", 0, H - 1)),
         requires=[_TWO + " is not None"],
         ensures=["returns()"] + _SAME10,
         gen=_with_index(names=("i", "j"), lo=0, hi=H - 1))

# ---------------------------------------------------------------------------- fingerprints
contract("verif.harness.hd.fingerprint_pub", props=("C08",), nl_uf=True, params={"K": point},
         ensures=["returns()", "result == spec.hd.fingerprint(K)", "len(result) == 4"],
         gen=lambda rng, tier: ({"K": {"__point__": d}} for d in KS + [rng.randrange(1, N) for _ in range(40)]))
contract("verif.harness.hd.fingerprint_priv", props=("C08",), nl_uf=True, params={"k": SECRET},
         ensures=["returns()", "result == spec.hd.fingerprint_priv(k)", "len(result) == 4"],
         gen=lambda rng, tier: ({"k": d} for d in KS + [rng.randrange(1, N) for _ in range(40)]))

# lemma about the spec itself: the one-term form used for the hardened HMAC input is 0x00 || ser256(k)
contract("verif.specs.hd.ser_hardened_key", props=("C08",), params={"k": ("int", 0, 2**256 - 1)},
         ensures=["returns()", "result == bytes(1) + spec.hd.ser256(k)", "len(result) == 33"],
         gen=lambda rng, tier: ({"k": v} for v in [0, 1, N - 1, N, 2**256 - 1, 2**248, 2**248 - 1] + [rng.getrandbits(256) for _ in range(30)]))


# ---------------------------------------------------------------------------- 78-byte serialisation
def _gen_priv_raw(rng, tier):
    vers = [bytes.fromhex(v) for pair in __import__("verif.specs", fromlist=["hd"]).hd.SLIP132.values() for v in pair]
    n = 0
    for node in _node_gen(rng, tier, None):
        d = dict(node)
        d["version"] = vers[n % len(vers)] if n < 60 else rand_bytes(rng, 4)
        if n % 7 == 3:
            d["depth"] = rng.choice([-1, 256, 0, 255, 1000])
        if n % 11 == 5:
            d["num"] = rng.choice([-1, 2**32, 2**32 - 1, 0, 2**40])
        n += 1
        yield d


contract("verif.harness.hd.priv_raw", props=("C08",), nl_uf=True,
         params=dict(_PRIV_PARAMS, depth="int", num="int", version="bytes:4"),
         raises={"ValueError": "depth < 0 or depth > 255",
                 "OverflowError": "0 <= depth <= 255 and (num < 0 or num >= 2**32)"},
         ensures=["implies(returns(), result == spec.hd.xprv_ser(version, depth, fp, num, c, k))",
                  "implies(returns(), len(result) == 78)"],
         gen=_gen_priv_raw)


def _gen_pub_raw(rng, tier):
    for d in _gen_priv_raw(rng, tier):
        d = dict(d)
        d["K"] = {"__point__": d.pop("k")}
        d["pub_version"] = d.pop("version")
        d["network"] = rng.choice(NETWORKS)
        yield d


contract("verif.harness.hd.pub_raw", props=("C08",), nl_uf=True,
         params=dict(_PUB_PARAMS, depth="int", num="int", network=("choice", NETWORKS), pub_version="bytes:4"),
         raises={"ValueError": "depth < 0 or depth > 255",
                 "OverflowError": "0 <= depth <= 255 and (num < 0 or num >= 2**32)"},
         ensures=["implies(returns(), result[0] == spec.hd.xpub_ser(spec.hd.version_pub('x' if network == 'mainnet' else 't'), depth, fp, num, c, K))",
                  "implies(returns(), result[1] == result[0])",       # memoised second call
                  "implies(returns(), result[2] == spec.hd.xpub_ser(pub_version, depth, fp, num, c, K))",
                  "implies(returns(), len(result[0]) == 78 and len(result[2]) == 78)"],
         gen=_gen_pub_raw)


def _valid_raws(rng, private):
    """well-formed payloads for every version, then the BIP32 test-vector-5 style malformed ones"""
    import verif.specs as s
    Hs = s.hd
    vers = Hs.ALL_PRV_VERSIONS if private else Hs.ALL_PUB_VERSIONS
    other = Hs.ALL_PUB_VERSIONS if private else Hs.ALL_PRV_VERSIONS
    out = []
    for v in vers:
        for depth in (0, 1, 255):
            k = rng.choice(KS + [rng.randrange(1, N)])
            fp = bytes(4) if depth == 0 else rand_bytes(rng, 4)
            num = 0 if depth == 0 else rng.choice([0, 1, H - 1, H, 2**32 - 1])
            cc = rand_bytes(rng, 32)
            key = (b"\x00" + k.to_bytes(32, "big")) if private else Hs.serP(s.curve.mul_G(k))
            out.append(Hs.xkey_ser(v, depth, fp, num, cc, key))
    good = out[0]
    good1 = out[1]
    bad = [other[0] + good[4:],                                   # version of the other kind
           bytes(4) + good[4:], b"\x04\x88\xb2\x1f" + good[4:],   # unknown versions
           good[:5] + b"\x01\x02\x03\x04" + good[9:],             # depth 0, parent fingerprint != 0
           good[:9] + b"\x00\x00\x00\x01" + good[13:],            # depth 0, child number != 0
           good[:12] + b"\x80" + good[13:],
           good1[:45] + b"\x04" + good1[46:], good1[:45] + b"\x01" + good1[46:], good1[:45] + b"\x05" + good1[46:],
           good1[:45] + (b"\x02" if private else b"\x00") + good1[46:],
           good1[:45] + (b"\x00" + bytes(32) if private else b"\x02" + bytes(31) + b"\x07"),   # key 0 / x = 7 is not on the curve
           good1[:45] + (b"\x00" + N.to_bytes(32, "big") if private else b"\x02" + s.curve.P.to_bytes(32, "big")),
           good1[:45] + (b"\x00" + b"\xff" * 32 if private else b"\x03" + b"\xff" * 32),
           good1[:45] + (b"\x00" + (N - 1).to_bytes(32, "big") if private else b"\x03" + bytes(31) + b"\x01")]
    return out, bad


def _gen_raw_parse(private):
    def gen(rng, tier):
        good, bad = _valid_raws(rng, private)
        for r in bad + good:
            yield {"raw": r}
        while True:
            good, bad = _valid_raws(rng, private)
            r = bytearray(rng.choice(good))
            if rng.random() < 0.5:
                r[rng.randrange(78)] = rng.getrandbits(8)
            yield {"raw": bytes(r)}
    return gen


_PRV_VERS = [bytes.fromhex(v) for v in ("0488ade4", "049d7878", "04b2430c", "0295b005", "02aa7a99",
                                        "04358394", "044a4e28", "045f18bc", "024285b5", "02575048")]
_PUB_VERS = [bytes.fromhex(v) for v in ("0488b21e", "049d7cb2", "04b24746", "0295b43f", "02aa7ed3",
                                        "043587cf", "044a5262", "045f1cf6", "024289ef", "02575483")]


_UNKNOWN_VERS = [bytes(4), bytes.fromhex("0488b21f"), bytes.fromhex("0488ade3"), b"\xff" * 4]
_RAW = "(version + rest)"
_PARSE_FIELDS = ["implies(returns(), result[0] == version and result[1] == rest[0] and result[2] == rest[1:5] and "
                 "result[3] == int.from_bytes(rest[5:9], 'big') and result[4] == rest[9:41])"]


def _gen_parts(private):
    def gen(rng, tier):
        for d in _gen_raw_parse(private)(rng, tier):
            yield {"version": d["raw"][:4], "rest": d["raw"][4:]}
    return gen


def _gen_unknown(rng, tier):
    import verif.specs as s
    for private in (True, False):
        good, _ = _valid_raws(rng, private)
        for v in _UNKNOWN_VERS:
            yield {"version": v, "rest": good[0][4:]}
        for g in good[:10]:
            for bit in (0, 7, 8, 31):
                v = (int.from_bytes(g[:4], "big") ^ (1 << bit)).to_bytes(4, "big")
                yield {"version": v, "rest": g[4:]}
    while True:
        good, _ = _valid_raws(rng, rng.random() < 0.5)
        yield {"version": rand_bytes(rng, 4), "rest": good[0][4:]}


# raw_parse of ANY 74 bytes behind each known version (and some unknown ones): accepted exactly when BIP32 says the key is
# well-formed, every field returned as it stands in the bytes
def _parse_contract(name, versions, ensures, private, **kw):
    contract(name, props=("C08",), nl_uf=True, params={"version": ("choice", versions), "rest": "bytes:74"},
             ensures=ensures, gen=_gen_parts(private), **kw)


_ENS_PRIV_PARSE = (["implies(returns(), spec.hd.xkey_reject_reason(version + rest, False) is None)",      # accepts only structurally well-formed keys
                  "implies(spec.hd.xkey_reject_reason%s is None and spec.hd.version_info(version)[1] == 'prv', returns())" % _RAW,
                  "implies(returns(), spec.hd.version_info(version)[1] == 'prv')"] + _PARSE_FIELDS +
                 ["implies(returns(), rest[41] == 0 and result[5] == int.from_bytes(rest[42:74], 'big'))",
                  "implies(returns(), result[6] == spec.hd.version_info(version)[2])"])
# quick tier: one version of each family and kind; thorough tier: every version of the table
_parse_contract("verif.harness.hd.priv_parse_parts", [_PRV_VERS[0], _PRV_VERS[7], _PUB_VERS[0], _UNKNOWN_VERS[1]], _ENS_PRIV_PARSE, True, timeout_ms=5000)
_parse_contract("verif.harness.hd.priv_parse_parts#all_versions", _PRV_VERS + _PUB_VERS + _UNKNOWN_VERS, _ENS_PRIV_PARSE, True,
                tiers=("thorough",), max_paths=20000, timeout_ms=5000)

_RAWP = "(version + meta + spec.hd.serP(K))"
_ENS_PUB_POINT = ["implies(returns(), spec.hd.xkey_reject_reason(version + meta + spec.hd.serP(K), False) is None)",
                  "implies(spec.hd.xkey_reject_reason%s is None and spec.hd.version_info(version)[1] == 'pub', returns())" % _RAWP,
                  "implies(returns(), spec.hd.version_info(version)[1] == 'pub')",
                  "implies(returns(), result[0] == version and result[1] == meta[0] and result[2] == meta[1:5] and "
                  "result[3] == int.from_bytes(meta[5:9], 'big') and result[4] == meta[9:41])",
                  "implies(returns(), spec.curve.same(result[5], K))",
                  "implies(returns(), result[6] == spec.hd.version_info(version)[2])"]


def _gen_pub_point(rng, tier):
    for d in _gen_raw_parse(False)(rng, tier):
        r = d["raw"]
        yield {"version": r[:4], "meta": r[4:45], "K": {"__point__": rng.choice(KS + [rng.randrange(1, N)])}}


def _pub_point_contract(name, versions, **kw):
    contract(name, props=("C08",), nl_uf=True, params={"version": ("choice", versions), "meta": "bytes:41", "K": point},
             ensures=_ENS_PUB_POINT, gen=_gen_pub_point, **kw)


# public keys: ANY 41 metadata bytes in front of the SEC form of ANY curve point.  Key data that is not the encoding of a point
# (prefix, x >= p, x off the curve) is S256Point.parse_sec's contract (C03); here it is exercised by the bounded contract below.
_pub_point_contract("verif.harness.hd.pub_parse_point", [_PUB_VERS[0], _PUB_VERS[9], _PRV_VERS[0], _UNKNOWN_VERS[1]])
_pub_point_contract("verif.harness.hd.pub_parse_point#all_versions", _PUB_VERS + _PRV_VERS + _UNKNOWN_VERS, tiers=("thorough",), max_paths=20000)

BOUNDED_ONLY = []
_ENS_PUB_PARSE = ["implies(returns(), spec.hd.xkey_reject_reason(version + rest, False) is None)",
                  "implies(spec.hd.xkey_reject_reason%s is None and spec.hd.version_info(version)[1] == 'pub', returns())" % _RAW,
                  "implies(returns(), spec.hd.version_info(version)[1] == 'pub')"] + _PARSE_FIELDS + \
                 ["implies(returns(), spec.hd.serP(result[5]) == rest[41:74])",
                  "implies(returns(), result[6] == spec.hd.version_info(version)[2])"]
# arbitrary 74 bytes behind a public version: run concretely only.  Symbolically the square-root existence predicate of the curve
# theory is uninterpreted, so the solver invents x-coordinates (e.g. x = 0) whose x^3+7 "is" a square: the models do not replay.
BOUNDED_ONLY.append("verif.harness.hd.pub_parse_parts")
contract("verif.harness.hd.pub_parse_parts", props=("C08",), params={"version": "bytes:4", "rest": "bytes:74"},
         ensures=_ENS_PUB_PARSE, gen=_gen_parts(False),
         note="bounded only: arbitrary key bytes need the quadratic-residue predicate, uninterpreted in the curve theory")

# every version outside the SLIP-132 table is refused by both parsers
contract("verif.harness.hd.priv_parse_parts#unknown_version", props=("C08",), nl_uf=True,
         params={"version": "bytes:4", "rest": "bytes:74"}, requires=["spec.hd.version_info(version) is None"],
         ensures=["raises(ValueError)"], gen=_gen_unknown)
contract("verif.harness.hd.pub_parse_parts#unknown_version", props=("C08",), nl_uf=True,
         params={"version": "bytes:4", "rest": "bytes:74"}, requires=["spec.hd.version_info(version) is None"],
         ensures=["raises(ValueError)"], gen=_gen_unknown)

# round trips with symbolic fields: every version of the SLIP-132 table
def _gen_rt(vers, pub):
    def gen(rng, tier):
        n = 0
        for node in _node_gen(rng, tier, None):
            d = dict(node)
            if d["depth"] == 0 and n % 3:
                d["fp"], d["num"] = bytes(4), 0
            d["version"] = vers[n % len(vers)]
            n += 1
            if pub:
                d["K"] = {"__point__": d.pop("k")}
            yield d
    return gen


# (a node of depth 0 is a master node: no parent fingerprint, no child number -- BIP32 refuses anything else on import)
_WELL_FORMED = "depth > 0 or (fp == bytes(4) and num == 0)"
contract("verif.harness.hd.priv_raw_roundtrip", props=("C08",), nl_uf=True,
         params=dict(_PRIV_PARAMS, version=("choice", _PRV_VERS)), requires=[_WELL_FORMED],
         ensures=["returns()", "result[0] is True",
                  "result[1] == k and result[2] == c and result[3] == depth and result[4] == fp and result[5] == num",
                  "spec.curve.same(result[6], spec.curve.mul_G(k)) and result[7] == c and result[8] == depth and result[9] == fp and result[10] == num",
                  "result[11] == version", "result[12] == spec.hd.version_info(version)[2]"],
         gen=_gen_rt(_PRV_VERS, False))

contract("verif.harness.hd.pub_raw_roundtrip", props=("C08",), nl_uf=True,
         params=dict(_PUB_PARAMS, version=("choice", _PUB_VERS)), requires=[_WELL_FORMED],
         ensures=["returns()", "result[0] is True",
                  "spec.curve.same(result[1], K) and result[2] == c and result[3] == depth and result[4] == fp and result[5] == num",
                  "result[6] == version", "result[7] == spec.hd.version_info(version)[2]"],
         gen=_gen_rt(_PUB_VERS, True))


# ============================================================================ string level (bounded companion only)
# pyvc has no symbolic strings: the contracts below are declared with the STR kind (the symbolic pass reports
# `undecided` with that reason); props/C08.py runs them concretely over enumerated and seeded inputs.
from .text import STR  # noqa: E402

STRING_LEVEL = []


def _s(name, **kw):
    STRING_LEVEL.append(name)
    return contract(name, props=("C08",), note="string-level: bounded companion only", **kw)


def _slip_pairs():
    import verif.specs as s
    return [(L, s.hd.version_prv(L), s.hd.version_pub(L)) for L in s.hd.SLIP132]


def _gen_text_rt(rng, tier):
    """all 10 SLIP-132 letters (20 version prefixes) x the networks of their family x depth boundaries"""
    import verif.specs as s
    for (L, vprv, vpub) in _slip_pairs():
        nets = ["mainnet"] if L in s.hd.MAINNET_LETTERS else ["testnet", "signet", "regtest"]
        for net in nets:
            for depth in (0, 1, 255):
                yield {"k": rng.choice(KS + [rng.randrange(1, N)]), "c": rand_bytes(rng, 32), "depth": depth,
                       "fp": bytes(4) if depth == 0 else rand_bytes(rng, 4),
                       "num": 0 if depth == 0 else rng.choice([1, H - 1, H, 2**32 - 1]),
                       "network": net, "priv_version": vprv, "pub_version": vpub}
    while True:
        L, vprv, vpub = rng.choice(_slip_pairs())
        net = "mainnet" if L in s.hd.MAINNET_LETTERS else rng.choice(["testnet", "signet", "regtest"])
        depth = rng.randrange(1, 256)
        yield {"k": rng.randrange(1, N), "c": rand_bytes(rng, 32), "depth": depth, "fp": rand_bytes(rng, 4), "num": rng.getrandbits(32),
               "network": net, "priv_version": vprv, "pub_version": vpub}


_s("verif.harness.hd.xprv_roundtrip",
   params=dict(_PRIV_PARAMS, network=STR, priv_version="bytes:4", pub_version="bytes:4"),
   requires=[_WELL_FORMED],
   ensures=["returns()",
            "result['xprv'] == spec.hd.b58_xkey(spec.hd.xprv_ser(priv_version, depth, fp, num, c, k))",
            "result['xpub'] == spec.hd.b58_xkey(spec.hd.xpub_ser(pub_version, depth, fp, num, c, spec.curve.mul_G(k)))",
            "result['xprv_again'] == result['xprv'] and result['xpub_again'] == result['xpub']",          # lossless text round trip
            "result['a'][0] == k and result['a'][1] == c and result['a'][2] == depth and result['a'][3] == fp and result['a'][4] == num",
            "spec.curve.same(result['b'][0], spec.curve.mul_G(k)) and result['b'][1:] == (c, depth, fp, num)",
            "result['a_priv_version'] == priv_version and result['b_pub_version'] == pub_version",
            "result['a_network'] == spec.hd.version_info(priv_version)[2] and result['b_network'] == spec.hd.version_info(pub_version)[2]"],
   gen=_gen_text_rt)

# ---------------------------------------------------------------------------- paths
_NUMS_OK = ["0", "1", "2147483647", "44", "007"]
_NUMS_BAD = ["2147483648", "4294967295", "4294967296", "-1", "-0", "+1", "1_0", " 1", "", "x", "0x10", "1.0", "٣"]
_MARKS = ["", "'", "h", "H"]
_SEEDS = [bytes(range(16)), b"\xff" * 32, bytes(range(64))]


def _valid_path(rng, depth, public=False, prefix=None):
    comps = []
    for _ in range(depth):
        n = rng.choice(_NUMS_OK) if rng.random() < 0.7 else str(rng.randrange(2**31))
        comps.append(n + ("" if public else rng.choice(_MARKS)))
    return (prefix or rng.choice("mM")) + "".join("/" + c for c in comps)


def _enum_paths(public=False):
    """every path of depth <= 2 over the boundary alphabet, both prefixes; depth 3..8 are drawn by the caller"""
    marks = [""] if public else _MARKS
    comps = [n + mk for n in _NUMS_OK[:3] + ["2147483648", "4294967295"] for mk in marks]
    out = ["m", "M"]
    for p in "mM":
        for a in comps:
            out.append(p + "/" + a)
    for a in comps:
        for b in comps[::3]:
            out.append("m/" + a + "/" + b)
    return out


def _malformed(rng):
    base = _valid_path(rng, rng.randrange(1, 5), prefix="m")
    comps = base.split("/")[1:]
    i = rng.randrange(len(comps))
    bad = list(comps)
    bad[i] = rng.choice(_NUMS_BAD) + rng.choice(["", "'", "h"])
    return rng.choice([
        base + "/", base.replace("/", "//", 1), "m/" + "/".join(bad), " " + base, base + " ", base + "\n", "/" + base[2:], base[2:],
        "mm" + base[1:], "n" + base[1:], "m" + base[2:], base + "''", base + "hh", base + "'h", "m/'", "m/h", "m/", "m//", "", "M/", "mh/0",
        "m/" + "/".join(bad)])


def _gen_traverse(public):
    def gen(rng, tier):
        for p in _enum_paths(public):
            yield {"seed": rng.choice(_SEEDS), "path": p}
        n = 0
        while True:
            n += 1
            seed = rng.choice(_SEEDS) if n % 3 else rand_bytes(rng, rng.choice([16, 32, 64]))
            if n % 4 == 0:
                yield {"seed": seed, "path": _malformed(rng)}
            else:
                yield {"seed": seed, "path": _valid_path(rng, 3 + n % 6, public=public and n % 5 != 0)}
    return gen


_DP = "spec.hd.derive_priv(spec.hd.master(seed), spec.hd.path_indices(path))"
_s("verif.harness.hd.traverse_priv", params={"seed": ("bytes", 16, 64), "path": STR},
   requires=["spec.hd.master_defined(seed)", "spec.hd.path_indices(path) is None or %s is not None" % _DP],
   ensures=["implies(spec.hd.path_valid(path), returns())",                         # every BIP32 path is derivable
            "implies(returns() and spec.hd.path_indices(path) is not None, spec.hd.priv_fields_equal(result, %s))" % _DP],
   gen=_gen_traverse(False))

_DQ = "spec.hd.derive_pub(spec.hd.neuter(spec.hd.master(seed)), spec.hd.path_indices(path))"
_s("verif.harness.hd.traverse_pub", params={"seed": ("bytes", 16, 64), "path": STR},
   requires=["spec.hd.master_defined(seed)", "not spec.hd.path_is_public(path) or %s is not None" % _DQ],
   ensures=["implies(spec.hd.path_valid(path) and spec.hd.path_is_public(path), returns())",
            "implies(spec.hd.path_indices(path) is not None and not spec.hd.path_is_public(path), raises(ValueError))",   # hardened: refused
            "implies(returns() and spec.hd.path_is_public(path), spec.hd.pub_fields_equal(result, %s))" % _DQ],
   gen=_gen_traverse(True))


def _gen_split(rng, tier):
    n = 0
    while True:
        n += 1
        public = n % 3 == 0
        da, db = rng.randrange(0, 5), rng.randrange(0, 5)
        a = _valid_path(rng, da, public=public)
        b = _valid_path(rng, db, public=public, prefix="m")[1:]
        yield {"seed": rng.choice(_SEEDS), "a": a, "b": b, "public": public}


_s("verif.harness.hd.traverse_split", params={"seed": ("bytes", 16, 64), "a": STR, "b": STR, "public": "bool"},
   requires=["spec.hd.path_valid(a + b)", "spec.hd.path_indices(a) is not None",
             "spec.hd.derive_priv(spec.hd.master(seed), spec.hd.path_indices(a + b)) is not None"],
   ensures=["implies(not public or spec.hd.path_is_public(a + b), returns())",
            "implies(returns(), len(result) in (10, 20) and result[:len(result) // 2] == result[len(result) // 2:])"],
   gen=_gen_split)


def _gen_blind(rng, tier):
    vers = [None] + [v for (_, _, v) in _slip_pairs()][:5]
    n = 0
    for a in ["m", "M", "m/48h/0h/0h/2h", "m/48'/0'/0'/2'", "M/48H/0H", "m/0", "m/2147483647h/1"]:
        for b in ["m/0", "m/1/2147483647", "M/5", "m/1h", "m", "m/920870093/318569592/821713943/1914815254"]:
            yield {"seed": _SEEDS[n % 3], "a": a, "b": b, "version": vers[n % len(vers)]}
            n += 1
    while True:
        n += 1
        a = _valid_path(rng, rng.randrange(0, 5))
        b = _valid_path(rng, rng.randrange(0, 5), public=n % 7 != 0, prefix=None if n % 5 == 0 else "m")
        yield {"seed": rng.choice(_SEEDS), "a": a, "b": b, "version": rng.choice(vers)}


_s("verif.harness.hd.blind", params={"seed": ("bytes", 16, 64), "a": STR, "b": STR, "version": "bytes:4"},
   requires=["spec.hd.path_valid(a) and spec.hd.path_indices(b) is not None and spec.hd.path_valid('m' + a[1:] + b[1:])",
             "spec.hd.derive_priv(spec.hd.master(seed), spec.hd.path_indices(a)) is not None"],
   ensures=["implies(spec.hd.path_is_public(b), returns())",
            "implies(not spec.hd.path_is_public(b), raises(ValueError))",              # a hardened secret path cannot be applied to an xpub
            "implies(returns(), result[0] == result[2])",                              # the blinded key IS the key at the combined path from the root
            "implies(returns(), result[1] == result[3])",
            "implies(returns(), spec.hd.path_indices(result[1]) == spec.hd.path_indices(a) + spec.hd.path_indices(b))"],
   gen=_gen_blind)


def _gen_valid(rng, tier):
    for p in _enum_paths(False):
        yield {"path": p}
    for n in (254, 255, 256, 257):
        yield {"path": "m" + "/0" * n}
        yield {"path": "m" + "/1h" * n}
    while True:
        yield {"path": _malformed(rng) if rng.random() < 0.6 else _valid_path(rng, rng.randrange(0, 9))}


_s("buidl.hd.is_valid_bip32_path", params={"path": STR},
   ensures=["returns()", "implies(spec.hd.path_valid(path), result is True)",       # every BIP32 path (<= 255 levels) is valid
            "implies(spec.hd.path_indices(path) is not None and not spec.hd.path_valid(path), result is False)"],   # more than 255 levels
   gen=_gen_valid)


def _gen_combine(rng, tier):
    ps = ["m", "M", "m/0", "m/1h", "m/1'", "M/1H/2", "m/2147483647/0", "m/007"]
    for a in ps:
        for b in ps:
            yield {"first_path": a, "second_path": b}
    while True:
        a = _valid_path(rng, rng.randrange(0, 9)) if rng.random() < 0.8 else _malformed(rng)
        b = _valid_path(rng, rng.randrange(0, 9)) if rng.random() < 0.8 else _malformed(rng)
        yield {"first_path": a, "second_path": b}


_VA, _VB = "spec.hd.path_indices(first_path)", "spec.hd.path_indices(second_path)"
_s("buidl.blinding.combine_bip32_paths", params={"first_path": STR, "second_path": STR},
   ensures=["implies(spec.hd.path_valid(first_path) and spec.hd.path_valid(second_path), returns())",
            "implies(returns() and %s is not None and %s is not None, spec.hd.path_indices(result) == %s + %s)" % (_VA, _VB, _VA, _VB),
            # normal form of the result: lower case, 'h' markers
            "implies(returns(), result == result.lower() and \"'\" not in result)"],
   gen=_gen_combine)


def _gen_ltrim(rng, tier):
    for p, d in [("m", 0), ("m/1", 0), ("m/1", 1), ("m/1", 2), ("m/1/2/3", 1), ("m/1/2/3h", 2), ("m/1/2/3h", 3), ("m/1/2/3h", 4),
                 ("M/1H/2'", 1), ("m/0/1", -1), ("m", 1)]:
        yield {"bip32_path": p, "depth": d}
    while True:
        n = rng.randrange(0, 9)
        yield {"bip32_path": _valid_path(rng, n), "depth": rng.randrange(-1, n + 3)}


_VP = "spec.hd.path_indices(bip32_path)"
_s("buidl.hd.ltrim_path", params={"bip32_path": STR, "depth": "int"},
   # trimming everything (depth == number of levels, result "m/") and negative depths: beyond the property, see the notes job
   requires=["spec.hd.path_valid(bip32_path)", "0 <= depth and depth != len(%s)" % _VP],
   raises={"ValueError": "depth > len(%s)" % _VP},
   ensures=["implies(returns(), spec.hd.path_indices(result) == %s[depth:])" % _VP],
   gen=_gen_ltrim)


def _gen_parse_text(rng, tier):
    from verif.props.C08 import TV5, TV_VALID
    for s_, _why in TV5:
        yield {"s": s_}
    for s_ in TV_VALID:
        yield {"s": s_}
    import verif.specs as s
    while True:
        private = rng.random() < 0.5
        good, bad = _valid_raws(rng, private)
        for r in bad + good[:6]:
            yield {"s": s.hd.b58_xkey(r)}


_s("verif.harness.hd.parse_text", params={"s": STR},
   ensures=["implies(returns(), spec.hd.xkey_text_decode(s, False) is not None)",     # imports only structurally well-formed extended keys
            "implies(returns(), result[1] == spec.hd.xkey_text_decode(s, False))",     # and loses nothing: re-export gives the same 78 bytes
            "implies(spec.hd.xkey_text_decode(s) is not None, returns())"],             # every valid extended key is imported
   gen=_gen_parse_text)


# ---------------------------------------------------------------------------- children inherit network and version bytes
def _gen_keep(lo, hi):
    def gen(rng, tier):
        idx = [v for v in IDX if lo <= v <= hi]
        n = 0
        while True:
            L, vprv, vpub = _slip_pairs()[n % 10]
            yield {"k": rng.choice(KS), "c": rand_bytes(rng, 32), "i": idx[n % len(idx)] if n < 40 else rng.randrange(lo, hi + 1),
                   "network": NETWORKS[n % 4], "priv_version": vprv, "pub_version": vpub}
            n += 1
    return gen


for _rng_name, _lo, _hi, _extra in (("normal", 0, H - 1, ["result[5] == network and result[6] == pub_version"]), ("hardened", H, 2**32 - 1, [])):
    contract("verif.harness.hd.child_keeps_versions#" + _rng_name, props=("C08",), nl_uf=True,
             params={"k": SECRET, "c": CC, "i": ("int", _lo, _hi), "network": ("choice", NETWORKS), "priv_version": "bytes:4", "pub_version": "bytes:4"},
             requires=["spec.hd.ckd_priv_defined((k, c), i)"],
             ensures=["returns()", "result[0] == network and result[1] == priv_version and result[2] == pub_version",
                      "result[3] == network and result[4] == network"] + _extra,
             gen=_gen_keep(_lo, _hi))
