"""C07: script interpreter conformance -- buidl/op.py (opcode functions, number codec, small-int opcode
helpers), buidl/timelock.py (Locktime / Sequence), tail of buidl/script.py Script.evaluate.

Every opcode function is put under contract through a harness of verif/harness/op.py that builds the stack
`[e0..e6][7 - depth:]` (e6 = top) from separately named elements, calls the real function and returns
(ok, stack_after, altstack_after); the clause says that this triple is the one consensus specifies
(spec.script_ops.<op>, transcribed from interpreter.cpp): equal success flag and, on success, equal stacks.

Symbolic scope of one contract: the listed depths, rest-of-stack elements arbitrary byte strings, numeric
operands 0..4 bytes (the property's bound; consensus rejects longer ones, the repository does not -- see
notes/C07.md).  The bounded companion runs the same clauses on all depths 0..7 with boundary operands.

TODO(all integers): the codec contracts below quantify over -2^31 < n < 2^31 (the loops of encode_num /
decode_num unroll at most 5 times).  The statement for EVERY integer needs the loop invariant
`abs(num) == abs_num * 256**len(result) + int_le(result)  and  all bytes of result < 256` on encode_num's
while loop (NIA, symbolic-length bytearray) and the mirror image on decode_num's for loop; without it the
engine unwinds to its cap (600) and the job times out, so the all-integers version is not registered as a
contract: integers up to 2^600 are exercised concretely by the bounded job `codec` of verif/props/C07.py."""
from .common import *  # noqa

S = "spec.script_ops."
PROP = ("C07",)
N4 = ("bytes", 0, 4)
N5 = ("bytes", 0, 5)
B8 = ("bytes", 0, 8)
U32 = ("int", 0, 2**32 - 1)
ELEMS = ["e0", "e1", "e2", "e3", "e4", "e5", "e6"]
STACK = "[e0, e1, e2, e3, e4, e5, e6][7 - depth:]"


def enc(n):
    import verif.specs as s
    return s.script_ops.scriptnum_enc(n)


# boundary stack elements named by the property: empty, zero, negative zero, 0x7f/0x80/0xff, +-(2^31-1),
# 2/3/4-byte zeros and negative zeros, small PICK/ROLL counts (also negative), 5-byte and longer strings
E_NUM = [b"", b"\x00", b"\x80", b"\x01", b"\x81", b"\x02", b"\x82", b"\x03", b"\x83", b"\x7f", b"\xff",
         b"\x80\x00", b"\x80\x80", b"\xff\x00", b"\xff\x7f", b"\xff\xff", b"\x00\x80", b"\x00\x00",
         b"\x00\x00\x80", b"\xff\xff\x7f", b"\x00\x00\x00\x00", b"\x00\x00\x00\x80", b"\x01\x00\x00\x00",
         b"\xff\xff\xff\x7f", b"\xff\xff\xff\xff", b"\x04", b"\x05", b"\x06", b"\x07", b"\x84", b"\x85", b"\x86", b"\x87"]
E_BIG = [b"\x00\x00\x00\x80\x00", b"\x00\x00\x00\x00\x01", b"\xff\xff\xff\xff\x7f", b"\xff\xff\xff\xff\xff",
         b"\x00" * 9, b"\x00" * 8 + b"\x80", b"\x00" * 8 + b"\x01", b"\x01" + b"\x00" * 20, bytes(range(20)),
         bytes(range(32)), b"\xab" * 75, b"\xcd" * 520]
E_ALL = E_NUM + E_BIG
E_SMALL = [b"", b"\x80", b"\x01", b"\x81", b"\x7f", b"\xff", b"\x80\x00", b"\x00\x80", b"\xff\xff\xff\x7f",
           b"\xff\xff\xff\xff", b"\x00\x00\x00\x80", b"\x02"]


def _distinct_rest():
    return [b"r0", b"r1", b"r2", b"r3", b"r4", b"r5", b"r6"]


def stack_gen(top_lists, depths=range(8), extra=None, n_random=4000):
    """generator of harness inputs: the product of the boundary lists for the top len(top_lists) elements
    (top first), the rest distinct markers, for every depth; then seeded random stacks."""
    import itertools

    def gen(rng, tier):
        k = len(top_lists)
        for tops in itertools.product(*top_lists):
            for depth in ([d for d in depths if d >= k][:1] + [7]) if k else depths:
                el = _distinct_rest()
                for j, t in enumerate(tops):
                    el[6 - j] = t
                d = dict(zip(ELEMS, el))
                d["depth"] = depth
                if extra:
                    d.update(extra(rng))
                yield d
        # short stacks and every depth with boundary tops
        for depth in depths:
            for t in E_ALL[:12]:
                el = [rng.choice(E_ALL) for _ in range(7)]
                el[6] = t
                d = dict(zip(ELEMS, el))
                d["depth"] = depth
                if extra:
                    d.update(extra(rng))
                yield d
        for _ in range(n_random):
            el = []
            for j in range(7):
                r = rng.random()
                if r < 0.5:
                    el.append(rng.choice(E_ALL))
                elif r < 0.8:
                    el.append(enc(rng.randrange(-8, 9)))
                else:
                    el.append(rand_bytes(rng, rng.choice([1, 2, 3, 4, 4, 5, 8])))
            d = dict(zip(ELEMS, el))
            d["depth"] = rng.choice(list(depths))
            if extra:
                d.update(extra(rng))
            yield d
    return gen


def op_contract(name, need, numeric=0, depths=None, top_kind="bytes", spec_call=None, gen_tops=None, max_paths=None):
    """contract on harness run_op_<name>: `need` = minimal stack depth of the opcode, the top `numeric`
    elements are script numbers (<= 4 bytes)"""
    if depths is None:
        depths = list(range(8)) if numeric == 0 else list(range(need)) + sorted({need, 7})
    params = {"depth": ("choice", list(depths))}
    requires = []
    for j, e in enumerate(ELEMS):
        from_top = 6 - j
        if from_top < numeric:
            params[e] = N4
            requires.append("len(%s) <= 4" % e)
        elif from_top == 0 and top_kind != "bytes":
            params[e] = top_kind
            requires.append("len(%s) <= %d" % (e, top_kind[2]))
        else:
            params[e] = "bytes"
    call = spec_call or (S + "op_%s(%s, [])" % (name, STACK))
    if gen_tops is None:
        gen_tops = [E_NUM] if numeric <= 1 else ([E_NUM[:18]] * 2 if numeric == 2 else [E_SMALL[:8]] * 3)
        if numeric == 0:
            gen_tops = [E_ALL]
    return contract("verif.harness.op.run_op_%s" % name, props=PROP, params=params, requires=requires,
                    ensures=["returns()", "implies(returns(), %ssame_outcome(result, %s))" % (S, call)],
                    gen=stack_gen(gen_tops), max_paths=max_paths)


# ---------------------------------------------------------------------------- constants, NOP, VERIFY, RETURN
for _n in range(0, 17):
    op_contract(str(_n), 0, depths=[0, 1, 7], spec_call=S + "op_const(%d, %s, [])" % (_n, STACK), gen_tops=[])
op_contract("1negate", 0, depths=[0, 1, 7], spec_call=S + "op_const(-1, %s, [])" % STACK, gen_tops=[])
op_contract("nop", 0, gen_tops=[])
op_contract("return", 0, gen_tops=[])
# truth value of the top element: CastToBool works on any length; symbolic scope 0..8 bytes
op_contract("verify", 1, depths=[0, 1, 2, 7], top_kind=B8)
op_contract("ifdup", 1, depths=[0, 1, 2, 7], top_kind=B8)

# ---------------------------------------------------------------------------- stack manipulation
for _name, _need in (("2drop", 2), ("2dup", 2), ("3dup", 3), ("2over", 4), ("2rot", 6), ("2swap", 4), ("depth", 0),
                     ("drop", 1), ("dup", 1), ("nip", 2), ("over", 2), ("rot", 3), ("swap", 2), ("tuck", 2),
                     ("equal", 2), ("equalverify", 2)):
    op_contract(_name, _need, gen_tops=[E_SMALL[:6]] * min(_need, 2))
op_contract("size", 1, top_kind=("bytes", 0, 520))
# PICK / ROLL: count on top (a script number), then `count`-th element below it
op_contract("pick", 2, numeric=1, depths=[0, 1, 2, 3])
op_contract("roll", 2, numeric=1, depths=[0, 1, 2, 3])


def _alt_extra(rng):
    return {"adepth": rng.randrange(3), "a0": rng.choice(E_ALL), "a1": rng.choice(E_ALL)}


for _name in ("toaltstack", "fromaltstack"):
    _p = {"depth": ("choice", list(range(8))), "adepth": ("choice", [0, 1, 2]), "a0": "bytes", "a1": "bytes"}
    _p.update({e: "bytes" for e in ELEMS})
    contract("verif.harness.op.run_op_%s" % _name, props=PROP, params=_p,
             ensures=["returns()", "implies(returns(), %ssame_outcome(result, %sop_%s(%s, [a0, a1][2 - adepth:])))" % (S, S, _name, STACK)],
             gen=stack_gen([E_SMALL[:6]], extra=_alt_extra, n_random=1500))

# ---------------------------------------------------------------------------- arithmetic (operands <= 4 bytes)
for _name in ("1add", "1sub", "negate", "abs", "not", "0notequal"):
    op_contract(_name, 1, numeric=1)
for _name in ("add", "sub", "booland", "boolor", "numequal", "numequalverify", "numnotequal", "lessthan", "greaterthan",
              "lessthanorequal", "greaterthanorequal", "min", "max"):
    op_contract(_name, 2, numeric=2, depths=[0, 1, 7], max_paths=2500)
op_contract("within", 3, numeric=3, depths=[0, 1, 2, 7], max_paths=2500).tiers = ("thorough",)   # 1640 paths, ~3 min: deductive in the thorough tier, bounded in quick

# ---------------------------------------------------------------------------- hashes
for _name in ("ripemd160", "sha1", "sha256", "hash160", "hash256"):
    op_contract(_name, 1, gen_tops=[E_ALL])

# ---------------------------------------------------------------------------- conditionals (splice == vfExec selection)
IF_ITEMS = [
    [], [104], [81, 104], [81, 103, 82, 104], [103, 104], [103, 82, 104, 83], [81, 103, 82, 104, 83, 84],
    [99, 81, 104, 103, 82, 104], [81, 103, 100, 82, 103, 83, 104, 104, 84], [81], [81, 103, 82], [99, 104], [99, 81, 104],
    [99, 81, 103, 82, 104, 85, 103, 100, 83, 104, 104, 86],
    [b"\x68", 104, 81], [b"\x67", 103, b"\x63", 104], [81, 103, 82, 103, 83, 104], [103, 103, 81, 104, 82],
    [81, 103, 82, 103, 83, 103, 84, 104],
]


def _if_gen(rng, tier):
    for items in IF_ITEMS:
        for depth in (0, 1):
            for e in E_NUM:
                yield {"depth": depth, "e6": e, "items": list(items)}


for _name, _neg in (("if", False), ("notif", True)):
    _val = ("not " if _neg else "") + S + "cast_to_bool(e6)"
    contract("verif.harness.op.run_op_%s" % _name, props=PROP,
             params={"depth": ("choice", [0, 1]), "e6": N4, "items": ("choice", IF_ITEMS)},
             requires=["len(e6) <= 4"],
             ensures=["returns()",
                      "result[0] == (depth == 1 and %sif_splice(items, True)[0])" % S,
                      "implies(result[0], result[1] == [])",
                      "implies(result[0], result[2] == %sif_splice(items, %s)[1])" % (S, _val)],
             gen=_if_gen)

# ---------------------------------------------------------------------------- number codec
I32 = ("int", -2**31 + 1, 2**31 - 1)
_NUMS = [0, 1, -1, 2, 16, 17, 0x7f, 0x80, 0xff, 0x100, 0x7fff, 0x8000, 0xffff, 0x10000, 0x7fffff, 0x800000, 0xffffff,
         0x1000000, 0x7fffffff, 0x80000000, 0xffffffff, 0x100000000, 2**39 - 1, 2**39, 2**63 - 1, 2**63, 2**64]


def _num_gen(name, lim=None):
    def gen(rng, tier):
        for v in _NUMS:
            for sgn in (1, -1):
                if lim is None or abs(v) <= lim:
                    yield {name: sgn * v}
        while True:
            v = rng.getrandbits(rng.choice([7, 8, 15, 16, 23, 24, 31] if lim else [7, 8, 15, 16, 23, 24, 31, 32, 39, 40, 64, 100]))
            yield {name: v if rng.random() < 0.5 else -v}
    return gen


_ENC_ENS = ["returns()", "result == %sscriptnum_enc(num)" % S, S + "is_minimal_num(result)",
            S + "scriptnum_dec(result) == num", "implies(num != 0, len(result) >= 1 and 256**(len(result) - 1) <= 2 * abs(num))"]
contract("buidl.op.encode_num", props=PROP, params={"num": I32}, requires=["-2**31 < num < 2**31"],
         ensures=_ENC_ENS + ["len(result) <= 4"], gen=_num_gen("num", 2**31 - 1))
contract("verif.harness.op.num_roundtrip", props=PROP, params={"n": I32}, requires=["-2**31 < n < 2**31"],
         ensures=["returns()", "result == n"], gen=_num_gen("n", 2**31 - 1))

def _bytes_gen(name, maxlen):
    def gen(rng, tier):
        import itertools
        for e in E_ALL:
            if len(e) <= maxlen:
                yield {name: e}
        # all strings of 0..2 bytes over the boundary byte values, then random ones
        vals = [0, 1, 0x7f, 0x80, 0x81, 0xff]
        for k in range(0, min(maxlen, 4) + 1):
            for t in itertools.product(vals, repeat=k):
                yield {name: bytes(t)}
        while True:
            yield {name: rand_bytes(rng, rng.randrange(0, maxlen + 1))}
    return gen


contract("buidl.op.decode_num", props=PROP, params={"element": N5}, requires=["len(element) <= 5"],
         ensures=["returns()", "result == %sscriptnum_dec(element)" % S, "-256**len(element) < 2 * result < 256**len(element)",
                  "implies(%sis_minimal_num(element), %ssame_bytes(%sscriptnum_enc(result), element))" % (S, S, S),
                  "(result != 0) == %scast_to_bool(element)" % S],
         gen=_bytes_gen("element", 5))
# truth value used by VERIFY / IF / NOTIF / IFDUP on elements of any length (symbolic scope: 0..8 bytes)
contract("buidl.op.decode_num#truth", props=PROP, params={"element": B8}, requires=["len(element) <= 8"],
         ensures=["returns()", "(result != 0) == %scast_to_bool(element)" % S], gen=_bytes_gen("element", 8))


def _small_gen(name, lo, hi):
    def gen(rng, tier):
        for v in range(lo, hi + 1):
            yield {name: v}
    return gen


contract("buidl.op.number_to_op_code", props=PROP, params={"n": "int"}, raises={"ValueError": "n < -1 or n > 16"},
         ensures=["implies(returns(), result == %ssmall_int_opcode(n))" % S], gen=_small_gen("n", -5, 20))
contract("buidl.op.number_to_op_code_byte", props=PROP, params={"n": "int"}, raises={"ValueError": "n < -1 or n > 16"},
         ensures=["implies(returns(), result == spec.le(%ssmall_int_opcode(n), 1))" % S], gen=_small_gen("n", -5, 20))
contract("buidl.op.op_code_to_number", props=PROP, params={"op_code": ("int", -3, 300)},
         raises={"ValueError": S + "small_int_of_opcode(op_code) is None"},
         ensures=["implies(returns(), result == %ssmall_int_of_opcode(op_code))" % S], gen=_small_gen("op_code", -3, 300))
contract("buidl.op.encode_minimal_num", props=PROP, params={"n": I32}, requires=["-2**31 < n < 2**31"],
         ensures=["returns()", "implies(-1 <= n <= 16, result == %ssmall_int_opcode(n))" % S,
                  "implies(n < -1 or n > 16, result == %sscriptnum_enc(n))" % S], gen=_num_gen("n", 2**31 - 1))

# ---------------------------------------------------------------------------- timelocks
_LT = [0, 1, 499999999, 500000000, 500000001, 2**31 - 1, 2**31, 2**32 - 2, 2**32 - 1]
_SEQ = [0, 1, 0xffff, 0x10000, (1 << 22) - 1, 1 << 22, (1 << 22) | 1, (1 << 22) | 0xffff, (1 << 22) | 0x10000, (1 << 23),
        (1 << 31) - 1, 1 << 31, (1 << 31) | 1, (1 << 31) | (1 << 22) | 5, 2**32 - 2, 2**32 - 1, 5, 10, (1 << 22) | 10]
_OPERANDS = sorted(set(_LT + _SEQ + [-1, 2**32, 2**32 + 5, 2**32 + (1 << 22) + 5, 2**39 - 1, 2**31 + 5, -5]))


def _operand_bytes():
    out = [None]
    for v in _OPERANDS:
        out.append(enc(v))
    out += [b"\x00", b"\x80", b"\x00\x00\x00\x00\x00", b"\x00\x00\x00\x00\x80", b"\x05\x00\x00\x00\x00", b"\x05\x00\x00\x80\x00",
            b"\x00\x00\x00\x00\x00\x01", b"\x05\x00\x00\x00\x00\x00"]
    return out


def _tl_gen(rng, tier):
    ops = _operand_bytes()

    def case(e, version, locktime, sequence):
        return {"depth": 0 if e is None else 1, "e6": e or b"", "version": version, "locktime": locktime, "sequence": sequence}
    # CSV-relevant: operand x input sequence (version 2), then the version boundary
    for e in ops:
        for sequence in _SEQ:
            yield case(e, 2, 0, sequence)
    # CLTV-relevant: operand x transaction locktime, input final / not final
    for e in ops:
        for locktime in _LT:
            yield case(e, 1, locktime, 0)
            yield case(e, 1, locktime, 0xffffffff)
    for e in ops:
        for version in (0, 1, 3, 2**32 - 1):
            yield case(e, version, 500000000, 5)
            yield case(e, version, 0, (1 << 22) | 0xffff)
    while True:
        v = rng.choice([rng.getrandbits(k) for k in (16, 22, 23, 31, 32, 33, 39)] + _OPERANDS)
        yield case(enc(v), rng.choice([0, 1, 2, 3]), rng.choice(_LT + [rng.getrandbits(32)]), rng.choice(_SEQ + [rng.getrandbits(32)]))


_TLP = {"depth": ("choice", [0, 1]), "e6": ("bytes", 0, 6), "version": U32, "locktime": U32, "sequence": U32}
contract("verif.harness.op.run_cltv", props=PROP, params=_TLP, requires=["len(e6) <= 6"],
         ensures=["returns()",
                  "implies(returns(), result[0] == %scheck_locktime(locktime, sequence, e6 if depth == 1 else None))" % S,
                  "implies(returns() and result[0], result[1] == [e6])"],
         gen=_tl_gen)
contract("verif.harness.op.run_csv", props=PROP, params=_TLP, requires=["len(e6) <= 6"],
         ensures=["returns()",
                  "implies(returns(), result[0] == %scheck_sequence(version, sequence, e6 if depth == 1 else None))" % S,
                  "implies(returns() and result[0], result[1] == [e6])"],
         gen=_tl_gen)


def _pair_gen(vals, extra=()):
    def gen(rng, tier):
        for a in vals:
            for b in vals:
                yield {"a": a, "b": b}
        for a in extra:
            yield {"a": a, "b": vals[0]}
            yield {"a": vals[0], "b": a}
        for _ in range(3000):
            yield {"a": rng.choice(vals + [rng.getrandbits(32)]), "b": rng.choice(vals + [rng.getrandbits(32)])}
    return gen


def _one_gen(vals):
    def gen(rng, tier):
        for a in vals:
            yield {"a": a}
        for _ in range(3000):
            yield {"a": rng.getrandbits(rng.choice([16, 22, 23, 31, 32]))}
    return gen


_ANY = ("int", -2, 2**32 + 1)
for _nm in ("locktime_new", "sequence_new"):
    contract("verif.harness.op.%s" % _nm, props=PROP, params={"n": _ANY}, raises={"ValueError": "n < 0 or n > 2**32 - 1"},
             ensures=["implies(returns(), result == n)"],
             gen=lambda rng, tier: ({"n": v} for v in (-2, -1, 0, 1, 2**32 - 1, 2**32, 2**32 + 1, 500000000)))
contract("verif.harness.op.locktime_is_comparable", props=PROP, params={"a": U32, "b": U32},
         ensures=["returns()", "result == %slocktime_same_kind(a, b)" % S], gen=_pair_gen(_LT))
contract("verif.harness.op.locktime_lt", props=PROP, params={"a": U32, "b": U32},
         raises={"ValueError": "not %slocktime_same_kind(a, b)" % S},
         ensures=["implies(returns(), result == (a < b))"], gen=_pair_gen(_LT))
contract("verif.harness.op.locktime_kind", props=PROP, params={"a": U32},
         ensures=["returns()", "result == ((a, None) if a < 500000000 else (None, a))"], gen=_one_gen(_LT))
contract("verif.harness.op.seq_flags", props=PROP, params={"a": U32},
         ensures=["returns()", "result[0] == %sseq_is_relative(a)" % S, "result[1] == %sseq_is_time(a)" % S,
                  "result[2] == %sseq_is_blocks(a)" % S, "result[3] == (a == 0xffffffff)", "result[4] == (a < 0xffffffff)"],
         gen=_one_gen(_SEQ))
contract("verif.harness.op.seq_amounts", props=PROP, params={"a": U32},
         ensures=["returns()",
                  "result[0] == (%sseq_value(a) if %sseq_is_blocks(a) else None)" % (S, S),
                  "result[1] == (%sseq_seconds(a) if %sseq_is_time(a) else None)" % (S, S)],
         gen=_one_gen(_SEQ))
contract("verif.harness.op.seq_is_comparable", props=PROP, params={"a": U32, "b": U32},
         ensures=["returns()", "result == %sseq_same_kind(a, b)" % S], gen=_pair_gen(_SEQ))
contract("verif.harness.op.seq_lt", props=PROP, params={"a": U32, "b": U32},
         raises={"ValueError": "not %sseq_same_kind(a, b)" % S},
         ensures=["implies(returns(), result == (%sseq_value(a) < %sseq_value(b)))" % (S, S)], gen=_pair_gen(_SEQ))

# ---------------------------------------------------------------------------- tail of Script.evaluate
_PUSH_OPS = [97, 117, 118, 115, 116, 130, 105, 145, 146, 139, 169]


def _push_gen(rng, tier):
    for e in E_ALL:
        yield {"x": e, "y": e, "opcode": 118}
    for e in E_ALL:
        for f in E_SMALL:
            yield {"x": e, "y": f, "opcode": rng.choice(_PUSH_OPS)}
            yield {"x": f, "y": e, "opcode": rng.choice(_PUSH_OPS)}
    for o in _PUSH_OPS:
        for e in E_NUM:
            yield {"x": e, "y": b"", "opcode": o}
    while True:
        yield {"x": rand_bytes(rng, rng.choice([0, 1, 2, 4, 9, 19, 21, 33])), "y": rand_bytes(rng, rng.choice([0, 1, 2, 4, 9, 19, 21, 33])),
               "opcode": rng.choice(_PUSH_OPS)}


contract("verif.harness.op.eval_push1", props=PROP, params={"x": B8}, requires=["len(x) <= 520"],
         ensures=["returns()", "result == %scast_to_bool(x)" % S], gen=_push_gen)
# two pushes; excluded by design: <empty> <20|32 bytes> and <01> <32 bytes> are witness programs for this evaluator
contract("verif.harness.op.eval_push2", props=PROP, params={"x": B8, "y": B8},
         requires=["len(x) <= 520", "len(y) <= 520", "len(y) != 20", "len(y) != 32"],
         ensures=["returns()", "result == %scast_to_bool(y)" % S], gen=_push_gen)
contract("verif.harness.op.eval_push_op", props=PROP, params={"x": N4, "opcode": ("choice", _PUSH_OPS)},
         requires=["len(x) <= 4"],
         ensures=["returns()", "result == %saccepts_push_op(x, opcode)" % S], gen=_push_gen)
contract("verif.harness.op.eval_empty", props=PROP, params={},
         ensures=["returns()", "result == False"], gen=lambda rng, tier: iter([{}]))
