"""C20: BCUR / bc32 / CBOR air-gap transport (buidl/bech32.py cbor_*, bc32*, convertbits; buidl/bcur.py).

Byte-level functions (cbor_encode / cbor_decode / convertbits) have symbolic contracts; text-level ones are declared with
the STR / B2S kinds (symbolic pass: `undecided`, reason printed) and run concretely in the bounded companion."""
from .common import *  # noqa
from .text import STR, B2S, LIST5, mutate, V5, ValueOf
import verif.specs as _S

T = _S.text
HB = "verif.harness.bcur."
HT = "verif.harness.text."
CBOR_EDGES = (0, 1, 22, 23, 24, 25, 254, 255, 256, 257, 65534, 65535, 65536, 65537, 70000)


def _gen_payload(name, edges=CBOR_EDGES, hi=600):
    def gen(rng, tier):
        for n in edges:
            yield {name: rand_bytes(rng, n)}
        yield {name: bytes(24)}
        yield {name: b"\xff" * 256}
        while True:
            yield {name: rand_bytes(rng, rng.randrange(0, hi))}
    return gen


# ------------------------------------------------------------------------------------------- CBOR byte-string wrapper
contract("buidl.bech32.cbor_encode", props=("C20",), params={"data": "bytes"}, requires=["len(data) < 2**32"],
         ensures=["returns()", "result == spec.text.cbor_bytes(data)",
                  "len(result) == spec.text.cbor_head_len(len(data)) + len(data)"], gen=_gen_payload("data"))
contract(HB + "cbor_rt", props=("C20",), params={"d": "bytes"}, requires=["len(d) < 2**32"],
         ensures=["returns()", "result == d"], gen=_gen_payload("d"))
# the decoder applied to what RFC 8949 prescribes (what any other UR implementation sends)
contract("buidl.bech32.cbor_decode#rfc", props=("C20",), ghost={"d": "bytes"}, requires=["len(d) < 2**32"],
         setup=ValueOf("spec.text.cbor_bytes(d)", "data"), args=["data"],
         ensures=["returns()", "result == d"], gen=_gen_payload("d"))

def crafted_cbor(rng, reason):
    n = rng.choice([0, 1, 5, 23, 24, 30, 255, 256, 300])
    d = rand_bytes(rng, n)
    good = T.cbor_bytes(d)
    if reason is None:
        k = rng.randrange(3)
        if k == 0 or n >= 2**16:
            return good
        if k == 1:          # non-preferred but well-formed heads
            w = rng.choice([1, 2, 4, 8]) if n < 256 else rng.choice([2, 4, 8])
            return bytes([0x57 + {1: 1, 2: 2, 4: 3, 8: 4}[w]]) + n.to_bytes(w, "big") + d
        return T.cbor_bytes(rand_bytes(rng, rng.choice([65536, 65537])))
    if reason == "empty":
        return b""
    if reason == "major-type":
        return bytes([rng.choice([0x00, 0x17, 0x20, 0x60, 0x63, 0x7F, 0x80, 0xA0, 0xC0, 0xF6, 0xFF, 0x3F])]) + d
    if reason == "reserved":
        return bytes([rng.choice([0x5C, 0x5D, 0x5E, 0x5F])]) + d
    if reason == "head-truncated":
        return rng.choice([b"\x58", b"\x59", b"\x59\x01", b"\x5a\x00\x00\x01", b"\x5b" + bytes(7)])
    if reason == "truncated":
        if n == 0:
            return b"\x41"
        return good[:len(good) - 1 - rng.randrange(min(n, 4))]
    if reason == "trailing":
        return good + rand_bytes(rng, 1 + rng.randrange(3))
    raise KeyError(reason)


CBOR_REASONS = ("empty", "major-type", "reserved", "head-truncated", "truncated", "trailing")
for _r in CBOR_REASONS:
    contract("buidl.bech32.cbor_decode#rejects-" + _r, props=("C20",), params={"data": ("bytes", 0, 40)},
             requires=["spec.text.cbor_reject_reason(data) == %r" % _r], ensures=["not returns() or result is None"],
             gen=(lambda r: (lambda rng, tier: ({"data": crafted_cbor(rng, r)} for _ in range(10**6))))(_r), max_paths=400)
contract("buidl.bech32.cbor_decode#accepts", props=("C20",), params={"data": ("bytes", 0, 40)}, max_paths=400,
         requires=["spec.text.cbor_reject_reason(data) is None"], ensures=["returns()", "result == spec.text.cbor_bytes_decode(data)"],
         gen=lambda rng, tier: ({"data": crafted_cbor(rng, None)} for _ in range(10**6)))

# ------------------------------------------------------------------------------------------- 8 <-> 5 bit regrouping
for _n in (1, 2, 5, 20):
    contract("buidl.bech32.convertbits#8to5-len%d" % _n, props=("C20",),
             params={"data": "bytes:%d" % _n, "frombits": ("const", 8), "tobits": ("const", 5)}, bv=64, timeout_ms=30000,
             ensures=["returns()", "result == spec.text.regroup(data, 8, 5, True)"])
_V8 = {"v%d" % i: V5 for i in range(8)}
contract(HT + "cb58_8", props=("C20",), params=_V8, bv=64, timeout_ms=30000,
         ensures=["returns()", "result == spec.text.regroup([v0, v1, v2, v3, v4, v5, v6, v7], 5, 8, False)"],
         gen=lambda rng, tier: ({"v%d" % i: rng.randrange(32) for i in range(8)} for _ in range(10**6)))
contract(HT + "cb58_4", props=("C20",), params={"v%d" % i: V5 for i in range(4)}, bv=64, timeout_ms=30000,
         ensures=["returns()", "result == spec.text.regroup([v0, v1, v2, v3], 5, 8, False)",
                  "(result is None) == (v3 % 16 != 0)"],           # 4 padding bits: must be zero
         gen=lambda rng, tier: ({"v%d" % i: rng.randrange(32) for i in range(4)} for _ in range(10**6)))
contract(HT + "cb58_2", props=("C20",), params={"v0": V5, "v1": V5}, bv=64, timeout_ms=30000,
         ensures=["returns()", "result == spec.text.regroup([v0, v1], 5, 8, False)", "(result is None) == (v1 % 4 != 0)"],
         gen=lambda rng, tier: ({"v0": rng.randrange(32), "v1": rng.randrange(32)} for _ in range(10**6)))
for _n in (1, 2, 5):
    contract(HB + "cb_rt#len%d" % _n, props=("C20",), params={"d": "bytes:%d" % _n}, bv=64, timeout_ms=30000,
             ensures=["returns()", "result is not None", "bytes(result) == d"])


def _gen_cb(rng, tier):
    for n in (0, 1, 2, 3, 4, 5, 6, 7, 8, 20, 32, 33, 100, 1000):
        yield {"data": rand_bytes(rng, n), "frombits": 8, "tobits": 5, "pad": True}
        yield {"data": [rng.randrange(32) for _ in range(n)], "frombits": 5, "tobits": 8, "pad": False}
        yield {"data": [rng.randrange(32) for _ in range(n)], "frombits": 5, "tobits": 8, "pad": True}
    yield {"data": [32], "frombits": 5, "tobits": 8, "pad": False}
    yield {"data": [-1], "frombits": 5, "tobits": 8, "pad": False}
    yield {"data": [256], "frombits": 8, "tobits": 5, "pad": True}
    while True:
        n = rng.randrange(0, 80)
        if rng.random() < 0.5:
            yield {"data": rand_bytes(rng, n), "frombits": 8, "tobits": 5, "pad": True}
        else:
            yield {"data": T.regroup(rand_bytes(rng, n), 8, 5, True), "frombits": 5, "tobits": 8, "pad": False}


contract("buidl.bech32.convertbits", props=("C20",), params={"data": LIST5, "frombits": "int", "tobits": "int", "pad": "bool"},
         ensures=["returns()", "result == spec.text.regroup(list(data), frombits, tobits, pad)"], gen=_gen_cb)

# ------------------------------------------------------------------------------------------- bc32
contract("buidl.bech32.bc32encode", props=("C20",), params={"data": B2S},
         ensures=["returns()", "result == spec.text.bc32_encode(data)"], gen=_gen_payload("data", (0, 1, 2, 3, 4, 5, 31, 32, 33, 1000)))
contract(HB + "bc32_rt", props=("C20",), params={"d": B2S}, ensures=["returns()", "result == d"],
         gen=_gen_payload("d", (0, 1, 2, 3, 4, 5, 31, 32, 33, 1000, 70000)))


def crafted_bc32(rng, reason):
    d = rand_bytes(rng, rng.choice([0, 1, 2, 5, 11, 32, 33, 100]))
    good = T.bc32_encode(d)
    if reason is None:
        return good if rng.random() < 0.8 else good.upper()
    if reason == "case":
        idx = [i for i, c in enumerate(good) if c.isalpha()]
        i = rng.choice(idx)
        return good[:i] + good[i].upper() + good[i + 1:]
    if reason == "charset":
        i = rng.randrange(len(good))
        return good[:i] + rng.choice("1bio!/ ") + good[i + 1:]
    if reason == "short":
        return good[:rng.randrange(6)] if rng.random() < 0.5 else "".join(rng.choice(T.CHARSET) for _ in range(rng.randrange(6)))
    if reason == "checksum":
        k = rng.randrange(3)
        if k == 0:
            i = rng.randrange(len(good))
            return good[:i] + rng.choice([c for c in T.CHARSET if c != good[i]]) + good[i + 1:]
        if k == 1:
            return mutate(rng, good, T.CHARSET)
        # a bech32 / bech32m checksum instead of the bc32 constant
        dd = T.regroup(d, 8, 5, True)
        pm = T.bech32_polymod([0] + dd + [0] * 6) ^ rng.choice([T.BECH32_CONST, T.BECH32M_CONST])
        return "".join(T.CHARSET[x] for x in dd + [(pm >> (5 * (5 - i))) & 31 for i in range(6)])
    if reason == "padding":
        dd = T.regroup(d + b"\x01", 8, 5, True)
        k = rng.randrange(2)
        if k == 0:
            dd = dd + [0]                         # a whole extra group (or extra zero byte if it completes one)
        else:
            dd = dd[:-1] + [dd[-1] | 1]
        pm = T.bech32_polymod([0] + dd + [0] * 6) ^ T.BC32_CONST
        return "".join(T.CHARSET[x] for x in dd + [(pm >> (5 * (5 - i))) & 31 for i in range(6)])
    raise KeyError(reason)


BC32_REASONS = ("case", "charset", "short", "checksum", "padding")
for _r in BC32_REASONS:
    contract("buidl.bech32.bc32decode#rejects-" + _r, props=("C20",), params={"bc32": STR},
             requires=["spec.text.bc32_reject_reason(bc32) == %r" % _r], ensures=["not returns() or result is None"],
             gen=(lambda r: (lambda rng, tier: ({"bc32": crafted_bc32(rng, r)} for _ in range(10**6))))(_r))
contract("buidl.bech32.bc32decode#accepts", props=("C20",), params={"bc32": STR},
         requires=["spec.text.bc32_reject_reason(bc32) is None"], ensures=["returns()", "result == spec.text.bc32_decode(bc32)"],
         gen=lambda rng, tier: ({"bc32": crafted_bc32(rng, None)} for _ in range(10**6)))

# ------------------------------------------------------------------------------------------- UR single part
contract("buidl.bcur.bcur_encode", props=("C20",), params={"data": B2S},
         ensures=["returns()", "tuple(result) == spec.text.ur_bytes_encode(data)"], gen=_gen_payload("data"))
contract(HB + "bcur_rt", props=("C20",), params={"payload": B2S},
         ensures=["returns()", "result == (payload, payload)"], gen=_gen_payload("payload"))


def _gen_single(rng, tier):
    for n in CBOR_EDGES[:11]:
        for c in (True, False):
            yield {"payload": rand_bytes(rng, n), "use_checksum": c}
    while True:
        yield {"payload": rand_bytes(rng, rng.randrange(0, 400)), "use_checksum": rng.random() < 0.5}


contract(HB + "single_encode", props=("C20",), params={"payload": B2S, "use_checksum": "bool"},
         ensures=["returns()",
                  "result == 'ur:bytes/' + (spec.text.ur_bytes_encode(payload)[1] + '/' if use_checksum else '') + spec.text.ur_bytes_encode(payload)[0]"],
         gen=_gen_single)
contract(HB + "single_parse", props=("C20",), ghost={"payload": B2S, "use_checksum": "bool"},
         setup=ValueOf("'ur:bytes/' + (spec.text.ur_bytes_encode(payload)[1] + '/' if use_checksum else '') + spec.text.ur_bytes_encode(payload)[0]", "s"),
         args=["s"], requires=["len(payload) < 65536"], ensures=["returns()", "result == payload"], gen=_gen_single)


# ------------------------------------------------------------------------------------------- UR multi part
def _gen_multi(rng, tier):
    for n in (0, 1, 23, 24, 100, 255, 256, 700):
        for m in (1, 2, 3, 7, 50, 299, 300, 301, 2000):
            yield {"payload": rand_bytes(rng, n), "max_size_per_chunk": m}
    while True:
        yield {"payload": rand_bytes(rng, rng.randrange(0, 900)), "max_size_per_chunk": rng.choice([rng.randrange(1, 40), rng.randrange(1, 2001)])}


contract(HB + "multi_encode_full", props=("C20",), params={"payload": B2S, "max_size_per_chunk": ("int", 1, 2000)},
         requires=["max_size_per_chunk >= 1"],
         ensures=["returns()",
                  # chunks: none empty, none above the limit, numbered i-of-n with the digest, concatenation == the single encoding
                  "spec.text.ur_parts_problem(result[0], result[1], result[2], max_size_per_chunk) is None",
                  "(result[1], result[2]) == spec.text.ur_bytes_encode(payload)"], gen=_gen_multi)
contract(HB + "multi_roundtrip", props=("C20",), params={"payload": B2S, "max_size_per_chunk": ("int", 1, 2000)},
         requires=["max_size_per_chunk >= 1"], ensures=["returns()", "result == payload"], gen=_gen_multi)
# tampered part lists (built by the bounded jobs of props/C20.py): rejected, or exactly the original payload
contract(HB + "multi_accepts", props=("C20",), params={"parts": STR}, ghost={"payload": B2S},
         ensures=["returns()", "result is None or result == payload"])
# strict reading of bcr-2020-005: accepted exactly when the list is the complete ordered set 1..n of n
contract(HB + "multi_accepts#strict", props=("C20",), params={"parts": STR},
         ensures=["result == spec.text.ur_parts_payload(parts)"])
contract(HB + "single_accepts", props=("C20",), params={"s": STR}, ghost={"payload": B2S},
         ensures=["returns()", "result is None or result == payload"])
