"""helper.py: compact-size / var-string / fixed-width integer codecs (C04, C19), compact bits (C17)"""
from .common import *  # noqa

U64 = ("int", 0, 2**64 - 1)

contract("buidl.helper.encode_varint", props=("C04", "C19"), params={"i": "int"}, requires=["i >= 0"],
         raises={"RuntimeError": "i >= 2**64"},
         ensures=["implies(returns(), result == spec.compact_size(i))"],
         gen=ints_gen("i"))


def _gen_rv(rng, tier):
    for b in BOUNDARY_INTS:
        if b < 2**64:
            yield {"v": b, "tail": rand_bytes(rng, rng.randrange(0, 4))}
    while True:
        yield {"v": rng.getrandbits(rng.choice([7, 8, 16, 17, 32, 33, 64])), "tail": rand_bytes(rng, rng.randrange(0, 4))}


contract("buidl.helper.read_varint", props=("C04", "C19"), ghost={"v": U64, "tail": "bytes"},
         setup=StreamOf("spec.compact_size(v) + tail"),
         ensures=["returns()", "result == v", "s.read() == tail"], gen=_gen_rv)


def _gen_vs(rng, tier):
    for n in (0, 1, 75, 76, 252, 253, 254, 255, 256, 65535, 65536, 70000):
        yield {"b": rand_bytes(rng, n), "v": rand_bytes(rng, n), "tail": rand_bytes(rng, 2)}
    while True:
        n = rng.randrange(0, 600)
        yield {"b": rand_bytes(rng, n), "v": rand_bytes(rng, n), "tail": rand_bytes(rng, 2)}


contract("buidl.helper.encode_varstr", props=("C04", "C19"), params={"b": "bytes"}, requires=["len(b) < 2**64"],
         ensures=["returns()", "result == spec.varstr(b)"], gen=_gen_vs)
contract("buidl.helper.read_varstr", props=("C04", "C19"), ghost={"v": "bytes", "tail": "bytes"},
         requires=["len(v) < 2**64"], setup=StreamOf("spec.varstr(v) + tail"),
         ensures=["returns()", "result == v", "s.read() == tail"], gen=_gen_vs)


def _gen_fixed(rng, tier):
    for w in (1, 2, 4, 8, 32):
        for v in (0, 1, 255, 256, 256**w - 1, 256**w, 256**w // 2):
            yield {"n": v, "length": w}
    while True:
        w = rng.choice([1, 2, 4, 8, 32])
        yield {"n": rng.getrandbits(8 * w), "length": w}


for _w in (1, 2, 4, 8, 32):
    contract("buidl.helper.int_to_little_endian#w%d" % _w, props=("C19",), params={"n": "int", "length": ("const", _w)},
             requires=["n >= 0"], raises={"OverflowError": "n >= 256**length"},
             ensures=["implies(returns(), len(result) == length)",
                      "implies(returns(), spec.int_le(result) == n)"], gen=_gen_fixed if _w == 1 else None)
    contract("buidl.helper.int_to_big_endian#w%d" % _w, props=("C19",), params={"n": "int", "length": ("const", _w)},
             requires=["n >= 0"], raises={"OverflowError": "n >= 256**length"},
             ensures=["implies(returns(), len(result) == length)",
                      "implies(returns(), spec.int_be(result) == n)"], gen=_gen_fixed if _w == 1 else None)
    contract("buidl.helper.little_endian_to_int#w%d" % _w, props=("C19",), params={"b": "bytes:%d" % _w},
             ensures=["returns()", "result == spec.int_le(b)", "0 <= result < 256**%d" % _w, "spec.le(result, %d) == b" % _w])
    contract("buidl.helper.big_endian_to_int#w%d" % _w, props=("C19",), params={"b": "bytes:%d" % _w},
             ensures=["returns()", "result == spec.int_be(b)", "0 <= result < 256**%d" % _w, "spec.be(result, %d) == b" % _w])
