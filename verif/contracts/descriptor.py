"""C16: wsh(sortedmulti) output descriptors (buidl/descriptor.py).

calc_poly_mod is an int function and gets a symbolic (bit-vector) contract against the GF(32) shift-register step of Bitcoin
Core's descriptor checksum; everything else handles text and EC keys and is exercised concretely (STR kind: the symbolic
pass reports `undecided` with the reason)."""
import random

from .common import *  # noqa
from .text import STR, ValueOf
import verif.specs as _S

T = _S.text
HD = "verif.harness.descriptor."

# for ALL 2^40 x 32 inputs the real step function is the GF(32) LFSR step of Core's code (g(x) of degree 8): the checksum is therefore a
# linear code and a substitution (1-2 changed symbols within 4 consecutive positions, degree < 8) can never be a multiple of g(x)
contract("buidl.descriptor.calc_poly_mod", props=("C16",), params={"c": ("int", 0, 2**40 - 1), "val": ("int", 0, 31)}, bv=48, timeout_ms=30000,
         ensures=["returns()", "result == spec.text.bch_step(c, val, spec.text.DESC_GEN)", "0 <= result < 2**40"],
         gen=lambda rng, tier: ({"c": rng.getrandbits(40), "val": rng.randrange(32)} for _ in range(10**6)))

# ------------------------------------------------------------------------------------------- material
PATHS = ["m/48h/1h/0h/2h", "m/48'/0'/0'/2'", "m", "m/0", "m/45h/0", "m/48H/1H/0H/2H", "m/2147483647h/0/2147483647"]
_POOL = {}


def key_pool(network, n=8, seed=1):
    """deterministic pool of (xfp, path, xpub) with standard version bytes for `network` (mainnet/testnet)"""
    k = (network, n, seed)
    if k not in _POOL:
        rng = random.Random(seed * 31 + (network == "mainnet"))
        out = []
        for i in range(n):
            pt = T.ec_mul(rng.randrange(1, T.SECP_N), T.SECP_G)
            x = T.xpub_encode(T.XPUB_STANDARD[network], rng.randrange(0, 6), rand_bytes(rng, 4), rng.choice([0, 1, 2**31 + 2, 2**32 - 1]),
                              rand_bytes(rng, 32), T.sec33(pt))
            out.append(("%08x" % rng.getrandbits(32), rng.choice(PATHS), x))
        _POOL[k] = out
    return _POOL[k]


SLIP132 = {"mainnet": ["0488b21e", "049d7cb2", "04b24746", "0295b43f", "02aa7ed3"],
           "testnet": ["043587cf", "044a5262", "045f1cf6", "024289ef", "02575483"]}


def reversion(xpub, version_hex):
    d = T.xpub_decode(xpub)
    return T.xpub_encode(version_hex, d[1], d[2], d[3], d[4], d[5])


def wallet(rng, n, network=None, slip132=False, indexes=(0, 0, 0, 1, 5, 2**31 - 2)):
    """n key records [(xfp, path, xpub, account_index)] and their network"""
    network = network or rng.choice(["mainnet", "testnet"])
    recs = []
    for xfp, path, x in rng.sample(key_pool(network), n):
        if slip132:
            x = reversion(x, rng.choice(SLIP132[network]))
        recs.append((xfp, path, x, rng.choice(indexes)))
    return recs, network


def all_quorums(max_n=6):
    for n in range(1, max_n + 1):
        for m in range(1, n + 1):
            yield m, n


ALPHABET = T.DESC_INPUT


def _gen_text(rng, tier):
    for t in ["", "a", "ab", "abc", "abcd", "wsh()", "raw(deadbeef)", "pkh(02c6047f9441ed7d6d3045406e95c07cd85c778e4b8cef3ca7abac09b95c709ee5)",
              "wpkh(02f9308a019258c31049344f85f89d5229b531c845836f99b08601f113bce036f9)", " ", "#", ALPHABET, ALPHABET[::-1] * 3]:
        yield {"output_descriptor": t}
    for t in ["é", "wsh(\n)", "abc\t", "\x7f"]:
        yield {"output_descriptor": t}
    for n in (4094, 4095, 4096, 1000, 333):
        yield {"output_descriptor": "".join(rng.choice(ALPHABET) for _ in range(n))}
    for m, n in all_quorums():
        recs, net = wallet(rng, n, slip132=(n % 2 == 0))
        yield {"output_descriptor": T.sortedmulti_text(m, recs)}
    while True:
        yield {"output_descriptor": "".join(rng.choice(ALPHABET) for _ in range(rng.choice([rng.randrange(0, 40), rng.randrange(0, 4097)])))}


contract("buidl.descriptor.calc_core_checksum", props=("C16",), params={"output_descriptor": STR},
         raises={"ValueError": "spec.text.descriptor_checksum(output_descriptor) is None"},
         ensures=["implies(returns(), result == spec.text.descriptor_checksum(output_descriptor))"], gen=_gen_text)


# ------------------------------------------------------------------------------------------- text generation / parsing
def _gen_build(rng, tier):
    for slip in (False, True):
        for m, n in all_quorums():
            recs, net = wallet(rng, n, slip132=slip)
            yield {"m": m, "records": recs, "sort": True}
            if n > 1:
                yield {"m": m, "records": recs, "sort": False}
    while True:
        n = rng.randrange(1, 7)
        recs, net = wallet(rng, n, slip132=rng.random() < 0.5)
        yield {"m": rng.randrange(1, n + 1), "records": recs, "sort": rng.random() < 0.7}


_Q = ["1 <= m <= len(records) <= 6"]
contract(HD + "build", props=("C16",), params={"m": ("int", 1, 6), "records": STR, "sort": "bool"}, requires=_Q,
         ensures=["returns()", "result == spec.text.sortedmulti_descriptor(m, records, sort)", "spec.text.descriptor_verify(result)"],
         gen=_gen_build)


def _gen_parse(rng, tier):
    for d in _gen_build(rng, tier):
        yield dict(d, with_checksum=rng.random() < 0.7)


_TEXT = ValueOf("spec.text.sortedmulti_descriptor(m, records, sort) if with_checksum else spec.text.sortedmulti_text(m, records, sort)", "text")
_G = {"m": ("int", 1, 6), "records": STR, "sort": "bool", "with_checksum": "bool"}
# parse(str(d)) reproduces d: same text (hence same m, key records in the same order, checksum) ...
contract(HD + "parse_str", props=("C16",), ghost=_G, requires=_Q + ["all(r[0] == r[0].lower() for r in records)"], setup=_TEXT, args=["text"],
         ensures=["returns()", "result == spec.text.sortedmulti_descriptor(m, records, sort)"], gen=_gen_parse)
# ... and the parsed state is what the text says (keys normalised to BIP32 version bytes; network from the keys)
contract(HD + "parse_state", props=("C16",), ghost=_G, requires=_Q, setup=_TEXT, args=["text"],
         ensures=["returns()", "result[0] == m",
                  "result[1] == [(r[0], r[1], spec.text.xpub_standardise(r[2]), r[3]) for r in (sorted(records, key=lambda r: spec.text.xpub_standardise(r[2])) if sort else records)]",
                  "result[2] == spec.text.XPUB_VERSIONS[spec.text.xpub_decode(records[0][2])[0]]",
                  "result[3] == spec.text.descriptor_checksum(spec.text.sortedmulti_text(m, records, sort))"], gen=_gen_parse)


# fingerprints are hex in either case (the constructor accepts both, as Bitcoin Core does): the text it prints must parse back
def _gen_upper(rng, tier):
    for d in _gen_parse(rng, tier):
        recs = [((r[0].upper() if (i == 0 or rng.random() < 0.5) else r[0]),) + tuple(r[1:]) for i, r in enumerate(d["records"])]
        if any(r[0] != r[0].lower() for r in recs):
            yield dict(d, records=recs)


contract(HD + "parse_str#uppercase-xfp", props=("C16",), ghost=_G, requires=_Q + ["any(r[0] != r[0].lower() for r in records)"], setup=_TEXT, args=["text"],
         ensures=["returns()", "result == spec.text.sortedmulti_descriptor(m, records, sort)"], gen=_gen_upper)
contract(HD + "build#uppercase-xfp", props=("C16",), params={"m": ("int", 1, 6), "records": STR, "sort": "bool"},
         requires=_Q + ["any(r[0] != r[0].lower() for r in records)"],
         ensures=["returns()", "result == spec.text.sortedmulti_descriptor(m, records, sort)"],
         gen=lambda rng, tier: ({k: d[k] for k in ("m", "records", "sort")} for d in _gen_upper(rng, tier)))


# ------------------------------------------------------------------------------------------- addresses
OFFSETS = (0, 1, 2, 19, 2**31 - 1, 2**16, 999983)


def _gen_addr(rng, tier):
    for m, n in all_quorums():
        recs, net = wallet(rng, n, slip132=(m % 2 == 0))
        for is_change in (False, True):
            yield {"m": m, "records": recs, "offset": rng.choice(OFFSETS), "is_change": is_change}
    while True:
        n = rng.randrange(1, 7)
        recs, net = wallet(rng, n, slip132=rng.random() < 0.3)
        yield {"m": rng.randrange(1, n + 1), "records": recs, "offset": rng.choice(OFFSETS + (rng.randrange(2**31),)), "is_change": rng.random() < 0.5}


_NET = "spec.text.XPUB_VERSIONS[spec.text.xpub_decode(records[0][2])[0]]"
contract(HD + "address", props=("C16",), params={"m": ("int", 1, 6), "records": STR, "offset": ("int", 0, 2**31 - 1), "is_change": "bool"},
         requires=_Q + ["0 <= offset < 2**31"],
         ensures=["returns()",
                  # P2WSH of  m <child keys in lexicographic order> n CHECKMULTISIG, branch = account_index + is_change
                  "result == spec.text.sortedmulti_address(m, [(r[2], r[3]) for r in records], 1 if is_change else 0, offset, " + _NET + ")"],
         gen=_gen_addr)
contract(HD + "address_of_text", props=("C16",), ghost=dict(_G), params={"offset": ("int", 0, 2**31 - 1), "is_change": "bool"},
         requires=_Q + ["0 <= offset < 2**31"], setup=_TEXT, args=["text", "offset", "is_change"],
         ensures=["returns()",
                  "result == spec.text.sortedmulti_address(m, [(r[2], r[3]) for r in records], 1 if is_change else 0, offset, " + _NET + ")"],
         gen=lambda rng, tier: (dict(d, sort=rng.random() < 0.5, with_checksum=rng.random() < 0.5) for d in _gen_addr(rng, tier)))
