"""C12 taproot commitments, C13 MuSig / k-of-n trees (buidl/taproot.py, pecc.py tweak functions)
in the discrete-log theory of contracts/ecc.py."""
import itertools

from .common import *  # noqa
from .ecc import point, N

H32 = "bytes:32"
RAW = ("bytes", 1, 300)          # leaf script bytes: all three compact-size/push length classes below 0x10000
VER = ("int", 0, 255)
H = "verif.harness.taproot."


def PARSE_XONLY_LEMMA(m, env):
    """setup hook of the MuSig contracts: inside them a call  S256Point.parse_xonly(x32(P))  for a point P that
    is already on the path is replaced by its PROVED contract (verif.harness.taproot.parse_xonly_of, property C12:
    parse_xonly(P.xonly()) is the even-y point with P's x, i.e. P or -P) instead of re-executing the modular
    square root.  Any other argument falls through to the real code.  Reason: the real body yields a point with a
    fresh discrete logarithm plus square-root facts mod p, after which neither zn_ring nor z3 can relate
    sum(c_i * parsed_i) to the secrets (see notes/C12_C13.md); in the discrete-log model a point is determined by
    (x, y) (A-PRIME), which is what this substitution uses."""
    import z3
    from buidl.pecc import S256Point
    from verif.pyvc import theories

    def i_parse_xonly(mm, args, kwargs):
        if len(args) != 2 or kwargs:
            return NotImplemented
        try:
            x = mm.it(mm.with_int_mode(lambda: mm.int_from_bytes(args[1], "big")))
        except Exception:
            return NotImplemented
        xs = z3.simplify(x)
        for c0 in list(mm.p.__dict__.get("_curve_scalars", [])):
            if z3.simplify(theories.Xc(c0)).eq(xs):
                if mm.p.branch(theories.Yc(c0) % 2 == 0):
                    return theories.mk_point(mm, c0)
                return theories.mk_point(mm, -c0)
        return NotImplemented
    m.intrinsics[S256Point.parse_xonly.__func__] = i_parse_xonly


PARSE_XONLY_LEMMA.conc = lambda env, glob: None


def _rb(rng, n):
    return rand_bytes(rng, n)


def _raws(rng):
    return [b"\x51", b"\x20" + _rb(rng, 32) + b"\xac", _rb(rng, 0xFC), _rb(rng, 0xFD), _rb(rng, 0xFE), _rb(rng, 299),
            _rb(rng, rng.randrange(1, 300))]


# ---------------------------------------------------------------------------- leaf / branch hashes
def _gen_leaf(rng, tier):
    for v in (0xC0, 0xC2, 0x00, 0xFE, 0x50, 0xC1):
        for r in _raws(rng):
            yield {"version": v, "raw": r}
    while True:
        yield {"version": rng.randrange(256), "raw": _rb(rng, rng.randrange(1, 300))}


contract(H + "leaf_hash", props=("C12",), params={"version": VER, "raw": RAW},
         ensures=["returns()", "result == spec.taproot.tapleaf_hash(version, raw)", "len(result) == 32"],
         gen=_gen_leaf)

contract(H + "leaf_hash_p2pk", props=("C12",), params={"version": VER, "x": H32},
         ensures=["returns()", "result == spec.taproot.tapleaf_hash(version, b'\\x20' + x + b'\\xac')"],
         gen=lambda rng, tier: ({"version": rng.choice([0xC0, 0xC2, 0, 0xFE]), "x": _rb(rng, 32)} for _ in range(40)))


def _gen_branch(rng, tier):
    for v1, v2 in ((0xC0, 0xC0), (0xC0, 0xC2), (0, 0xFE)):
        rs = _raws(rng)
        for r1 in rs[:4]:
            for r2 in rs[:4]:
                yield {"v1": v1, "raw1": r1, "v2": v2, "raw2": r2}
    while True:
        yield {"v1": 0xC0, "raw1": _rb(rng, rng.randrange(1, 300)), "v2": 0xC0, "raw2": _rb(rng, rng.randrange(1, 300))}


_BR = {"v1": VER, "raw1": RAW, "v2": VER, "raw2": RAW}
contract(H + "branch_hash", props=("C12",), params=_BR,
         ensures=["returns()",
                  "result == spec.taproot.tapbranch_hash(spec.taproot.tapleaf_hash(v1, raw1), spec.taproot.tapleaf_hash(v2, raw2))",
                  "result == spec.taproot.tree_hash(((v1, raw1), (v2, raw2)))"],
         gen=_gen_branch)


def _inj(a, b):
    """LEMMA handed to the engine as a precondition (true for ALL inputs, so it restricts nothing): big-endian
    decoding is injective on 32-byte strings.  The engine orders equal-length byte strings through
    int.from_bytes and does not know this inverse direction for opaque hash values (tie case a == b)."""
    return "implies(spec.int_be(%s) == spec.int_be(%s), %s == %s)" % (a, b, a, b)


_L1, _L2 = "spec.taproot.tapleaf_hash(v1, raw1)", "spec.taproot.tapleaf_hash(v2, raw2)"
# the Merkle root does not depend on the left/right order of siblings
contract(H + "branch_hash_swapped", props=("C12",), params=_BR, requires=[_inj(_L1, _L2)],
         ensures=["returns()", "result[0] == result[1]"], gen=_gen_branch)
_K1, _K2, _K3 = ("spec.taproot.tapleaf_hash(0xC0, raw%d)" % i for i in (1, 2, 3))
RAW80 = ("bytes", 1, 80)
contract(H + "branch3_hashes", props=("C12",), params={"raw1": RAW80, "raw2": RAW80, "raw3": RAW80},
         requires=[_inj(_K1, _K2), _inj("spec.taproot.tapbranch_hash(%s, %s)" % (_K1, _K2), _K3)],
         ensures=["returns()", "result[0] == result[1] and result[0] == result[2] and result[0] == result[3]",
                  "result[0] == spec.taproot.tree_hash((((0xC0, raw1), (0xC0, raw2)), (0xC0, raw3)))"],
         gen=lambda rng, tier: ({"raw1": _rb(rng, rng.randrange(1, 80)), "raw2": _rb(rng, rng.randrange(1, 80)),
                                 "raw3": _rb(rng, rng.randrange(1, 80))} for _ in range(60)))


# ---------------------------------------------------------------------------- tweaks (pecc.py)
_DS = [1, 2, 3, N - 1, N - 2, 2**128 + 7, 2**255 + 99]
_ROOTS = [bytes(32), b"\xff" * 32, bytes(range(32))]


def _gen_pub_root(rng, tier):
    for d in _DS:
        for r in _ROOTS[:2]:
            yield {"pub": {"__point__": d}, "root": r, "d": d}
    while True:
        d = rng.randrange(1, N)
        yield {"pub": {"__point__": d}, "root": _rb(rng, 32), "d": d}


def _only(gen, *names):
    def g(rng, tier):
        for x in gen(rng, tier):
            yield {k: v for k, v in x.items() if k in names}
    return g


def _with(gen, **extra):
    def g(rng, tier):
        for x in gen(rng, tier):
            yield dict(x, **extra)
    return g


contract(H + "even_point", props=("C12",), nl_uf=True, params={"pub": point},
         ensures=["returns()", "spec.curve.same(result, spec.taproot.even(pub))", "spec.curve.has_even_y(result)",
                  "spec.curve.x_of(result) == spec.curve.x_of(pub)", "result.parity == 0"],
         gen=_only(_gen_pub_root, "pub"))
contract(H + "even_secret", props=("C12",), nl_uf=True, params={"d": ("int", 1, N - 1)},
         ensures=["returns()", "result == spec.taproot.even_secret(d)", "1 <= result < spec.taproot.N",
                  "spec.curve.same(spec.curve.mul_G(result), spec.taproot.even(spec.curve.mul_G(d)))"],
         gen=_only(_gen_pub_root, "d"))

for _sfx, _kind in (("root", H32), ("keypath", ("const", b""))):
    _g = _gen_pub_root if _sfx == "root" else _with(_gen_pub_root, root=b"")
    contract(H + "tweak_bytes#" + _sfx, props=("C12",), nl_uf=True, params={"pub": point, "root": _kind},
             ensures=["returns()", "spec.int_be(result) == spec.taproot.taptweak(spec.taproot.x32(pub), root)", "len(result) == 32"],
             gen=_only(_g, "pub", "root"))
    # Q = even(P) + t*G as a group element, for every key and root (also in the negligible cases)
    contract(H + "tweaked_pub#" + _sfx + "-any", props=("C12",), nl_uf=True, params={"pub": point, "root": _kind},
             ensures=["returns()", "spec.curve.same(result, spec.taproot.output_key(pub, root))"],
             gen=_only(_g, "pub", "root"))
    # with the tweak defined (A-NEGL): finite, x-only bytes and parity as BIP341 states them
    contract(H + "tweaked_pub#" + _sfx, props=("C12",), nl_uf=True, params={"pub": point, "root": _kind},
             requires=["spec.taproot.tweak_defined(pub, root)"],
             ensures=["returns()", "not spec.curve.is_inf(result)",
                      "result.xonly() == spec.taproot.x32(spec.taproot.output_key(pub, root))",
                      "result.parity == spec.taproot.parity(spec.taproot.output_key(pub, root))"],
             gen=_only(_g, "pub", "root"))
    contract(H + "tweaked_priv_secret#" + _sfx, props=("C12",), nl_uf=True, params={"d": ("int", 1, N - 1), "root": _kind},
             requires=["spec.taproot.tweak_defined(spec.curve.mul_G(d), root)"],
             ensures=["returns()", "result == spec.taproot.tweaked_secret(d, root)", "1 <= result < spec.taproot.N"],
             gen=_only(_g, "d", "root"))
    # the tweaked private key is the discrete logarithm of the tweaked public key
    contract(H + "tweaked_priv_vs_pub#" + _sfx, props=("C12",), nl_uf=True, params={"d": ("int", 1, N - 1), "root": _kind},
             requires=["spec.taproot.tweak_defined(spec.curve.mul_G(d), root)"],
             ensures=["returns()", "spec.curve.same(result[0], result[1])",
                      "spec.curve.same(result[0], spec.taproot.output_key(spec.curve.mul_G(d), root))",
                      "result[0].xonly() == result[1].xonly() and result[0].parity == result[1].parity"],
             gen=_only(_g, "d", "root"))


def _gen_keypath(rng, tier):
    for d in _DS[:4]:
        yield {"d": d, "root": bytes(32), "msg": b"\x01" * 32, "aux": bytes(32)}
    while True:
        yield {"d": rng.randrange(1, N), "root": _rb(rng, 32), "msg": _rb(rng, 32), "aux": _rb(rng, 32)}


# key path spend: the signature made with the tweaked private key is a valid BIP340 signature for the output key
for _sfx, _kind in (("root", H32), ("keypath", ("const", b""))):
    _g = _gen_keypath if _sfx == "root" else _with(_gen_keypath, root=b"")
    contract(H + "keypath_sign#" + _sfx, props=("C12",), nl_uf=True,
             params={"d": ("int", 1, N - 1), "root": _kind, "msg": H32, "aux": H32},
             requires=["spec.taproot.tweak_defined(spec.curve.mul_G(d), root)",
                       "spec.schnorr.sign_defined(spec.taproot.tweaked_secret(d, root), msg, aux)"],
             ensures=["returns()", "result[0] == spec.taproot.x32(spec.taproot.output_key(spec.curve.mul_G(d), root))",
                      "spec.schnorr.verify(result[0], msg, result[1]) is True",
                      "result[1] == spec.schnorr.sign(spec.taproot.tweaked_secret(d, root), msg, aux)"],
             gen=_g)


# ---------------------------------------------------------------------------- control blocks
def _gen_cb(k, with_pub):
    def gen(rng, tier):
        for t in range(40):
            d = {"version": rng.choice([0xC0, 0xC0, 0xC2, 0x00, 0xFE]), "raw": _rb(rng, rng.choice([1, 34, 0xFD, 299]))}
            if with_pub:
                d["pub"] = {"__point__": _DS[t] if t < len(_DS) else rng.randrange(1, N)}
            for j in range(k):
                d["h%d" % j] = _rb(rng, 32) if t % 5 else bytes([0xFF if (t + j) % 2 else 0]) * 32
            yield d
    return gen


_LEAFH = "spec.taproot.tapleaf_hash(version, raw)"
for _k in range(4):
    _hs = ["h%d" % j for j in range(_k)]
    _root = "spec.taproot.path%d(%s)" % (_k, ", ".join([_LEAFH] + _hs))
    contract(H + "cb_root%d" % _k, props=("C12",), params=dict({"version": VER, "raw": RAW}, **{h: H32 for h in _hs}),
             ensures=["returns()", "result == " + _root], gen=_gen_cb(_k, False))
    contract(H + "cb_external%d" % _k, props=("C12",), nl_uf=True,
             params=dict({"pub": point, "version": VER, "raw": RAW}, **{h: H32 for h in _hs}),
             requires=["spec.taproot.tweak_defined(pub, %s)" % _root],
             ensures=["returns()", "spec.curve.same(result, spec.taproot.output_key(pub, %s))" % _root,
                      "result.xonly() == spec.taproot.x32(spec.taproot.output_key(pub, %s))" % _root,
                      "result.parity == spec.taproot.parity(spec.taproot.output_key(pub, %s))" % _root],
             gen=_gen_cb(_k, True), tiers=("quick", "thorough") if _k <= 2 else ("thorough",))


# ---------------------------------------------------------------------------- whole trees, every leaf
D32 = "bytes:32"                 # leaf script `<32 symbolic bytes> OP_CHECKSIG` (P2PK tapscript with a symbolic key)


def _shape_expr(shape, var):
    if isinstance(shape, int):
        return "(0xC0, spec.taproot.push_script(d%d, 0xAC))" % var[shape]
    return "(%s, %s)" % (_shape_expr(shape[0], var), _shape_expr(shape[1], var))


def _count(shape):
    return 1 if isinstance(shape, int) else _count(shape[0]) + _count(shape[1])


def _sibling_distinct(shape, var):
    """A-CR (stated): two DIFFERENT children of a branch have different hashes (identical children -- duplicate
    leaves -- are allowed and are what the *_dup contracts are about).  Engine reason: in the tie case code and
    spec concatenate the two equal hashes in opposite orders; z3 identifies the two tweaks but the sign-canonical
    form of the tweaked scalar may pick opposite representatives, and y(-a) = p - y(a) is not a z3 axiom."""
    if isinstance(shape, int):
        return []
    l, r = _shape_expr(shape[0], var), _shape_expr(shape[1], var)
    out = _sibling_distinct(shape[0], var) + _sibling_distinct(shape[1], var)
    if l != r:
        out.append("spec.int_be(spec.taproot.tree_hash(%s)) != spec.int_be(spec.taproot.tree_hash(%s))" % (l, r))
    return out


def _gen_tree(n, var):
    names = sorted(set(var))

    def gen(rng, tier):
        for t in range(10 if tier == "quick" else 60):
            d = {"pub": {"__point__": _DS[t] if t < len(_DS) else rng.randrange(1, N)}}
            for i in names:
                d["d%d" % i] = _rb(rng, 32)
            yield d
    return gen


# name -> (shape over leaf positions, variable used at each position); equal variables = duplicate leaves
TREES = {"tree1": (0, [0]), "tree2": ((0, 1), [0, 1]), "tree2_dup": ((0, 1), [0, 0]),
         "tree3a": (((0, 1), 2), [0, 1, 2]), "tree3b": ((0, (1, 2)), [0, 1, 2]),
         "tree3a_dup01": (((0, 1), 2), [0, 0, 2]), "tree3a_dup02": (((0, 1), 2), [0, 1, 0]),
         "tree3a_dup12": (((0, 1), 2), [0, 1, 1]), "tree3a_dup012": (((0, 1), 2), [0, 0, 0]),
         "tree3b_dup01": ((0, (1, 2)), [0, 0, 2]), "tree3b_dup02": ((0, (1, 2)), [0, 1, 0]),
         "tree3b_dup12": ((0, (1, 2)), [0, 1, 1]), "tree3b_dup012": ((0, (1, 2)), [0, 0, 0]),
         "tree4a": (((0, 1), (2, 3)), [0, 1, 2, 3]), "tree4b": ((((0, 1), 2), 3), [0, 1, 2, 3])}

for _name, (_shape, _var) in TREES.items():
    _n = _count(_shape)
    _names = sorted(set(_var))
    _T = _shape_expr(_shape, _var)
    _Q = "spec.taproot.output_key(pub, spec.taproot.tree_hash(%s))" % _T
    _ens = ["returns()", "spec.curve.same(result[0], %s)" % _Q, "len(result[1]) == %d" % _n]
    for _i in range(_n):
        _row = "result[1][%d]" % _i
        _ens += [
            # the control block recomputes the output key and its parity ...
            "spec.curve.same(%s[1], result[0]) and %s[2] == result[0].parity" % (_row, _row),
            "%s[2] == spec.taproot.parity(%s)" % (_row, _Q)]
        if _var[_i] not in _var[:_i]:
            # ... and it is the BIP341 control block of that position (a repeated leaf gets the control block of its
            # first occurrence: path_hashes looks leaves up by equality; that block is checked by the line above)
            _ens.append("%s[0] == spec.taproot.control_block_ser(0xC0, spec.taproot.parity(%s), spec.taproot.x32(pub), spec.taproot.leaf_paths(%s)[%d][2])"
                        % (_row, _Q, _T, _i))
    contract(H + _name, props=("C12",), nl_uf=True,
             params=dict({"pub": point}, **{"d%d" % i: D32 for i in _names}),
             requires=(["spec.taproot.tweak_defined(pub, spec.taproot.tree_hash(%s))" % _T]
                       + ["d%d != d%d" % (i, j) for i in _names for j in _names if i < j]      # case split, see TREES
                       + _sibling_distinct(_shape, _var)),
             ensures=_ens, gen=_gen_tree(_n, _var),
             # quick tier: the shapes with distinct leaves up to 3 leaves and the 2-leaf duplicate; the rest costs 5-35 s each
             tiers=("quick", "thorough") if _name in ("tree1", "tree2", "tree2_dup", "tree3a", "tree3b") else ("thorough",))


# history: the same TapBranch object used with two internal keys (memoised state on the tree must not leak between them)
def _gen_tree_reused(rng, tier):
    for t in range(10 if tier == "quick" else 60):
        yield {"pub_first": {"__point__": rng.randrange(1, N)}, "pub": {"__point__": _DS[t] if t < len(_DS) else rng.randrange(1, N)},
               "d0": _rb(rng, 32), "d1": _rb(rng, 32)}


_T2 = _shape_expr((0, 1), [0, 1])
_Q2 = "spec.taproot.output_key(pub, spec.taproot.tree_hash(%s))" % _T2
_ens2 = ["returns()", "spec.curve.same(result[0], %s)" % _Q2, "len(result[1]) == 2"]
for _i in range(2):
    _row = "result[1][%d]" % _i
    _ens2 += ["spec.curve.same(%s[1], result[0]) and %s[2] == result[0].parity" % (_row, _row),
              "%s[2] == spec.taproot.parity(%s)" % (_row, _Q2),
              "%s[0] == spec.taproot.control_block_ser(0xC0, spec.taproot.parity(%s), spec.taproot.x32(pub), spec.taproot.leaf_paths(%s)[%d][2])"
              % (_row, _Q2, _T2, _i)]
contract(H + "tree2_reused", props=("C12",), nl_uf=True,
         params={"pub_first": point, "pub": point, "d0": D32, "d1": D32},
         requires=["spec.taproot.tweak_defined(pub, spec.taproot.tree_hash(%s))" % _T2,
                   "spec.taproot.tweak_defined(pub_first, spec.taproot.tree_hash(%s))" % _T2, "d0 != d1"]
         + _sibling_distinct((0, 1), [0, 1]),
         ensures=_ens2, gen=_gen_tree_reused)


# ---------------------------------------------------------------------------- control block codec
def _gen_cbrt(k):
    def gen(rng, tier):
        for t in range(30):
            d = {"pub": {"__point__": _DS[t] if t < len(_DS) else rng.randrange(1, N)},
                 "version": rng.choice([0xC0, 0xC2, 0x00, 0xFE, 0x50]), "par": t % 2}
            for j in range(k):
                d["h%d" % j] = _rb(rng, 32)
            yield d
    return gen


# parse(serialize(cb)) gives back the same block: leaf version, parity bit, internal key (x-only: the even-y
# point), path, bytes; for even leaf versions (BIP341: the low bit of the first byte is the parity)
for _k in range(3):
    _hs = ["h%d" % j for j in range(_k)]
    contract(H + "cb_roundtrip%d" % _k, props=("C12",), nl_uf=True,
             params=dict({"pub": point, "version": ("int", 0, 255), "par": ("int", 0, 1)}, **{h: H32 for h in _hs}),
             requires=["version % 2 == 0"],
             ensures=["returns()",
                      "result[0] == spec.taproot.control_block_ser(version, par, spec.taproot.x32(pub), [%s])" % ", ".join(_hs),
                      "len(result[0]) == 33 + 32 * %d" % _k,
                      "result[1] == version and result[2] == par",
                      "spec.curve.same(result[3], spec.taproot.even(pub))",
                      "result[4] == [%s]" % ", ".join(_hs),
                      "result[5] == result[0]", "result[6] is True"],
             gen=_gen_cbrt(_k))

contract(H + "parse_xonly_of", props=("C12",), nl_uf=True, params={"pub": point},
         ensures=["returns()", "spec.curve.same(result, spec.taproot.even(pub))"],
         gen=lambda rng, tier: ({"pub": {"__point__": d}} for d in _DS + [rng.randrange(1, N) for _ in range(20)]))


def _gen_cb_len(rng, tier):
    for n in (0, 1, 2, 31, 32, 33, 63, 64, 65, 32 * 127, 32 * 128, 32 * 128 + 1, 32 * 129):
        yield {"first": bytes([rng.choice([0xC0, 0xC1, 0x50])]), "tail": _rb(rng, n)}
    for _ in range(30):
        yield {"first": _rb(rng, 1), "tail": _rb(rng, rng.randrange(0, 110))}


# BIP341: a control block has 33 + 32m bytes, 0 <= m <= 128; everything else is rejected.  (Stated with the
# generator point as internal key so that the on-curve test is concrete; arbitrary 32 key bytes: C06 cb_parse_fields.)
contract(H + "cb_parse_short", props=("C12",), params={"b": ("bytes", 0, 32)},
         ensures=["raises(ValueError)"], gen=lambda rng, tier: ({"b": _rb(rng, n)} for n in range(33)))
for _sfx, _hi, _tiers in (("", 32 * 129 + 5, ("thorough",)), ("#short", 32 * 4 + 5, ("quick", "thorough"))):
  contract(H + "cb_parse_len_gx" + _sfx, props=("C12",), params={"first": "bytes:1", "tail": ("bytes", 0, _hi)}, tiers=_tiers,
         ensures=["implies(not spec.taproot.control_block_len_ok(33 + len(tail)), raises(ValueError))",
                  "implies(returns(), spec.taproot.control_block_len_ok(33 + len(tail)))",
                  "implies(spec.taproot.control_block_len_ok(33 + len(tail)), returns())",
                  "implies(returns(), result[0] == len(tail) // 32 and result[1] == first[0] - first[0] % 2 and result[2] == first[0] % 2)",
                  "implies(returns(), len(result[3]) == 33 + len(tail) and result[3][:33] == first + spec.taproot.GX32)"],
         gen=_gen_cb_len)

# tamper direction, the part that is not a hash argument: the recorded parity bit does not enter the recomputed
# key, so a block with the bit flipped names the same key with the WRONG parity (BIP341 rule c[0] & 1 == parity(Q)
# rejects it); the two serializations differ in the low bit of byte 0 only
contract(H + "leaf_cb_parity_flipped", props=("C12",), nl_uf=True, params={"pub": point, "d0": D32},
         requires=["spec.taproot.tweak_defined(pub, spec.taproot.tree_hash((0xC0, spec.taproot.push_script(d0, 0xAC))))"],
         ensures=["returns()", "spec.curve.same(result[0], result[1])", "result[2] != result[0].parity",
                  "result[2] == 1 - spec.taproot.parity(spec.taproot.output_key(pub, spec.taproot.tree_hash((0xC0, spec.taproot.push_script(d0, 0xAC)))))",
                  "result[3][1:] == result[4][1:] and result[3][0] != result[4][0] and result[3][0] // 2 == result[4][0] // 2"],
         gen=_gen_tree(1, [0]))


# ============================================================================ C13: MuSig
SEC = ("int", 1, N - 1)


def _gen_musig(n, with_root):
    def gen(rng, tier):
        for t in range(8 if tier == "quick" else 40):
            d = {}
            for i in range(1, n + 1):
                d["d%d" % i] = (_DS[(t + i) % len(_DS)] + i) % N if t < 3 else rng.randrange(1, N)
                d["k%d1" % i] = rng.randrange(1, N)
                d["k%d2" % i] = rng.randrange(1, N)
            d["msg"] = _rb(rng, 32)
            d["root"] = _rb(rng, 32) if with_root else b""
            # boundary nonce secrets (the legal range is [1, n-1]): the first tuples carry n-1, 1 and n-2 in turn
            if t < 2 * n:
                d["k%d%d" % (t // 2 + 1, t % 2 + 1)] = (N - 1, 1, N - 2, N - 1)[t % 4]
            # two (or all) participants announcing the SAME nonce pair is legal (nonces are chosen independently in
            # [1, n-1]); a nonce aggregation that merges equal announcements loses a contribution (seed C13-E).  These
            # tuples come first: the per-contract time budget is a few sessions only when the machine is busy
            if t in (0, 1, 3):
                e = dict(d)
                who = range(2, n + 1) if t != 3 else (n,)
                for i in who:
                    e["k%d1" % i], e["k%d2" % i] = e["k11"], e["k12"]
                yield e
            yield d
    return gen


def _ds(n):
    return "[%s]" % ", ".join("d%d" % i for i in range(1, n + 1))


def _ks(n):
    return "[%s]" % ", ".join("(k%d1, k%d2)" % (i, i) for i in range(1, n + 1))


for _n in (2, 3):
    _dparams = {"d%d" % i: SEC for i in range(1, _n + 1)}
    _distinct = ["spec.taproot.musig_keys_distinct(%s)" % _ds(_n)]
    # key aggregation == the description, and it does not depend on the order in which the keys are listed
    contract(H + "musig_agg%d" % _n, props=("C13",), nl_uf=True, setup=PARSE_XONLY_LEMMA, params=dict(_dparams),
             requires=_distinct,
             ensures=["returns()", "spec.curve.same(result, spec.taproot.musig_agg_of_secrets(%s))" % _ds(_n)],
             gen=_only(_gen_musig(_n, False), *_dparams))
    contract(H + "musig_agg%d_orders" % _n, props=("C13",), nl_uf=True, setup=PARSE_XONLY_LEMMA, params=dict(_dparams),
             requires=_distinct,
             ensures=["returns()"] + ["spec.curve.same(result[0], result[%d])" % j for j in range(1, 2 if _n == 2 else 6)],
             gen=_only(_gen_musig(_n, False), *_dparams))
    for _sfx, _kind in ((("plain", ("const", b"")), ("root", H32)) if _n == 2 else (("plain", ("const", b"")),)):
        _p = dict(_dparams)
        for i in range(1, _n + 1):
            _p["k%d1" % i] = SEC
            _p["k%d2" % i] = SEC
        _p["msg"] = H32
        _p["root"] = _kind
        # one contract per outcome of the sort of the x-only keys (case split; the cases run in parallel)
        for _perm in itertools.permutations(range(1, _n + 1)):
            _dsp = "[%s]" % ", ".join("d%d" % i for i in _perm)
            _ksp = "[%s]" % ", ".join("(k%d1, k%d2)" % (i, i) for i in _perm)
            # ... and per parity of the first listed key (halves the number of paths per job)
            for _par in (0, 1):
              contract(H + "musig_flow%d#%s-order%s-%s" % (_n, _sfx, "".join(map(str, _perm)), "even" if _par == 0 else "odd"),
                     props=("C13",), nl_uf=True, setup=PARSE_XONLY_LEMMA, params=_p,
                     requires=["spec.taproot.parity(spec.curve.mul_G(d1)) == %d" % _par,
                               "spec.taproot.musig_defined_sorted(%s, %s, msg, root)" % (_dsp, _ksp)],
                     ensures=["returns()",
                              "result[0] == spec.taproot.x32(spec.taproot.musig_session_key_sorted(%s, root))" % _dsp,
                              "spec.schnorr.verify(result[0], msg, result[1]) is True"],
                     gen=_gen_musig(_n, _sfx == "root"),
                     # thorough tier only.  Stand-alone wall time (python3-vt -m verif.one): n = 2 plain about 2 min per sort order
                     # (432 paths, 1296 obligations), n = 2 with merkle root about 8 min (1296 paths, 3888 obligations);
                     # inside the 16-process pool of verif.check the same jobs run 3-4 times slower; n = 3 did not finish
                     # within 25 minutes stand-alone (see notes/C12_C13.md)
                     # n = 3: the final self-verification is beyond zn_ring within any budget tried (paths end `undecided`, and
                     # with a wall budget the solver returns models that do not replay), so the 3-signer SESSION is a
                     # run-time contract only; 3-signer key aggregation is proved above
                     tiers=("thorough",) if _n == 2 else ("runtime-only",))


# nonce secrets that CANCEL in one slot (sum = 0 mod n, so that nonce sum is the point at infinity): every nonce is in
# [1, n-1], the property's quantifier; reported by the C13-E sub-agent as failing on the unchanged tree (AttributeError in
# compute_coefficient), repaired by a fix: commit (see KNOWN_FINDINGS.jsonl).  Run-time contracts: the symbolic session
# contracts above keep the finite-sums precondition.
def _gen_musig_cancel(n, with_root):
    def gen(rng, tier):
        base = _gen_musig(n, with_root)(rng, tier)
        for t, d in enumerate(base):
            slot = 1 + t % 2
            others = sum(d["k%d%d" % (i, slot)] for i in range(1, n)) % N
            if others == 0:
                continue
            d["k%d%d" % (n, slot)] = N - others
            if t % 4 >= 2 and n >= 2:                 # smallest example: k and n - k
                for i in range(1, n):
                    d["k%d%d" % (i, slot)] = 5 + i
                d["k%d%d" % (n, slot)] = N - sum(5 + i for i in range(1, n))
            yield d
    return gen


for _n in (2, 3):
    _p = {"d%d" % i: SEC for i in range(1, _n + 1)}
    for i in range(1, _n + 1):
        _p["k%d1" % i] = SEC
        _p["k%d2" % i] = SEC
    _p["msg"] = H32
    for _sfx, _kind in (("plain", ("const", b"")), ("root", H32)):
        _p2 = dict(_p, root=_kind)
        contract(H + "musig_flow%d#cancelling-nonces-%s" % (_n, _sfx), props=("C13",), params=_p2,
                 requires=["spec.taproot.musig_defined_cancelling(%s, %s, msg, root)" % (_ds(_n), _ks(_n))],
                 ensures=["returns()",
                          "result[0] == spec.taproot.x32(spec.taproot.musig_session_key(%s, root))" % _ds(_n),
                          "spec.schnorr.verify(result[0], msg, result[1]) is True"],
                 gen=_gen_musig_cancel(_n, _sfx == "root"), tiers=("runtime-only",))


# history contract (added after seeded change C13-C: external key and challenge memoised per (nonce point, message) on the
# script object, merkle root left out of the key): two sessions on one object, same nonces and message, different merkle
# roots.  Run-time only -- the symbolic run of ONE 2-signer session already takes minutes (thorough tier above).
def _gen_two_sessions(rng, tier):
    for t in range(6 if tier == "quick" else 30):
        d = {"d1": rng.randrange(1, N), "d2": rng.randrange(1, N), "msg": _rb(rng, 32)}
        for k in ("k11", "k12", "k21", "k22"):
            d[k] = rng.randrange(1, N)
        ra, rb = _rb(rng, 32), _rb(rng, 32)
        d["root_a"], d["root_b"] = [(b"", ra), (ra, b""), (ra, rb)][t % 3]
        yield d


contract(H + "musig_two_sessions", props=("C13",), tiers=("runtime-only",),
         params={"d1": SEC, "d2": SEC, "k11": SEC, "k12": SEC, "k21": SEC, "k22": SEC, "msg": H32, "root_a": "bytes", "root_b": "bytes"},
         requires=["spec.taproot.musig_keys_distinct([d1, d2])"],
         ensures=["returns()",
                  "result[0] == spec.taproot.x32(spec.taproot.musig_session_key_sorted(sorted([d1, d2], key=lambda d: spec.taproot.x32(spec.curve.mul_G(d))), root_a))",
                  "result[2] == spec.taproot.x32(spec.taproot.musig_session_key_sorted(sorted([d1, d2], key=lambda d: spec.taproot.x32(spec.curve.mul_G(d))), root_b))",
                  "spec.schnorr.verify(result[0], msg, result[1]) is True",
                  "spec.schnorr.verify(result[2], msg, result[3]) is True"],
         gen=_gen_two_sessions)
