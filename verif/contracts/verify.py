"""C06: input verification -- the leaf rules that can be stated without real signature arithmetic.

* Witness.has_annex against BIP341 for witnesses of 0..3 symbolic items;
* ControlBlock.parse: length rejection, field extraction, serialize round trip;
* ControlBlock.merkle_root: sorted TapBranch fold over a path of 0..3 symbolic hashes;
* the spec's two readings of CHECKMULTISIG (walk / order-preserving injection) agree (spec lemma).

The signature-checking functions themselves (op_checksig, op_checkmultisig, op_checksig_schnorr,
op_checksigadd_schnorr, Script.evaluate, Tx.verify_input) call real ECDSA/Schnorr and offer no
seam for an oracle under symbolic execution: they are exercised concretely only (bounded jobs of
verif/props/C06.py, incl. an exhaustive run of the REAL op_checkmultisig over every boolean validity
matrix with stubbed point/signature classes)."""
from .common import *  # noqa

B3 = ("bytes", 0, 3)
H32 = "bytes:32"
GX = bytes.fromhex("79BE667EF9DCBBAC55A06295CE870B07029BFCDB2DCE28D959F2815B16F81798")

_ITEMS = [b"", b"\x50", b"\x50\x00", b"\x50\x50\x50", b"\x51", b"\x00\x50", b"\xc0", b"\x4f", b"\x00"]


def _gen_items(k):
    names = ["a", "b", "c"][:k]

    def gen(rng, tier):
        import itertools
        for combo in itertools.product(_ITEMS, repeat=k):
            yield dict(zip(names, combo))
    return gen


# BIP341: annex iff at least two witness elements and the last one starts with 0x50
contract("verif.harness.verify.witness_has_annex0", props=("C06",), params={},
         ensures=["returns()", "result == spec.authorise.has_annex0()"], gen=lambda rng, tier: iter([{}]))
contract("verif.harness.verify.witness_has_annex1", props=("C06",), params={"a": B3},
         ensures=["returns()", "result == spec.authorise.has_annex1(a)"], gen=_gen_items(1))
contract("verif.harness.verify.witness_has_annex2", props=("C06",), params={"a": B3, "b": B3},
         ensures=["returns()", "result == spec.authorise.has_annex2(a, b)"], gen=_gen_items(2))
contract("verif.harness.verify.witness_has_annex3", props=("C06",), params={"a": B3, "b": B3, "c": B3},
         ensures=["returns()", "result == spec.authorise.has_annex3(a, b, c)"], gen=_gen_items(3))


# ---------------------------------------------------------------------------- control block codec
def _gen_cb_any(rng, tier):
    for n in (0, 1, 31, 32, 33, 34, 64, 65, 66, 96, 97, 98, 129, 33 + 32 * 128, 33 + 32 * 129, 33 + 32 * 128 + 1):
        for first in (0xC0, 0xC1, 0x50):
            body = (bytes([first]) + GX + rand_bytes(rng, max(0, n - 33)))[:n]
            yield {"b": body}
    for _ in range(40):
        n = rng.randrange(0, 140)
        yield {"b": rand_bytes(rng, n)}


# length rule of BIP341 (33 + 32m, 0 <= m <= 128); a returned block reproduces the leading fields
# (the internal key is compared as an integer plus a length clause: for 32-byte strings that is the
#  same statement as `result[2] == b[1:33]`, which the engine cannot decide on one path -- it returns a
#  model that does not replay, see notes/C06.md)
contract("verif.harness.verify.cb_parse_fields", props=("C06",), params={"b": ("bytes", 0, 40)},
         ensures=["implies(not spec.authorise.control_block_len_ok(len(b)), raises(ValueError))",
                  "implies(returns(), spec.authorise.control_block_len_ok(len(b)))",
                  "implies(returns(), result[0] == b[0] & 0xFE)",
                  "implies(returns(), result[1] == b[0] & 1)",
                  "implies(returns(), len(result[2]) == 32)",
                  "implies(returns(), spec.int_be(result[2]) == spec.int_be(b[1:33]))",
                  "implies(returns(), len(result[3]) == (len(b) - 33) // 32)"],
         timeout_ms=10000,      # the on-curve test is non-linear: longer solver budgets only cost time
         gen=_gen_cb_any)


def _gen_cb_fixed(n):
    def gen(rng, tier):
        from verif.specs.authorise import lift_x
        k = 0
        while k < 60:
            x = rand_bytes(rng, 32) if k else GX
            if lift_x(int.from_bytes(x, "big")) is None and k % 3:
                continue
            k += 1
            yield {"b": bytes([rng.choice([0xC0, 0xC1, 0xC2, 0x50, 0x00, 0xFF])]) + x + rand_bytes(rng, n - 33)}
    return gen


for _n in (33, 65, 97):
    contract("verif.harness.verify.cb_roundtrip#%d" % _n, props=("C06",), params={"b": "bytes:%d" % _n},
             # result == b, stated piecewise (same reason as above)
             ensures=["implies(returns(), len(result) == len(b))",
                      "implies(returns(), result[0:1] == b[0:1])",
                      "implies(returns(), spec.int_be(result[1:33]) == spec.int_be(b[1:33]))",
                      "implies(returns(), result[33:] == b[33:])"], timeout_ms=10000, gen=_gen_cb_fixed(_n))


# ---------------------------------------------------------------------------- Merkle fold
def _gen_mr(k):
    def gen(rng, tier):
        for t in range(60):
            d = {"version": rng.choice([0xC0, 0xC0, 0xC2, 0x00, 0xFE]), "x": rand_bytes(rng, 32)}
            for j in range(k):
                d["h%d" % j] = rand_bytes(rng, 32) if t % 5 else bytes([0xFF if (t + j) % 2 else 0]) * 32
            yield d
    return gen


_LEAF = "b'\\x20' + x + b'\\xac'"        # raw script of `<x> OP_CHECKSIG`
for _k in range(4):
    _hs = ["h%d" % j for j in range(_k)]
    contract("verif.harness.verify.cb_merkle_root%d" % _k, props=("C06",),
             params=dict({"version": ("int", 0, 255), "x": H32}, **{h: H32 for h in _hs}),
             ensures=["returns()",
                      "result == spec.authorise.merkle_root%d(%s)" % (_k, ", ".join(["version", _LEAF] + _hs))],
             gen=_gen_mr(_k))


# ---------------------------------------------------------------------------- spec lemma
def _gen_walk(rng, tier):
    import itertools
    for m in range(0, 4):
        for n in range(m, 4):
            for _ in range(12):
                d = {"m": m, "n": n}
                for a in range(3):
                    for b in range(3):
                        d["v%d%d" % (a, b)] = bool(rng.getrandbits(1))
                yield d


_V = ["v%d%d" % (a, b) for a in range(3) for b in range(3)]
contract("verif.harness.verify.spec_multisig_walk_vs_injection", props=("C06",),
         params=dict({"m": ("int", 0, 3), "n": ("int", 0, 3)}, **{v: "bool" for v in _V}),
         requires=["m <= n"],
         ensures=["returns()", "result"], gen=_gen_walk)
