"""C04: transaction wire codec, txid, fetcher (buidl/script.py, witness.py, timelock.py, tx.py).

Contracts are stated on the API-level harnesses of verif/harness/txcodec.py (objects are built through the
constructors from symbolic plain data) against the independent spec verif/specs/txwire.py."""
from .common import *  # noqa
from verif.pyvc.values import HList

H = "verif.harness.txcodec."
U32 = ("int", 0, 2**32 - 1)
U64 = ("int", 0, 2**64 - 1)
OPCODE = ("int", 79, 255)                  # an opcode byte that is not a push opcode (OP_0 = 0 is used concretely)
PUSH = ("bytes", 0, 520)


# ---------------------------------------------------------------------------- composite symbolic kinds
def lst(*kinds):
    """list of concrete length whose elements are fresh symbolic values of the given kinds"""
    def mk(m, name):
        return m.p.alloc(HList([m.make_sym("%s[%d]" % (name, i), k) for i, k in enumerate(kinds)]))
    return mk


def tup(*kinds):
    def mk(m, name):
        return tuple(m.make_sym("%s.%d" % (name, i), k) for i, k in enumerate(kinds))
    return mk


def ntxin(script_sig=None, witness=()):
    """neutral input: 32-byte txid, u32 index, scriptSig command kinds, u32 sequence, witness item kinds"""
    return tup("bytes:32", U32, lst(*(script_sig if script_sig is not None else [PUSH])), U32, lst(*witness))


def ntxout(spk=None):
    return tup(U64, lst(*(spk if spk is not None else [OPCODE, PUSH, OPCODE])))


def ntx(ins, outs):
    return tup(U32, lst(*ins), lst(*outs), U32)


# ---------------------------------------------------------------------------- generators: scripts
BOUNDARY_PUSH = [0, 1, 2, 74, 75, 76, 77, 78, 254, 255, 256, 257, 519, 520]
OPS = [0, 79, 0x51, 0x60, 0x61, 0x63, 0x67, 0x68, 0x6A, 0x75, 0x76, 0x87, 0x88, 0xA9, 0xAB, 0xAC, 0xAE, 0xB1, 0xB2, 0xBA, 0xFF]


def rand_cmds(rng, n=None, max_push=520):
    n = rng.randrange(0, 7) if n is None else n
    out = []
    for _ in range(n):
        if rng.random() < 0.5:
            out.append(rng.choice(OPS) if rng.random() < 0.7 else rng.choice([0] + list(range(79, 256))))
        else:
            ln = rng.choice(BOUNDARY_PUSH) if rng.random() < 0.4 else rng.randrange(0, max_push + 1)
            out.append(rand_bytes(rng, min(ln, max_push)))
    return out


def _gen_one_push(rng, tier):
    for n in BOUNDARY_PUSH:
        yield {"x": rand_bytes(rng, n)}
    for n in range(0, 521):                      # every push length 0..520
        yield {"x": rand_bytes(rng, n)}
    for n in (521, 522, 600):
        yield {"x": rand_bytes(rng, n)}


def _gen_cmds(key="cmds"):
    def gen(rng, tier):
        yield {key: []}
        for n in BOUNDARY_PUSH:
            yield {key: [rand_bytes(rng, n)]}
            yield {key: [0x76, rand_bytes(rng, n), 0xAC]}
            yield {key: [rand_bytes(rng, n), rand_bytes(rng, 520 - n)]}
        for op in [0] + list(range(79, 256)):
            yield {key: [op]}
        for n in range(0, 521):
            yield {key: [rng.choice(OPS), rand_bytes(rng, n), rng.choice(OPS)]}
        while True:
            yield {key: rand_cmds(rng)}
    return gen


# ---------------------------------------------------------------------------- Script.raw_serialize / serialize
contract(H + "ser_one_push", props=("C04",), params={"x": ("bytes", 0, 600)},
         raises={"ValueError": "len(x) > 520"},
         ensures=["implies(len(x) <= 520, returns())",
                  "implies(returns(), result == spec.txwire.script_ser([x]))"],
         gen=_gen_one_push)

contract(H + "ser_cmds#op_push_op", props=("C04",), params={"cmds": lst(OPCODE, PUSH, OPCODE)},
         ensures=["returns()", "implies(returns(), result == spec.txwire.script_ser(cmds))"], gen=_gen_cmds())
contract(H + "ser_cmds#push_push", props=("C04",), params={"cmds": lst(PUSH, PUSH)},
         ensures=["returns()", "implies(returns(), result == spec.txwire.script_ser(cmds))"])
contract(H + "ser_cmds#op0_push", props=("C04",), params={"cmds": lst(const(0), PUSH)},
         ensures=["returns()", "implies(returns(), result == spec.txwire.script_ser(cmds))"])
contract(H + "script_serialize", props=("C04",), params={"cmds": lst(OPCODE, PUSH, OPCODE)},
         ensures=["returns()", "implies(returns(), result == spec.varstr(spec.txwire.script_ser(cmds)))"], gen=_gen_cmds())


# ---------------------------------------------------------------------------- Script.parse
def _gen_cmds_tail(rng, tier):
    for d in _gen_cmds()(rng, tier):
        d["tail"] = rand_bytes(rng, rng.randrange(0, 3))
        yield d


for _nm, _shape in (("op_push_op", (OPCODE, PUSH, OPCODE)), ("push_push", (PUSH, PUSH)), ("push", (PUSH,)),
                    ("op0_push32", (const(0), "bytes:32")), ("empty", ())):
    # decoder: requires stream == spec_enc(cmds) || tail  |-  result == cmds (b"" reads back as OP_0), stream' == tail
    contract(H + "script_parse#" + _nm, props=("C04",), ghost={"cmds": lst(*_shape), "tail": "bytes"},
             setup=StreamOf("spec.varstr(spec.txwire.script_ser(cmds)) + tail"), args=["s"],
             ensures=["returns()", "implies(returns(), result[0] == spec.txwire.canon(cmds))",
                      "implies(returns(), result[1] is None)", "implies(returns(), s.read() == tail)"],
             gen=_gen_cmds_tail if _nm == "op_push_op" else None)
    # parse then re-serialise reproduces the input bytes
    contract(H + "script_parse_reser#" + _nm, props=("C04",), ghost={"cmds": lst(*_shape)},
             setup=StreamOf("spec.varstr(spec.txwire.script_ser(cmds))"), args=["s"],
             ensures=["returns()", "implies(returns(), result == spec.varstr(spec.txwire.script_ser(cmds)))"],
             gen=_gen_cmds() if _nm == "op_push_op" else None)
    # serialise then parse reproduces every command
    contract(H + "script_roundtrip#" + _nm, props=("C04",), params={"cmds": lst(*_shape)},
             ensures=["returns()", "implies(returns(), result[0] == spec.txwire.canon(cmds))", "implies(returns(), result[1] is None)"],
             gen=_gen_cmds() if _nm == "op_push_op" else None)


# ---------------------------------------------------------------------------- Witness
WITEM = ("bytes", 0, 4000000)                # a witness item of any length up to the block weight limit (property: 0..70000)
WIT_SIZES = [0, 1, 75, 76, 252, 253, 254, 255, 256, 520, 521, 65535, 65536, 70000]


def rand_witness(rng, big=True):
    k = rng.choice([0, 1, 2, 2, 3, 4, 5])
    out = []
    for _ in range(k):
        r = rng.random()
        if r < 0.15:
            out.append(b"")
        elif r < 0.25 and big:
            out.append(rand_bytes(rng, rng.choice(WIT_SIZES)))
        else:
            out.append(rand_bytes(rng, rng.randrange(0, 110)))
    return out


def _gen_witness(rng, tier):
    yield {"items": [], "tail": b""}
    for n in WIT_SIZES:
        yield {"items": [rand_bytes(rng, n)], "tail": rand_bytes(rng, 1)}
        yield {"items": [b"", rand_bytes(rng, n), b""], "tail": b""}
    for k in (252, 253, 254, 300):           # item counts across the 0xfd boundary
        yield {"items": [rand_bytes(rng, i % 3) for i in range(k)], "tail": b"\x00"}
    while True:
        yield {"items": rand_witness(rng), "tail": rand_bytes(rng, rng.randrange(0, 3))}


for _k in (0, 1, 2, 3):
    contract(H + "witness_ser#%d" % _k, props=("C04",), params={"items": lst(*([WITEM] * _k))},
             ensures=["returns()", "implies(returns(), result == spec.txwire.witness_ser(items))"],
             gen=_gen_witness if _k == 2 else None)
    contract(H + "witness_parse#%d" % _k, props=("C04",), ghost={"items": lst(*([WITEM] * _k)), "tail": "bytes"},
             setup=StreamOf("spec.txwire.witness_ser(items) + tail"), args=["s"],
             ensures=["returns()", "implies(returns(), result == items)", "implies(returns(), s.read() == tail)"],
             gen=_gen_witness if _k == 2 else None)


# ---------------------------------------------------------------------------- Locktime / Sequence
def _gen_u32(rng, tier):
    for n in (0, 1, 0xFC, 0xFD, 0xFFFF, 0x10000, 499999999, 500000000, 0x7FFFFFFF, 0x80000000, 0xFFFFFFFE, 0xFFFFFFFF,
              0x100000000, 2**64, -1):
        yield {"n": n, "tail": b"\x07"}
    while True:
        yield {"n": rng.getrandbits(rng.choice([8, 16, 31, 32, 33])), "tail": rand_bytes(rng, rng.randrange(0, 3))}


for _c in ("locktime", "sequence"):
    contract(H + _c + "_ser", props=("C04",), params={"n": "int"},
             raises={"ValueError": "n < 0 or n > 0xFFFFFFFF"},
             ensures=["implies(returns(), result == spec.le(n, 4))"], gen=_gen_u32)
    contract(H + _c + "_parse", props=("C04",), ghost={"n": U32, "tail": "bytes"},
             setup=StreamOf("spec.le(n, 4) + tail"), args=["s"],
             ensures=["returns()", "implies(returns(), result == spec.le(n, 4))", "implies(returns(), s.read() == tail)"],
             gen=_gen_u32)


# ---------------------------------------------------------------------------- generators: neutral transactions
U32B = [0, 1, 2, 0xFC, 0xFD, 0xFFFF, 0x10000, 0x7FFFFFFF, 0x80000000, 0xFFFFFFFE, 0xFFFFFFFF]
U64B = [0, 1, 546, 0xFFFFFFFF, 0x100000000, 21 * 10**14, 2**63 - 1, 2**63, 2**64 - 1]


def pick(rng, boundary, bits):
    return rng.choice(boundary) if rng.random() < 0.4 else rng.getrandbits(bits)


def std_script(rng, kind=None):
    kind = kind or rng.choice(["p2pkh", "p2sh", "p2wpkh", "p2wsh", "p2tr", "multisig", "opreturn", "rand", "witness_vn"])
    if kind == "witness_vn":      # witness programs of every version 0..16 and of lengths on and off the defined ones
        return [rng.choice([0] + list(range(0x51, 0x61))), rand_bytes(rng, rng.choice([32, 32, 20, 2, 40, 33]))]
    if kind == "p2pkh":
        return [0x76, 0xA9, rand_bytes(rng, 20), 0x88, 0xAC]
    if kind == "p2sh":
        return [0xA9, rand_bytes(rng, 20), 0x87]
    if kind == "p2wpkh":
        return [0, rand_bytes(rng, 20)]
    if kind == "p2wsh":
        return [0, rand_bytes(rng, 32)]
    if kind == "p2tr":
        return [0x51, rand_bytes(rng, 32)]
    if kind == "multisig":
        n = rng.randrange(1, 4)
        return [0x51] + [rand_bytes(rng, 33) for _ in range(n)] + [0x50 + n, 0xAE]
    if kind == "opreturn":
        return [0x6A, rand_bytes(rng, rng.choice([0, 20, 75, 76, 80]))]
    return rand_cmds(rng)


def rand_ntxin(rng, witness=True, script_sig=None):
    if script_sig is None:
        r = rng.random()
        script_sig = [] if r < 0.4 else ([rand_bytes(rng, rng.choice([71, 72, 73])), rand_bytes(rng, 33)] if r < 0.7 else rand_cmds(rng, rng.randrange(0, 4)))
    return (rand_bytes(rng, 32), pick(rng, U32B, 32), script_sig, pick(rng, U32B, 32),
            rand_witness(rng) if witness and rng.random() < 0.8 else [])


def rand_ntxout(rng):
    return (pick(rng, U64B, 64), std_script(rng))


def rand_ntx(rng, n_in=None, n_out=None, witness=True):
    n_in = rng.randrange(1, 7) if n_in is None else n_in
    n_out = rng.randrange(0, 7) if n_out is None else n_out
    return (pick(rng, [1, 2, 0, 0xFFFFFFFF, 0x80000000], 32), [rand_ntxin(rng, witness) for _ in range(n_in)],
            [rand_ntxout(rng) for _ in range(n_out)], pick(rng, U32B, 32))


def small_in(rng, k, witness=False):
    return (rand_bytes(rng, 32), k, [], 0xFFFFFFFF - (k % 3), [bytes([k % 256])] if witness and k % 2 else [])


def gen_ntx(witness):
    """neutral transactions: field boundaries, every push length in scriptSig/scriptPubKey, input/output counts
    0..300 across the 0xfd compact-size boundary, witness items up to 70000 bytes, then seeded random ones"""
    def gen(rng, tier):
        quick = tier == "quick"
        for v in (0, 1, 2, 0x7FFFFFFF, 0xFFFFFFFF):
            for lt in (0, 499999999, 500000000, 0xFFFFFFFF):
                yield {"tx": (v, [rand_ntxin(rng, witness)], [rand_ntxout(rng)], lt)}
        for a in U64B:
            yield {"tx": (1, [rand_ntxin(rng, witness)], [(a, std_script(rng))], 0)}
        for n in (BOUNDARY_PUSH if quick else range(0, 521)):
            yield {"tx": (1, [rand_ntxin(rng, witness, [rand_bytes(rng, n)])], [(1, [0x6A, rand_bytes(rng, 520 - n)])], 0)}
        for n_in, n_out in ((1, 0), (1, 252), (1, 253), (252, 1), (253, 1), (254, 2), (300, 300), (1, 300)):
            yield {"tx": (2, [small_in(rng, k, witness) for k in range(n_in)], [(k, [0x51]) for k in range(n_out)], 0)}
        if witness:
            for n in WIT_SIZES:
                yield {"tx": (2, [(rand_bytes(rng, 32), 0, [], 0, [b"", rand_bytes(rng, n)]), rand_ntxin(rng, True)],
                              [rand_ntxout(rng)], 0)}
            yield {"tx": (2, [(rand_bytes(rng, 32), 0, [], 0, [bytes([i % 256]) * (i % 4) for i in range(300)])], [rand_ntxout(rng)], 0)}
        while True:
            yield {"tx": rand_ntx(rng, witness=witness)}
    return gen


def with_(gen, **extra):
    def g(rng, tier):
        for d in gen(rng, tier):
            d.update(extra)
            yield d
    return g


def _gen_txin(rng, tier):
    for d in gen_ntx(True)(rng, tier):
        if d["tx"][1]:
            yield {"i": d["tx"][1][0], "tail": rand_bytes(rng, rng.randrange(0, 3))}


def _gen_txout(rng, tier):
    for d in gen_ntx(False)(rng, tier):
        if d["tx"][2]:
            yield {"o": d["tx"][2][0], "tail": rand_bytes(rng, rng.randrange(0, 3))}


# ---------------------------------------------------------------------------- TxIn / TxOut
# "op_push" is the shape of every witness program (OP_n <program>), present and future versions (seed C04-E: is_p2tr true for
# every non-zero version, so ScriptPubKey.parse rebuilt OP_2..OP_16 <32 bytes> as OP_1 <32 bytes>)
SIG_SHAPES = {"push": [PUSH], "empty": [], "push_push": [PUSH, PUSH], "op_push_op": [OPCODE, PUSH, OPCODE], "op_push": [OPCODE, PUSH]}
for _nm, _shape in SIG_SHAPES.items():
    contract(H + "txin_ser#" + _nm, props=("C04",), params={"i": ntxin(_shape)},
             ensures=["returns()", "implies(returns(), result == spec.txwire.txin_ser(i))"],
             gen=_gen_txin if _nm == "push" else None)
    contract(H + "txin_parse#" + _nm, props=("C04",), ghost={"i": ntxin(_shape), "tail": "bytes"},
             setup=StreamOf("spec.txwire.txin_ser(i) + tail"), args=["s"],
             ensures=["returns()",
                      "implies(returns(), result[0] == i[0] and result[1] == i[1])",
                      "implies(returns(), result[2][0] == spec.txwire.canon(i[2]) and result[2][1] is None)",
                      "implies(returns(), result[3] == spec.le(i[3], 4))",
                      "implies(returns(), result[4] == [])",
                      "implies(returns(), s.read() == tail)"],
             gen=_gen_txin if _nm == "push" else None)
    contract(H + "txout_ser#" + _nm, props=("C04",), params={"o": ntxout(_shape)},
             ensures=["returns()", "implies(returns(), result == spec.txwire.txout_ser(o))"],
             gen=_gen_txout if _nm == "push" else None)
    contract(H + "txout_parse#" + _nm, props=("C04",), ghost={"o": ntxout(_shape), "tail": "bytes"},
             setup=StreamOf("spec.txwire.txout_ser(o) + tail"), args=["s"],
             ensures=["returns()",
                      "implies(returns(), result[0] == o[0])",
                      "implies(returns(), result[1][0] == spec.txwire.canon(o[1]) and result[1][1] is None)",
                      "implies(returns(), s.read() == tail)"],
             gen=_gen_txout if _nm == "push" else None)


# ---------------------------------------------------------------------------- Tx
H20, H32 = "bytes:20", "bytes:32"
PUSH1 = ("bytes", 1, 520)                  # composite contracts: non-empty push; the empty push is the constant variant
EMPTY = const(b"")                         # (engine limitation: two zero-length symbolic chunks defeat bytes equality)
W300 = ("bytes", 0, 300)                   # witness item crossing the 0xfd compact-size boundary
P2PKH = [const(0x76), const(0xA9), H20, const(0x88), const(0xAC)]
P2WPKH = [const(0), H20]
P2TR = [const(0x51), H32]
SIGPUB = [("bytes", 9, 73), "bytes:33"]
TX_SHAPES = {
    # name: (inputs, outputs)
    "1x1": ([ntxin([PUSH1], [W300])], [ntxout(P2PKH)]),
    "1x1e": ([ntxin([EMPTY], [EMPTY])], [ntxout([const(0x6A), EMPTY])]),
    "1x0": ([ntxin([], [W300, H32])], []),
    "2x2": ([ntxin(SIGPUB, []), ntxin([], [W300, "bytes:33"])], [ntxout(P2PKH), ntxout(P2WPKH)]),
    "3x1": ([ntxin([], []), ntxin([], [WITEM]), ntxin([], [])], [ntxout(P2TR)]),
}
for _nm, (_ins, _outs) in TX_SHAPES.items():
    _g = _nm == "1x1"
    _T = ntx(_ins, _outs)
    # encoders: serialize() is the BIP144 form when the object says segwit, the original form otherwise
    contract(H + "tx_ser#legacy_" + _nm, props=("C04",), params={"tx": _T, "segwit": const(False)},
             ensures=["returns()", "implies(returns(), result == spec.txwire.legacy_ser(tx))"],
             gen=with_(gen_ntx(True), segwit=False) if _g else None)
    contract(H + "tx_ser#segwit_" + _nm, props=("C04",), params={"tx": _T, "segwit": const(True)},
             ensures=["returns()", "implies(returns(), result == spec.txwire.segwit_ser(tx))"],
             gen=with_(gen_ntx(True), segwit=True) if _g else None)
    # txid: reversed double-SHA256 of the witness-stripped serialisation; the right-hand side contains no witness
    # value, hence the id is the same for every witness and for both values of the segwit flag
    contract(H + "tx_hash#" + _nm, props=("C04",), params={"tx": _T, "segwit": "bool"},
             ensures=["returns()",
                      "implies(returns(), result == spec.txwire.txid_bytes(tx))",
                      "implies(returns(), result == spec.hash256(spec.txwire.legacy_ser(spec.txwire.strip_witness(tx)))[::-1])"],
             gen=with_(gen_ntx(True), segwit=True) if _g else None)
    # decoders
    contract(H + "tx_parse#legacy_" + _nm, props=("C04",), ghost={"tx": _T, "tail": "bytes"},
             requires=["len(tx[1]) >= 1"],
             setup=StreamOf("spec.txwire.legacy_ser(tx) + tail"), args=["s"],
             ensures=["returns()", "implies(returns(), result == spec.txwire.tx_fields(tx, False))",
                      "implies(returns(), s.read() == tail)"],
             gen=with_(gen_ntx(False), tail=b"\x01") if _g else None)
    contract(H + "tx_parse#segwit_" + _nm, props=("C04",), ghost={"tx": _T, "tail": "bytes"},
             setup=StreamOf("spec.txwire.segwit_ser(tx) + tail"), args=["s"],
             ensures=["returns()", "implies(returns(), result == spec.txwire.tx_fields(tx, True))",
                      "implies(returns(), s.read() == tail)"],
             gen=with_(gen_ntx(True), tail=b"") if _g else None)
    # parse then re-serialise reproduces the input bytes; the id of a parsed segwit transaction is the BIP141 txid
    contract(H + "tx_parse_reser#legacy_" + _nm, props=("C04",), ghost={"tx": _T},
             requires=["len(tx[1]) >= 1"],
             setup=StreamOf("spec.txwire.legacy_ser(tx)"), args=["s"],
             ensures=["returns()", "implies(returns(), result == spec.txwire.legacy_ser(tx))"],
             gen=gen_ntx(False) if _g else None)
    contract(H + "tx_parse_reser#segwit_" + _nm, props=("C04",), ghost={"tx": _T},
             setup=StreamOf("spec.txwire.segwit_ser(tx)"), args=["s"],
             ensures=["returns()", "implies(returns(), result == spec.txwire.segwit_ser(tx))"],
             gen=gen_ntx(True) if _g else None)
    contract(H + "tx_parse_hash#segwit_" + _nm, props=("C04",), ghost={"tx": _T},
             setup=StreamOf("spec.txwire.segwit_ser(tx)"), args=["s"],
             ensures=["returns()", "implies(returns(), result == spec.txwire.txid_bytes(tx))"],
             gen=gen_ntx(True) if _g else None)

# serialise-then-parse of a transaction built through the API reproduces every field
contract(H + "tx_roundtrip#segwit", props=("C04",), params={"tx": ntx(*TX_SHAPES["2x2"]), "segwit": const(True)},
         ensures=["returns()", "implies(returns(), result == spec.txwire.tx_fields(tx, True))"],
         gen=with_(gen_ntx(True), segwit=True))
contract(H + "tx_roundtrip#legacy", props=("C04",), params={"tx": ntx(*TX_SHAPES["2x2"]), "segwit": const(False)},
         requires=["len(tx[1]) >= 1"],
         ensures=["returns()", "implies(returns(), result == spec.txwire.tx_fields(spec.txwire.strip_witness(tx), False))"],
         gen=with_(gen_ntx(True), segwit=False))
contract(H + "tx_id", props=("C04",), params={"tx": ntx(*TX_SHAPES["1x1"]), "segwit": "bool"},
         ensures=["returns()", "implies(returns(), result == spec.txwire.txid(tx))"],
         gen=with_(gen_ntx(True), segwit=True))


# ---------------------------------------------------------------------------- TxFetcher.fetch
def _rev_hash(b):
    import verif.specs as s
    return s.hash256(b)[::-1]


def _gen_fetch(rng, tier):
    """server responses: the honest one, the honest one for another id, well-formed transactions followed by
    trailing bytes (legacy and segwit), a legacy transaction with a non-minimal push, truncations, bit flips, garbage;
    the requested id is the honest id, the hash of the response bytes, or unrelated"""
    import verif.specs as s
    T = s.txwire
    k = 0
    while True:
        k += 1
        tx = rand_ntx(rng, n_in=rng.randrange(1, 4), n_out=rng.randrange(1, 4), witness=True)
        if any(isinstance(c, bytes) and len(c) == 75 for i in tx[1] for c in i[2]) or \
                any(isinstance(c, bytes) and len(c) == 75 for o in tx[2] for c in o[1]):
            continue
        leg, seg = T.legacy_ser(tx), T.segwit_ser(tx)
        honest = T.txid_bytes(tx)
        mode = k % 12
        if mode == 0:
            yield {"tx_id_bytes": honest, "raw": leg}
        elif mode == 1:
            yield {"tx_id_bytes": honest, "raw": seg}
        elif mode == 2:                         # trailing byte after a legacy transaction, id = hash of the response
            raw = leg + rand_bytes(rng, rng.randrange(1, 4))
            yield {"tx_id_bytes": _rev_hash(raw), "raw": raw}
        elif mode == 3:
            raw = leg + b"\x00"
            yield {"tx_id_bytes": honest, "raw": raw}
        elif mode == 4:                         # trailing bytes after a segwit transaction
            raw = seg + rand_bytes(rng, 2)
            yield {"tx_id_bytes": rng.choice([honest, _rev_hash(raw)]), "raw": raw}
        elif mode == 5:                         # legacy transaction whose scriptSig uses OP_PUSHDATA1 for a short push
            data = rand_bytes(rng, rng.randrange(1, 60))
            nonmin = b"\x4c" + bytes([len(data)]) + data
            t2 = (tx[0], [(tx[1][0][0], tx[1][0][1], nonmin, tx[1][0][3], [])] + [(i[0], i[1], i[2], i[3], []) for i in tx[1][1:]], tx[2], tx[3])
            raw = T.legacy_ser(t2)
            yield {"tx_id_bytes": _rev_hash(raw), "raw": raw}
        elif mode == 6:
            yield {"tx_id_bytes": rand_bytes(rng, 32), "raw": rng.choice([leg, seg])}
        elif mode == 7:
            cut = rng.randrange(0, len(leg))
            raw = leg[:cut]
            yield {"tx_id_bytes": rng.choice([honest, _rev_hash(raw)]), "raw": raw}
        elif mode == 8:
            pos = rng.randrange(0, len(leg))
            raw = leg[:pos] + bytes([leg[pos] ^ (1 << rng.randrange(8))]) + leg[pos + 1:]
            yield {"tx_id_bytes": rng.choice([honest, _rev_hash(raw)]), "raw": raw}
        elif mode == 9:
            raw = rand_bytes(rng, rng.randrange(0, 120))
            yield {"tx_id_bytes": _rev_hash(raw), "raw": raw}
        elif mode == 10:                        # segwit serialisation, id = hash of the full response (the wtxid)
            yield {"tx_id_bytes": _rev_hash(seg), "raw": seg}
        else:                                   # no inputs: legacy bytes that read as the BIP144 marker
            t0 = (tx[0], [], tx[2], tx[3])
            raw = T.legacy_ser(t0)
            yield {"tx_id_bytes": _rev_hash(raw), "raw": raw}


# whatever bytes the server returns, a transaction handed back for tx_id hashes to tx_id
contract(H + "fetch_raw", props=("C04",), params={"tx_id_bytes": "bytes:32", "raw": "bytes"},
         ensures=["implies(returns(), result == tx_id_bytes)"], gen=_gen_fetch)


# history form of the fetcher clause: whatever the server answered, every transaction the fetcher hands
# back later for that id -- and every entry it leaves in its cache -- hashes to the id it is filed under
contract(H + "fetch_twice", props=("C04",), params={"tx_id_bytes": "bytes:32", "raw": "bytes"}, tiers=(),
         ensures=["returns()", "all(k == h for k, h in result)"], gen=_gen_fetch)
